/-
Driver commands for the compositor model (C11, C13).

  comp.pixel      <request>   -> ok  c0,c1,... <shape> <alpha>     (tabulating evaluator; = model, `compositeDocF_eq`)
  comp.pixel.ref  <request>   -> the same through `compositeDoc` itself (exponential in the stack length; small trees only)
  comp.spec       <request>   -> ok  p0,p1,... <shape> <alpha>     the published model (`Model/CompositeSpec.lean`, tabulating
                                 evaluator = `specDoc`, `specDocF_eq`) with the group-alpha rule of a knockout element AS CODED:
                                 group colour PREMULTIPLIED by the group alpha, group shape, group alpha.
                                 `compositor_refines_spec_doc`: p_i = c_i * alpha of `comp.pixel`, same shape, alpha.
  comp.spec.alt   <request>   -> the same with the PUBLISHED rule (PDF 1.7 11.4.6); equal to `comp.spec` on trees without
                                 knockout flags (`compositor_refines_spec_partial_doc`)

One request = ONE tab field of space-separated tokens (rationals `n/d` or `n`, booleans `0`/`1`):

  request := <cmode> <Vl> <Vt> <Vr> <Vb> <x> <y> <nch> <c0> … <alpha> <nlayers> <node> …
  cmode   := L | RGB | CMYK                       (document colour mode: how non-separable modes read a colour)
  node    := L <props> <hasPixels> <nch> <c…> <shape> <nclips> <clip nodes…>
           | G <props> <passThrough> <nchildren> <children…> <nclips> <clip nodes…>
  props   := visible l t r b opacity fill hasMask ml mt mr mb maskValue maskBg maskDensity mode knockout clipping hasClipTarget
  mode    := name of the Python blend FUNCTION the compositor calls (`BLEND_FUNC.get(layer.blend_mode, normal).__name__`)

`<c…>` of a layer is its colour at the pixel (`layer.numpy("color")`), one value per channel; a single value stands
for every channel (NumPy broadcasting of a one-channel array).  Lists are bottom first, as the code iterates them.

Blend table `B`: separable functions per channel; the six non-separable ones on channels 0..2 (RGB documents) or
through the CMYK wrapper (4-channel documents); `dissolve` and unknown names are `normal`, as `BLEND_FUNC.get(·, normal)`.
A non-separable mode in a one-channel document is answered `err Unsupported` (the NumPy code fails on it).
-/
import Driver.Util
import Driver.Blend
import PsdVerif.Model.CompositeEval
import PsdVerif.Model.CompositeSpecEval

namespace Driver.Composite
open PsdVerif PsdVerif.Composite PsdVerif.Blend Driver Driver.Blend

/-! ### blend table -/

inductive CMode where
  | l | rgb | cmyk
  deriving DecidableEq

def modeNames : Array String :=
  #["normal", "multiply", "screen", "overlay", "darken", "lighten", "color_dodge", "color_burn",
    "linear_dodge", "linear_burn", "hard_light", "soft_light", "vivid_light", "linear_light",
    "pin_light", "hard_mix", "divide", "difference", "exclusion", "subtract",
    "hue", "saturation", "color", "luminosity", "darker_color", "lighter_color", "dissolve"]

/-- index of a function name; names the table does not know are `normal` (index 0) -/
def modeIndex (s : String) : Nat :=
  match modeNames.toList.idxOf? s with
  | some i => i
  | none => 0

def isNonSep (s : String) : Bool :=
  s == "hue" || s == "saturation" || s == "color" || s == "luminosity" || s == "darker_color" || s == "lighter_color"

def rgbOf (c : Color) : RGB := ⟨c 0, c 1, c 2⟩
def cmykOf (c : Color) : CMYK := ⟨c 0, c 1, c 2, c 3⟩

def blendOf (cm : CMode) (m : Mode) : Color → Color → Color :=
  let name := modeNames.getD m "normal"
  match separable sqrtApprox name with
  | some f => fun cb cs ch => f (cb ch) (cs ch)
  | none =>
    match nonSeparable name with
    | some f =>
      if cm == .cmyk then
        fun cb cs ch =>
          let o := nonSepCMYK .s f (cmykOf cb) (cmykOf cs)
          match ch with | 0 => o.c | 1 => o.m | 2 => o.y | _ => o.k
      else
        fun cb cs ch =>
          let o := f (rgbOf cb) (rgbOf cs)
          match ch with | 0 => o.r | 1 => o.g | _ => o.b
    | none => fun _ cs => cs

/-! ### recursive-descent parser over the token list -/

abbrev P (α : Type) := List String → Option (α × List String)

def pTok : P String
  | t :: ts => some (t, ts)
  | [] => none

def pRat : P Rat
  | t :: ts => (parseRat t).map (fun q => (q, ts))
  | [] => none

def pInt : P Int
  | t :: ts => t.toInt?.map (fun z => (z, ts))
  | [] => none

def pNat : P Nat
  | t :: ts => t.toNat?.map (fun z => (z, ts))
  | [] => none

def pBool : P Bool
  | "1" :: ts => some (true, ts)
  | "0" :: ts => some (false, ts)
  | _ => none

def pMany {α : Type} (p : P α) : Nat → P (List α)
  | 0 => fun ts => some ([], ts)
  | k + 1 => fun ts => do
    let (a, ts) ← p ts
    let (as, ts) ← pMany p k ts
    some (a :: as, ts)

def pRect : P Rect := fun ts => do
  let (l, ts) ← pInt ts
  let (t, ts) ← pInt ts
  let (r, ts) ← pInt ts
  let (b, ts) ← pInt ts
  some (⟨l, t, r, b⟩, ts)

/-- a colour from its channel values: one value stands for every channel -/
def colorOfList : List Rat → Color
  | [v] => fun _ => v
  | vs => let arr := vs.toArray; fun i => arr.getD i 1

def pColor : P Color := fun ts => do
  let (n, ts) ← pNat ts
  let (vs, ts) ← pMany pRat n ts
  some (colorOfList vs, ts)

def pProps : P Props := fun ts => do
  let (visible, ts) ← pBool ts
  let (bbox, ts) ← pRect ts
  let (opacity, ts) ← pRat ts
  let (fill, ts) ← pRat ts
  let (hasMask, ts) ← pBool ts
  let (mbox, ts) ← pRect ts
  let (mv, ts) ← pRat ts
  let (mbg, ts) ← pRat ts
  let (md, ts) ← pRat ts
  let (mode, ts) ← pTok ts
  let (ko, ts) ← pBool ts
  let (clipping, ts) ← pBool ts
  let (hct, ts) ← pBool ts
  some ({ visible := visible, bbox := bbox, opacity := opacity, fill := fill, hasMask := hasMask, maskBBox := mbox,
          maskValue := mv, maskBackground := mbg, maskDensity := md, mode := modeIndex mode, knockout := ko,
          clipping := clipping, hasClipTarget := hct }, ts)

/-- `fuel` bounds the nesting depth (the token count is always enough) -/
def pNode : Nat → P Node
  | 0 => fun _ => none
  | fuel + 1 => fun ts =>
    match ts with
    | "L" :: ts => do
      let (pr, ts) ← pProps ts
      let (hp, ts) ← pBool ts
      let (col, ts) ← pColor ts
      let (sh, ts) ← pRat ts
      let (nc, ts) ← pNat ts
      let (clips, ts) ← pMany (pNode fuel) nc ts
      some (.leaf pr hp col sh clips, ts)
    | "G" :: ts => do
      let (pr, ts) ← pProps ts
      let (pt, ts) ← pBool ts
      let (nk, ts) ← pNat ts
      let (kids, ts) ← pMany (pNode fuel) nk ts
      let (nc, ts) ← pNat ts
      let (clips, ts) ← pMany (pNode fuel) nc ts
      some (.group pr pt kids clips, ts)
    | _ => none

structure Request where
  cm : CMode
  V : Rect
  x : Int
  y : Int
  nch : Nat
  color : Color
  alpha : Rat
  layers : List Node

def pCMode : P CMode
  | "L" :: ts => some (.l, ts)
  | "RGB" :: ts => some (.rgb, ts)
  | "CMYK" :: ts => some (.cmyk, ts)
  | _ => none

def pRequest (toks : List String) : Option Request := do
  let (cm, ts) ← pCMode toks
  let (V, ts) ← pRect ts
  let (x, ts) ← pInt ts
  let (y, ts) ← pInt ts
  let (nch, ts) ← pNat ts
  let (vs, ts) ← pMany pRat nch ts
  let (alpha, ts) ← pRat ts
  let (nl, ts) ← pNat ts
  let (layers, ts) ← pMany (pNode toks.length) nl ts
  if ts.isEmpty then some ⟨cm, V, x, y, nch, colorOfList vs, alpha, layers⟩ else none

mutual
def usesNonSep : Node → Bool
  | .leaf pr _ _ _ clips => isNonSep (modeNames.getD pr.mode "") || listUsesNonSep clips
  | .group pr _ kids clips => isNonSep (modeNames.getD pr.mode "") || listUsesNonSep kids || listUsesNonSep clips
def listUsesNonSep : List Node → Bool
  | [] => false
  | n :: ns => usesNonSep n || listUsesNonSep ns
end

def answer (r : Color × Rat × Rat) (nch : Nat) : String :=
  okLine (",".intercalate ((List.range nch).map (fun i => ratStr (r.1 i))) ++ " " ++ ratStr r.2.1 ++ " " ++ ratStr r.2.2)

def run (fast : Bool) (args : List String) : String :=
  match args with
  | [field] =>
    match pRequest ((field.splitOn " ").filter (fun t => t != "")) with
    | none => badRequest
    | some q =>
      if q.cm == .l && listUsesNonSep q.layers then "err\tUnsupported" else
      let B := blendOf q.cm
      if fast then answer (compositeDocF q.nch B q.V q.x q.y q.color q.alpha q.layers) q.nch
      else answer (compositeDoc B q.V q.x q.y q.color q.alpha q.layers) q.nch
  | _ => badRequest

/-- the published model on the same request (the backdrop colour of the request is straight: premultiply it) -/
def runSpec (rule : KoRule) (args : List String) : String :=
  match args with
  | [field] =>
    match pRequest ((field.splitOn " ").filter (fun t => t != "")) with
    | none => badRequest
    | some q =>
      if q.cm == .l && listUsesNonSep q.layers then "err\tUnsupported" else
      let B := blendOf q.cm
      let P : Color := fun ch => q.alpha * q.color ch
      answer (specDocF rule q.nch B q.V q.x q.y P q.alpha q.layers) q.nch
  | _ => badRequest

def cmds : List (String × Cmd) := [
  ("comp.pixel", run true),
  ("comp.pixel.ref", run false),
  ("comp.spec", runSpec .pdf17),
  ("comp.spec.alt", runSpec .alphaCoherent)
]

end Driver.Composite
