/-
Line protocol helpers for the model driver (core Lean only).
A request is one line:  <id> TAB <cmd> TAB <arg> TAB <arg> ...
The answer is one line: <id> TAB ok TAB <payload>   or   <id> TAB err TAB <ErrClass>
Bytes travel as lowercase hex ("-" for the empty string), naturals in decimal.
-/
import PsdVerif.Model.Basic

namespace Driver
open PsdVerif

def hexDigit (c : Char) : Option Nat :=
  if '0' ≤ c ∧ c ≤ '9' then some (c.toNat - '0'.toNat)
  else if 'a' ≤ c ∧ c ≤ 'f' then some (c.toNat - 'a'.toNat + 10)
  else if 'A' ≤ c ∧ c ≤ 'F' then some (c.toNat - 'A'.toNat + 10)
  else none

partial def parseHexAux (cs : List Char) (acc : Array UInt8) : Option (Array UInt8) :=
  match cs with
  | [] => some acc
  | a :: b :: rest =>
    match hexDigit a, hexDigit b with
    | some x, some y => parseHexAux rest (acc.push (UInt8.ofNat (x * 16 + y)))
    | _, _ => none
  | _ => none

def parseHex (s : String) : Option Bytes :=
  if s == "-" then some #[] else parseHexAux s.toList #[]

def hexChars : Array Char := "0123456789abcdef".toList.toArray

def toHexList (bs : List UInt8) : String :=
  if bs.isEmpty then "-" else
  String.ofList (bs.foldr (fun b acc => hexChars[b.toNat / 16]! :: hexChars[b.toNat % 16]! :: acc) [])

def toHex (bs : Bytes) : String := toHexList bs.toList

def okLine (payload : String) : String := "ok\t" ++ payload
def errLine (e : Err) : String := "err\t" ++ e.name
def badRequest : String := "bad-request"

/-- A command takes the argument fields and returns the answer (without id). -/
abbrev Cmd := List String → String

end Driver
