import Driver.Util
import PsdVerif.Model.Compression

namespace Driver.Compression
open PsdVerif PsdVerif.Compression Driver

/-- zlib is a parameter of the model; the driver runs the identity codec (the harness
inflates / deflates on the Python side and compares the stage before zlib). -/
def zId : ZCodec := { deflate := id, inflate := some }

def codecOf (s : String) : Option Codec :=
  match s with
  | "0" => some .raw | "1" => some .rle | "2" => some .zip | "3" => some .zipPred
  | _ => none

def res : Except Err BList → String
  | .ok r => okLine (toHexList r)
  | .error e => errLine e

def resA : Except Err (Array UInt8) → String
  | .ok r => okLine (toHexList r.toList)
  | .error e => errLine e

def nats (l : List String) : Option (List Nat) := l.mapM (·.toNat?)

def hexL (s : String) : Option BList := (parseHex s).map (·.toList)

def planesOut (ps : List BList) : String := ",".intercalate (ps.map toHexList)

def cmds : List (String × Cmd) := [
  ("cmp.compress", fun
    | h :: c :: rest => match hexL h, codecOf c, nats rest with
      | some d, some c, some [w, ht, depth, v] => res (compress zId d c w ht depth v)
      | _, _, _ => badRequest
    | _ => badRequest),
  ("cmp.decompress", fun
    | h :: c :: rest => match hexL h, codecOf c, nats rest with
      | some d, some c, some [w, ht, depth, v] => res (decompress zId d c w ht depth v)
      | _, _, _ => badRequest
    | _ => badRequest),
  ("cmp.encRle", fun
    | h :: rest => match hexL h, nats rest with
      | some d, some [w, ht, depth, v] => res (encodeRle d w ht depth v)
      | _, _ => badRequest
    | _ => badRequest),
  ("cmp.decRle", fun
    | h :: rest => match hexL h, nats rest with
      | some d, some [w, ht, depth, v] => res (decodeRle d w ht depth v)
      | _, _ => badRequest
    | _ => badRequest),
  ("cmp.encPred", fun
    | h :: rest => match hexL h, nats rest with
      | some d, some [w, ht, depth] => res (encodePrediction d w ht depth)
      | _, _ => badRequest
    | _ => badRequest),
  ("cmp.decPred", fun
    | h :: rest => match hexL h, nats rest with
      | some d, some [w, ht, depth] => res (decodePrediction d w ht depth)
      | _, _ => badRequest
    | _ => badRequest),
  ("cmp.shuffle", fun
    | h :: rest => match parseHex h, nats rest with
      | some d, some [w, ht] => resA (shuffle d w ht)
      | _, _ => badRequest
    | _ => badRequest),
  ("cmp.restore", fun
    | h :: rest => match parseHex h, nats rest with
      | some d, some [w, ht] => resA (restore d w ht)
      | _, _ => badRequest
    | _ => badRequest),
  ("cmp.imageSet", fun
    | ps :: c :: rest => match (ps.splitOn ",").mapM hexL, codecOf c, nats rest with
      | some planes, some c, some [w, ht, ch, depth, v] => res (imageSet zId planes c w ht ch depth v)
      | _, _, _ => badRequest
    | _ => badRequest),
  ("cmp.imageGet", fun
    | h :: c :: rest => match hexL h, codecOf c, nats rest with
      | some d, some c, some [w, ht, ch, depth, v] =>
        (match imageGet zId d c w ht ch depth v with
         | .ok ps => okLine (planesOut ps)
         | .error e => errLine e)
      | _, _, _ => badRequest
    | _ => badRequest),
  ("cmp.vmaSet", fun
    | h :: c :: rest => match hexL h, codecOf c, nats rest with
      | some d, some c, some [sw, sh, depth] =>
        (match vmaSet zId d c sw sh depth with
         | .ok (e, (t, l, b, r)) => okLine (toHexList e) ++ s!"\t{t},{l},{b},{r}"
         | .error e => errLine e)
      | _, _, _ => badRequest
    | _ => badRequest),
  ("cmp.vmaGet", fun
    | h :: c :: rest => match hexL h, codecOf c, nats rest with
      | some d, some c, some [t, l, b, r, depth] => res (vmaGet zId d c (t, l, b, r) depth)
      | _, _, _ => badRequest
    | _ => badRequest)
]

end Driver.Compression
