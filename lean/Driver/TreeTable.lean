/-
Driver command of the table machine (C09 / C10): the public structural mutators as
`Generated/TreeTable.lean` lists them.

  treetbl.run <init> <ops>      the whole history in one line, every call one run of the table machine

Formats as `treest.run` (Driver/TreeSt.lean).
-/
import Driver.Util
import Driver.TreeSt
import PsdVerif.Model.TreeTable
import PsdVerif.Generated.TreeTable

namespace Driver.TreeTable
open PsdVerif PsdVerif.TreeSt Driver Driver.TreeSt

def runDump (t : PsdVerif.TreeTable.Table) : State → List Op → List String
  | _, [] => []
  | s, op :: ops =>
    let r := PsdVerif.TreeTable.tableStep t s op
    (showOut r.2 ++ "#" ++ showState r.1) :: runDump t r.1 ops

def cmds : List (String × Cmd) := [
  ("treetbl.run", fun
    | [init, ops] =>
      match parseInit init with
      | some s0 =>
        let opStrs := if ops == "-" then [] else ops.splitOn ";"
        match opStrs.mapM (fun o => parseOp (words o)) with
        | some ops => okLine ("|".intercalate (runDump Generated.TreeTable.table s0 ops))
        | none => badRequest
      | none => badRequest
    | _ => badRequest),
  ("treetbl.ok", fun
    | [] => okLine (if PsdVerif.TreeTable.tableOk Generated.TreeTable.table then "1" else "0")
    | _ => badRequest)
]

end Driver.TreeTable
