import Driver.Util
import PsdVerif.Model.Clip

/-!
Driver commands of the C15 model.

`clip.compute <mode> <flags>`  flags: one digit per child, bottom first: clipping + 2*isGroup + 4*passThrough
                               (`-` = empty list). mode: 0 PHOTOSHOP 1 PAINT_TOOL_SAI 2 CLIP_STUDIO_PAINT 3 GIMP 4 KRITA
      answer: ok <per child: t|f then clip positions joined by ','> joined by ' '  (e.g. `t1,2 t t`)
`clip.spec <mode> <flags>`     the same through `Spec.clip`
`clip.doc <mode> <tree>`       tree: nodes separated by spaces, a node is a digit d = clipping + 4*passThrough,
                               a group is `d[ … ]` (children bottom first); ids are assigned in pre-order
                               (a group before its children)
      answer: ok <entries `id:t|f:clipids` sorted by id>
-/
namespace Driver.Clip
open PsdVerif PsdVerif.Clip PsdVerif.Tree Driver

def mode? : String → Option CompatMode
  | "0" => some .photoshop | "1" => some .paintToolSai | "2" => some .clipStudioPaint
  | "3" => some .gimp | "4" => some .krita | _ => none

def flags? (c : Char) : Option ChildFlags :=
  if '0' ≤ c ∧ c ≤ '7' then
    let n := c.toNat - '0'.toNat
    some ⟨n % 2 == 1, (n / 2) % 2 == 1, (n / 4) % 2 == 1⟩
  else none

def parseFlags (s : String) : Option (List ChildFlags) :=
  if s == "-" then some [] else s.toList.mapM flags?

def natsStr (l : List Nat) : String := ",".intercalate (l.map toString)

def infoStr (ci : ClipInfo) : String := (if ci.hasTarget then "t" else "f") ++ natsStr ci.clipLayers

def infosStr (l : List ClipInfo) : String := if l.isEmpty then "-" else " ".intercalate (l.map infoStr)

/-- Recursive descent over the token list of `clip.doc`; returns the forest, the flags read (in id
    order) and the rest. -/
partial def parseNodes (toks : List Char) (next : Nat) (fl : Array LayerFlags) :
    Option (List Node × Nat × Array LayerFlags × List Char) :=
  match toks with
  | [] => some ([], next, fl, [])
  | ']' :: rest => some ([], next, fl, ']' :: rest)
  | ' ' :: rest => parseNodes rest next fl
  | c :: rest =>
    if '0' ≤ c ∧ c ≤ '7' then
      let n := c.toNat - '0'.toNat
      let f : LayerFlags := ⟨n % 2 == 1, (n / 4) % 2 == 1⟩
      match rest with
      | '[' :: rest' =>
        match parseNodes rest' (next + 1) (fl.push f) with
        | some (kids, next', fl', ']' :: rest'') =>
          match parseNodes rest'' next' fl' with
          | some (sibs, n2, fl2, r2) => some (.group next (1000000 + next) false kids :: sibs, n2, fl2, r2)
          | none => none
        | _ => none
      | _ =>
        match parseNodes rest (next + 1) (fl.push f) with
        | some (sibs, n2, fl2, r2) => some (.layer next :: sibs, n2, fl2, r2)
        | none => none
    else none

def entryStr (e : Entry) : String :=
  toString e.id ++ ":" ++ (if e.hasTarget then "t" else "f") ++ ":" ++ natsStr e.clipIds

def insertSorted (e : Entry) : List Entry → List Entry
  | [] => [e]
  | x :: xs => if e.id ≤ x.id then e :: x :: xs else x :: insertSorted e xs

def cmds : List (String × Cmd) := [
  ("clip.compute", fun
    | [m, fs] => match mode? m, parseFlags fs with
      | some m, some cs => okLine (infosStr (computeClip m cs))
      | _, _ => badRequest
    | _ => badRequest),
  ("clip.spec", fun
    | [m, fs] => match mode? m, parseFlags fs with
      | some m, some cs => okLine (infosStr (Spec.clip m cs))
      | _, _ => badRequest
    | _ => badRequest),
  ("clip.doc", fun
    | [m, t] => match mode? m, parseNodes t.toList 0 #[] with
      | some m, some (f, _, fl, []) =>
        let look : Nat → LayerFlags := fun i => fl[i]?.getD ⟨false, false⟩
        let es := (clipDoc m look f).foldr insertSorted []
        okLine (if es.isEmpty then "-" else " ".intercalate (es.map entryStr))
      | _, _ => badRequest
    | _ => badRequest)
]

end Driver.Clip
