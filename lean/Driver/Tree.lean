import Driver.Util
import PsdVerif.Model.TreeParse
import PsdVerif.Model.Reopen
import PsdVerif.Generated.TreeKinds

/-!
Driver commands of the C08 model.

`tree.open <recs>`   recs: space separated tokens `sna` (one per record, payload id = position):
                     s, n = kind of SECTION_DIVIDER_SETTING / NESTED_SECTION_DIVIDER_SETTING
                     (`-` absent, `0` OTHER, `1` OPEN_FOLDER, `2` CLOSED_FOLDER, `3` BOUNDING), a = `1`
                     when an artboard key is present. `-` alone = no records.
                     answer: ok <roles> <forest> <flatten of the forest>   |  err <Class>
`tree.kind <pdi> <keys>`  keys: comma separated Tag names (`-` = none) -> ok <kind>
`tree.stored <li> <lr16> <lr32>`  each `-` (attribute `None` / block absent) or the number of records held there
                     (payload ids 0.., 1000.., 2000..) -> ok <slot the reader takes> <payload ids `_iter_layers` yields>
-/
namespace Driver.Tree
open PsdVerif PsdVerif.Tree Driver

def divKind? : Char → Option (Option DivKind)
  | '-' => some none
  | '0' => some (some .other)
  | '1' => some (some .openFolder)
  | '2' => some (some .closedFolder)
  | '3' => some (some .bounding)
  | _ => none

def parseTok (t : String) : Option DivBlocks :=
  match t.toList with
  | [s, n, a] =>
    match divKind? s, divKind? n with
    | some s, some n => if a == '0' then some ⟨s, n, false⟩ else if a == '1' then some ⟨s, n, true⟩ else none
    | _, _ => none
  | _ => none

def parseRecs (s : String) : Option (List DivBlocks) :=
  if s == "-" then some [] else (s.splitOn " ").mapM parseTok

def classifyAll (bs : List DivBlocks) : List Rec :=
  (bs.zipIdx).map fun (b, i) => classify b i

def recStr : Rec → String
  | .leaf p => s!"L{p}"
  | .bounding p => s!"B{p}"
  | .closing p false => s!"C{p}"
  | .closing p true => s!"A{p}"

def recsStr (rs : List Rec) : String :=
  if rs.isEmpty then "-" else " ".intercalate (rs.map recStr)

partial def nodeStr : Node → String
  | .layer p => s!"L{p}"
  | .group c b a ch =>
    (if a then "A" else "G") ++ s!"{c}.{b}[" ++ " ".intercalate (ch.map nodeStr) ++ "]"

def forestStr (f : List Node) : String :=
  if f.isEmpty then "-" else " ".intercalate (f.map nodeStr)

def parseSlot (off : Nat) (s : String) : Option (Option (List Nat)) :=
  if s == "-" then some none else (s.toNat?).map fun n => some ((List.range n).map (· + off))

def slotStr : Reopen.Slot → String
  | .layerInfo => "layer_info"
  | .lr16 => "LAYER_16"
  | .lr32 => "LAYER_32"

def cmds : List (String × Cmd) := [
  ("tree.stored", fun
    | [a, b, c] => match parseSlot 0 a, parseSlot 1000 b, parseSlot 2000 c with
      | some a, some b, some c =>
        let m : Reopen.Sections := ⟨a, b, c⟩
        let ps := Reopen.storedPayloads m
        okLine (slotStr (Reopen.readerSlot m) ++ "\t" ++
          (if ps.isEmpty then "-" else " ".intercalate (ps.map toString)))
      | _, _, _ => badRequest
    | _ => badRequest),
  ("tree.open", fun
    | [recs] => match parseRecs recs with
      | some bs =>
        let rs := classifyAll bs
        match parse rs with
        | .ok f => okLine (recsStr rs ++ "\t" ++ forestStr f ++ "\t" ++ recsStr (flatten f))
        | .error e => errLine e ++ "\t" ++ recsStr rs
      | none => badRequest
    | _ => badRequest),
  ("tree.kind", fun
    | [pdi, keys] =>
      let ks := if keys == "-" then [] else keys.splitOn ","
      okLine (kindOf Generated.TreeKinds.tables (fun k => ks.contains k) (pdi == "1"))
    | _ => badRequest)
]

end Driver.Tree
