import Driver.Util
import Driver.Rle

open Driver

def allCmds : List (String × Cmd) := Driver.Rle.cmds

def dispatch (line : String) : String :=
  match line.splitOn "\t" with
  | id :: cmd :: args =>
    match allCmds.lookup cmd with
    | some f => id ++ "\t" ++ f args
    | none => id ++ "\tunknown-command"
  | _ => "?\tbad-request"

partial def loop (hin hout : IO.FS.Stream) : IO Unit := do
  let line ← hin.getLine
  if line.isEmpty then return ()
  let l := (line.dropEndWhile (fun c => c == (Char.ofNat 10) || c == (Char.ofNat 13))).toString
  hout.putStrLn (dispatch l)
  loop hin hout

def main : IO Unit := do
  let hin ← IO.getStdin
  let hout ← IO.getStdout
  loop hin hout
  hout.flush
