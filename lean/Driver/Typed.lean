/-
Driver commands for the typed documents of the C01 model (Model/Typed*.lean).

  td.enc <Class> <version> <pad> <tokens>    ->  ok <hex> <written> <wf 0|1> <tokens of the object after write> | err <ErrClass>
  td.dec <Class> <version> <pad> <hex> <pos> ->  ok <tokens> <pos>                                              | err <ErrClass>
  td.kind <key hex>                          ->  ok raw | ok <ClassName> | ok LayerInfoBlock | ok ?

Classes: `EngineData2` (a tree in the prefix code of Driver/EngineData.lean), `TypeToolTyped` (the tokens of
`TypeToolObjectSetting` of Driver/Payload.lean, then `0` | `1 <tree>`: the engine data as the reader leaves it),
`TaggedBlock` (`<sig> <key> payload`, payload = `0 <hex>` raw | `1 <ClassName> <value tokens of the class>` |
`2 <typed layer info>`), `PSD` (header, colour mode data, `<n>` typed resources as in Driver/Payload3.lean, the typed layer
and mask section, image data; `version` is ignored, `pad` is the layer-info padding).
A typed layer info is `<count> opt(<n> record*n) opt(<n> (<m> channel*m)*n)`, a typed record the record of Driver/Psd.lean
with typed blocks. The reader has `levels = 3` levels of `Lr16` / `Lr32` nesting below a block.
-/
import Driver.Util
import Driver.Psd
import Driver.Descriptor
import Driver.Payload
import Driver.Payload3
import Driver.EngineData
import PsdVerif.Model.TypedDoc

namespace Driver.Typed
open PsdVerif PsdVerif.Codec PsdVerif.Psd PsdVerif.Payload PsdVerif.Payload3 PsdVerif.Typed Driver Driver.Psd Driver.Payload
  Driver.Payload3

def levels : Nat := 3

/-! ### engine data -/

def pTree : P Tree := fun ts =>
  match Driver.EngineData.decVal (ts.length + 2) ts with
  | some (.dict t, rest) => some (t, rest)
  | _ => none
def tTree (t : Tree) : T := Driver.EngineData.encVal (.dict t)

def pTypeToolTyped : P TypeToolTyped := do let b ← pTypeTool; let e ← pOpt pTree; pure ⟨b, e⟩
def tTypeToolTyped (x : TypeToolTyped) : T := tTypeTool x.base ++ tOpt tTree x.engine

/-! ### the classes of `tagged_blocks.TYPES` -/

def TClass.p : (c : TClass) → P c.Val
  | .annotations => pAnnotations | .brightnessContrast => pRow | .byteElement => pNat | .bytes => pBytes
  | .channelBlendingRestrictionsSetting => pList pNat | .channelMixer => pPair pRow (pPair pRow pBytes)
  | .colorBalance => pPair pRow (pPair pRow (pPair pRow pRow)) | .colorLookup => pBlock2D | .curves => pCurves
  | .descriptorBlock => pBlockD | .descriptorBlock2 => pBlock2D | .effectsLayer => pEffectsLayer
  | .emptyElement => (do let _ ← pNat; pure ()) | .engineData2 => pTree | .exposure => pRow
  | .filterEffects => pPair pRow (pList pFilterEffect) | .filterMask => pFilterMask | .gradientMap => pGradientMap
  | .hueSaturation => pPair pRow (pPair pRow (pPair pRow (pList (pPair pRow pRow)))) | .integerElement => pNat | .levels => pLevels
  | .linkedLayers => pList pLinked | .metadataSettings => pList pMetadataSetting | .patterns => pList pPattern
  | .photoFilter => pPhotoFilter | .pixelSourceData2 => pList pBytes | .placedLayerData => pPlaced | .protectedSetting => pNat
  | .referencePoint => pList pF64 | .sectionDividerSetting => pDivider | .selectiveColor => pPair pRow (pList pRow)
  | .sheetColorSetting => pNat | .shortIntegerElement => pNat | .smartObjectLayerData => pSmartObject | .stringElement => pStr
  | .typeToolObjectSetting => pTypeToolTyped | .userMask => pUserMask | .vectorMaskSetting => pVMS
  | .vectorStrokeContentSetting => pVSCS

def TClass.t : (c : TClass) → c.Val → T
  | .annotations => tAnnotations | .brightnessContrast => tRow | .byteElement => tNat | .bytes => tBytes
  | .channelBlendingRestrictionsSetting => tList tNat | .channelMixer => tPair tRow (tPair tRow tBytes)
  | .colorBalance => tPair tRow (tPair tRow (tPair tRow tRow)) | .colorLookup => tBlock2D | .curves => tCurves
  | .descriptorBlock => tBlockD | .descriptorBlock2 => tBlock2D | .effectsLayer => tEffectsLayer
  | .emptyElement => (fun _ => ["0"]) | .engineData2 => tTree | .exposure => tRow
  | .filterEffects => tPair tRow (tList tFilterEffect) | .filterMask => tFilterMask | .gradientMap => tGradientMap
  | .hueSaturation => tPair tRow (tPair tRow (tPair tRow (tList (tPair tRow tRow)))) | .integerElement => tNat | .levels => tLevels
  | .linkedLayers => tList tLinked | .metadataSettings => tList tMetadataSetting | .patterns => tList tPattern
  | .photoFilter => tPhotoFilter | .pixelSourceData2 => tList tBytes | .placedLayerData => tPlaced | .protectedSetting => tNat
  | .referencePoint => tList tF64 | .sectionDividerSetting => tDivider | .selectiveColor => tPair tRow (tList tRow)
  | .sheetColorSetting => tNat | .shortIntegerElement => tNat | .smartObjectLayerData => tSmartObject | .stringElement => tStr
  | .typeToolObjectSetting => tTypeToolTyped | .userMask => tUserMask | .vectorMaskSetting => tVMS
  | .vectorStrokeContentSetting => tVSCS

/-! ### blocks, records, layer infos over a payload type -/

section
variable {Q : Type}

def pBlkOf (pq : P Q) : P (Blk Q) := do let s ← pBytes; let k ← pBytes; let d ← pq; pure ⟨s, k, d⟩
def tBlkOf (tq : Q → T) (t : Blk Q) : T := tBytes t.signature ++ tBytes t.key ++ tq t.data

def pRecOf (pq : P Q) : P (Rec Q) := do
  let t ← pInt; let l ← pInt; let b ← pInt; let r ← pInt
  let cis ← pList pChannelInfo
  let sig ← pBytes; let bm ← pBytes; let op ← pNat; let cl ← pNat; let fl ← pLayerFlags
  let m ← pOpt pMask; let rg ← pRanges; let name ← pBytes; let tbs ← pList (pBlkOf pq)
  pure ⟨⟨t, l, b, r, cis, sig, bm, op, cl, fl, m, rg, name, []⟩, tbs⟩
def tRecOf (tq : Q → T) (x : Rec Q) : T :=
  let r := x.base
  tInt r.top ++ tInt r.left ++ tInt r.bottom ++ tInt r.right ++ tList tChannelInfo r.channelInfo ++
  tBytes r.signature ++ tBytes r.blendMode ++ tNat r.opacity ++ tNat r.clipping ++ tLayerFlags r.flags ++
  tOpt tMask r.maskData ++ tRanges r.blendingRanges ++ tBytes r.name ++ tList (tBlkOf tq) x.blocks

def pInfoOf (pq : P Q) : P (Info Q) := do
  let n ← pInt
  let rs ← pOpt (pList (pRecOf pq))
  let cs ← pOpt (pList (pList pChannelData))
  pure ⟨n, rs, cs⟩
def tInfoOf (tq : Q → T) (l : Info Q) : T :=
  tInt l.layerCount ++ tOpt (tList (tRecOf tq)) l.records ++ tOpt (tList (tList tChannelData)) l.channels

def pPayOf (pq : P Q) : P (Pay Q) := do
  let tag ← pNat
  match tag with
  | 0 => do let b ← pBytes; pure (.raw b)
  | 1 => do
    let nm ← next
    match TClass.ofName nm with
    | some c => do let v ← TClass.p c; pure (.cls c v)
    | none => failure
  | 2 => do let li ← pInfoOf pq; pure (.info li)
  | _ => failure
def tPayOf (tq : Q → T) : Pay Q → T
  | .raw b => "0" :: tBytes b
  | .cls c v => "1" :: c.name :: TClass.t c v
  | .info li => "2" :: tInfoOf tq li

end

def pBelow : (n : Nat) → P (Below n)
  | 0 => failure
  | n + 1 => pPayOf (pBelow n)
def tBelow : (n : Nat) → Below n → T
  | 0 => fun e => nomatch e
  | n + 1 => tPayOf (tBelow n)

abbrev L := Below levels
def KL : Kit L := kitBelow rtb levels
def KP : Kit (Pay L) := payKit rtb KL

def pPay : P (Pay L) := pPayOf (pBelow levels)
def tPay : Pay L → T := tPayOf (tBelow levels)
def pBlk : P (Blk (Pay L)) := pBlkOf pPay
def tBlk : Blk (Pay L) → T := tBlkOf tPay

def pTLam : P (TLam L) := do
  let li ← pOpt (pInfoOf pPay); let g ← pOpt pGlm; let t ← pOpt (pList pBlk)
  pure ⟨li, g, t⟩
def tTLam (x : TLam L) : T :=
  tOpt (tInfoOf tPay) x.layerInfo ++ tOpt tGlm x.globalMask ++ tOpt (tList tBlk) x.taggedBlocks

def pTPSD : P (TPSD L) := do
  let h ← pHeader; let cmd ← pBytes; let rs ← pList pTRes; let lm ← pTLam; let im ← pImage
  pure ⟨h, cmd, rs, lm, im⟩
def tTPSD (x : TPSD L) : T :=
  tHeader x.header ++ tBytes x.colorModeData ++ tList tTRes x.resources ++ tTLam x.layerAndMask ++ tImage x.imageData

def encCmd (cls : String) (v pad : Nat) (toks : String) : String :=
  match cls with
  | "EngineData2" => pcEnc EngineData2.codec pTree toks
  | "TypeToolTyped" => pcEnc (TypeToolTyped.codec rtb pad) pTypeToolTyped toks
  | "TaggedBlock" =>
    (match parseAll pBlk toks with
     | some t =>
       encOut (if t.Fits KP v pad then .ok (t.encP KP v pad) else .error .structError) (decide (t.WF KP v pad)) (tBlk (t.refresh KP))
     | none => badRequest)
  | "PSD" =>
    (match parseAll pTPSD toks with
     | some x =>
       encOut ((TPSD.enc rtb KL pad x).map (fun bs => (bs, bs.length))) (decide (x.WF rtb KL pad)) (tTPSD (x.refresh rtb KL))
     | none => badRequest)
  | _ => "unknown-class"

def decCmd (cls : String) (v pad : Nat) (d : B) (p : Nat) : String :=
  match cls with
  | "EngineData2" => pcDec EngineData2.codec tTree d p
  | "TypeToolTyped" => pcDec (TypeToolTyped.codec rtb pad) tTypeToolTyped d p
  | "TaggedBlock" => decOut (tOpt tBlk) (Blk.dec KP v pad d p)
  | "PSD" => decOut tTPSD (TPSD.read rtb KL d p)
  | _ => "unknown-class"

def cmds : List (String × Cmd) := [
  ("td.enc", fun
    | [cls, v, a, t] => match v.toNat?, a.toNat? with
      | some v, some pad => encCmd cls v pad t
      | _, _ => badRequest
    | _ => badRequest),
  ("td.dec", fun
    | [cls, v, a, h, p] => match v.toNat?, a.toNat?, p.toNat? with
      | some v, some pad, some p => withBytes h fun d => decCmd cls v pad d p
      | _, _, _ => badRequest
    | _ => badRequest),
  ("td.kind", fun
    | [h] => withBytes h fun key => okLine (match keyKind key with
      | .unregistered => "raw"
      | .plain c => c.name
      | .layerInfo => "LayerInfoBlock"
      | .unknownClass => "?")
    | _ => badRequest)
]

end Driver.Typed
