import Driver.Util
import PsdVerif.Model.Rle

namespace Driver.Rle
open PsdVerif PsdVerif.Rle Driver

def cres : CRes → String
  | .ok r => okLine (toHexList r)
  | .err e => errLine e
  | .oob => "err\tOUT-OF-BOUNDS"

def cmds : List (String × Cmd) := [
  ("rle.encPy", fun
    | [h] => match parseHex h with
      | some d => okLine (toHexList (encPy d))
      | none => badRequest
    | _ => badRequest),
  ("rle.encC", fun
    | [h] => match parseHex h with
      | some d => okLine (toHexList (encC d))
      | none => badRequest
    | _ => badRequest),
  ("rle.decPy", fun
    | [h, n] => match parseHex h, n.toNat? with
      | some d, some n => (match decPy d n with | .ok r => okLine (toHexList r) | .error e => errLine e)
      | _, _ => badRequest
    | _ => badRequest),
  ("rle.decC", fun
    | [h, n] => match parseHex h, n.toNat? with
      | some d, some n => cres (decC d n)
      | _, _ => badRequest
    | _ => badRequest),
  ("rle.spec", fun
    | [h] => match parseHex h with
      | some d => (match specDec d.toList with | some r => okLine (toHexList r) | none => "err\tTRUNCATED")
      | none => badRequest
    | _ => badRequest)
]

end Driver.Rle
