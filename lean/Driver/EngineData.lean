/-
Driver commands of the engine-data model (C18).

Trees travel in one field as a blank-separated prefix code:
  D n (hexkey value)*n | L n value*n | S n cp*n | B 0|1 | I int | F neg mant k | P hex | T hex
-/
import Driver.Util
import PsdVerif.Model.EngineData

namespace Driver.EngineData
open PsdVerif PsdVerif.EngineData Driver

def hexL (s : String) : Option BL := (parseHex s).map (·.toList)

/-! ### tree → text -/

def encScalar : Scalar → List String
  | .str s => "S" :: toString s.length :: s.map toString
  | .bool b => ["B", if b then "1" else "0"]
  | .int i => ["I", toString i]
  | .flt d => ["F", if d.neg then "1" else "0", toString d.mant, toString d.k]
  | .prop n => ["P", toHexList n]
  | .tag r => ["T", toHexList r]

mutual
def encVal : Val → List String
  | .dict items => "D" :: toString items.length :: encPairs items
  | .list elems => "L" :: toString elems.length :: encElems elems
  | .sc s => encScalar s
def encPairs : List (BL × Val) → List String
  | [] => []
  | (k, v) :: t => toHexList k :: (encVal v ++ encPairs t)
def encElems : List Val → List String
  | [] => []
  | v :: t => encVal v ++ encElems t
end

def encTree (t : Tree) : String := " ".intercalate (encVal (.dict t))

/-! ### text → tree -/

def takeNats : Nat → List String → Option (List Nat × List String)
  | 0, ts => some ([], ts)
  | n + 1, t :: ts => match t.toNat?, takeNats n ts with
    | some x, some (xs, r) => some (x :: xs, r)
    | _, _ => none
  | _ + 1, [] => none

mutual
def decVal : Nat → List String → Option (Val × List String)
  | 0, _ => none
  | f + 1, ts =>
    match ts with
    | "D" :: n :: r => match n.toNat? with
      | some n => (decPairs f n r).map fun (xs, r) => (.dict xs, r)
      | none => none
    | "L" :: n :: r => match n.toNat? with
      | some n => (decElems f n r).map fun (xs, r) => (.list xs, r)
      | none => none
    | "S" :: n :: r => match n.toNat? with
      | some n => (takeNats n r).map fun (xs, r) => (.sc (.str xs), r)
      | none => none
    | "B" :: b :: r => some (.sc (.bool (b == "1")), r)
    | "I" :: i :: r => (i.toInt?).map fun i => (.sc (.int i), r)
    | "F" :: s :: m :: k :: r => match m.toNat?, k.toNat? with
      | some m, some k => some (.sc (.flt ⟨s == "1", m, k⟩), r)
      | _, _ => none
    | "P" :: h :: r => (hexL h).map fun b => (.sc (.prop b), r)
    | "T" :: h :: r => (hexL h).map fun b => (.sc (.tag b), r)
    | _ => none
def decPairs : Nat → Nat → List String → Option (List (BL × Val) × List String)
  | 0, _, _ => none
  | _ + 1, 0, ts => some ([], ts)
  | f + 1, n + 1, k :: ts =>
    match hexL k, decVal f ts with
    | some k, some (v, r) => (decPairs f n r).map fun (xs, r) => ((k, v) :: xs, r)
    | _, _ => none
  | _ + 1, _ + 1, [] => none
def decElems : Nat → Nat → List String → Option (List Val × List String)
  | 0, _, _ => none
  | _ + 1, 0, ts => some ([], ts)
  | f + 1, n + 1, ts =>
    match decVal f ts with
    | some (v, r) => (decElems f n r).map fun (xs, r) => (v :: xs, r)
    | none => none
end

def decTree (s : String) : Option Tree :=
  let ts := (s.splitOn " ").filter (· ≠ "")
  match decVal (ts.length + 2) ts with
  | some (.dict t, []) => some t
  | _ => none

def layoutOf : String → Option Layout
  | "i" => some .indented
  | "c" => some .compact
  | _ => none

def res (r : Except Err String) : String :=
  match r with
  | .ok s => okLine s
  | .error e => errLine e

partial def allTokens (d : BL) (acc : Array String) : String :=
  match nextTok d with
  | .error e => okLine (" ".intercalate (acc.push ("!" ++ e.name)).toList)
  | .ok none => okLine (" ".intercalate acc.toList)
  | .ok (some (tok, ty, rest)) => allTokens rest (acc.push (toHexList tok ++ ":" ++ ty.name))

def cmds : List (String × Cmd) := [
  ("ed.write", fun
    | [l, t] => match layoutOf l, decTree t with
      | some l, some t => res ((write l t).map toHexList)
      | _, _ => badRequest
    | _ => badRequest),
  ("ed.parse", fun
    | [h] => match hexL h with
      | some d => res ((parse d).map encTree)
      | none => badRequest
    | _ => badRequest),
  -- the whole token stream; a tokenizer error ends it as "!ValueError"
  ("ed.tokens", fun
    | [h] => match hexL h with
      | some d => allTokens d #[]
      | none => badRequest
    | _ => badRequest),
  ("ed.classify", fun
    | [h] => match hexL h with
      | some d => okLine (match classify d with | some t => t.name | none => "none")
      | none => badRequest
    | _ => badRequest),
  -- the pre-fix end-of-string search, for the record of the defect
  ("ed.oldEnd", fun
    | [h] => match hexL h with
      | some d => okLine (match oldEnd d with | some n => toString n | none => "none")
      | none => badRequest
    | _ => badRequest),
  ("ed.escape", fun
    | [h] => match hexL h with
      | some d => okLine (toHexList (escape d))
      | none => badRequest
    | _ => badRequest),
  ("ed.unescape", fun
    | [h] => match hexL h with
      | some d => okLine (toHexList (unescape d))
      | none => badRequest
    | _ => badRequest),
  ("ed.decode", fun
    | [h] => match hexL h with
      | some d => res ((decodeUtf16 d).map fun s => " ".intercalate (s.map toString))
      | none => badRequest
    | _ => badRequest),
  ("ed.float", fun
    | [s, m, k] => match m.toNat?, k.toNat? with
      | some m, some k => okLine (toHexList (writeFloat ⟨s == "1", m, k⟩))
      | _, _ => badRequest
    | _ => badRequest)
]

end Driver.EngineData
