import Driver.Util
import PsdVerif.Model.Globals
import Std.Data.HashSet
import PsdVerif.Generated.Terms

namespace Driver.Key
open PsdVerif PsdVerif.Globals Driver

def code (kb : List UInt8) : Nat := kb.foldl (fun a b => a * 256 + b.toNat) 0

def termSet : Std.HashSet Nat := Std.HashSet.ofList Generated.Terms.termCodes

def isTerm (kb : List UInt8) : Bool := kb.length == 4 && termSet.contains (code kb)

def cmds : List (String × Cmd) := [
  ("key.read", fun
    | [h, p] => match parseHex h, p.toNat? with
      | some d, some p =>
        (match readKey isTerm d.toList p with
         | .ok (k, p') => okLine (toHexList k.bytes ++ "\t" ++ (if k.implicit then "1" else "0") ++ "\t" ++ toString p')
         | .error e => errLine e)
      | _, _ => badRequest
    | _ => badRequest),
  ("key.write", fun
    | [h, i] => match parseHex h with
      | some d =>
        (match writeKey isTerm { bytes := d.toList, implicit := i == "1" } with
         | .ok bs => okLine (toHexList bs)
         | .error e => errLine e)
      | none => badRequest
    | _ => badRequest)
]

end Driver.Key
