/-
Driver commands for the numeric model of `_merged_planes` (C17, `Model/MergedPixels.lean`).

  mergedpx.pixel   <depth> <width> <height> <request>
      the per-pixel request of `comp.pixel` (see Driver/Composite.lean; its viewport and backdrop fields are IGNORED: the
      model uses the call `_merged_planes` makes — canvas rectangle `(0, 0, width, height)`, white backdrop, alpha 0).
      -> ok  F <hex,…>  C <hex,…>  A <hex>  f <rat,…>  c <rat,…>  a <rat>
         bytes `plane()` writes for each colour channel flattened on white (F), unflattened (C), for the alpha (A), and the
         exact values they quantise (f, c, a) — `sampleValue (compositePsd …)` for the sources `colorFlat k`, `color k`, `alpha`.
         The tree is evaluated with C11's tabulating evaluator (`compositeDocF` = `compositeDoc`, `evaluator_is_model`).
  mergedpx.sample  <depth> <colour> <alpha>
      one channel of a result `(colour, _, alpha)` given directly (the captured float32 composite; the stored image of a
      layerless document) -> ok <F hex> <C hex> <A hex> <one hex> <f rat>
  mergedpx.code    <scale> <value>   -> ok <code> <2·(value·scale − code) as a rational>   (rounding law, for the harness)
  mergedpx.f32     <value>           -> ok <bits>
-/
import Driver.Util
import Driver.Blend
import Driver.Composite
import PsdVerif.Model.MergedPixels
import PsdVerif.Model.CompositeEval

namespace Driver.MergedPixels
open PsdVerif PsdVerif.Pixels PsdVerif.Composite PsdVerif.MergedPixels Driver Driver.Blend Driver.Composite

def hdrOf (depth w h : Nat) : Header := { cmode := .rgb, channels := 3, depth := depth, width := w, height := h }

def hexOf (depth : Nat) (v : Rat) : String := toHexList (planeEnc depth v)

def valueOf (px : Px) (r : Merged.PlaneSrc) : Rat :=
  match sampleValue px r with
  | some v => v
  | none => 0

def cmds : List (String × Cmd) := [
  ("mergedpx.pixel", fun
    | [d, w, h, field] =>
      match d.toNat?, w.toNat?, h.toNat?, pRequest ((field.splitOn " ").filter (fun t => t != "")) with
      | some d, some w, some h, some q =>
        if q.cm == .l && listUsesNonSep q.layers then "err\tUnsupported" else
        if q.layers.isEmpty then "err\tLayerless" else
        let B := blendOf q.cm
        let hdr := hdrOf d w h
        -- `compositePsd` for a document with layers, through the tabulating evaluator
        let px : Px := compositeDocF q.nch B (canvas hdr) q.x q.y backdropColor backdropAlpha q.layers
        let ks := List.range q.nch
        let fv := ks.map fun k => valueOf px (.colorFlat k)
        let cv := ks.map fun k => valueOf px (.color k)
        let av := valueOf px .alpha
        okLine (",".intercalate (fv.map (hexOf d)) ++ "\t" ++ ",".intercalate (cv.map (hexOf d)) ++ "\t" ++ hexOf d av
          ++ "\t" ++ ",".intercalate (fv.map ratStr) ++ "\t" ++ ",".intercalate (cv.map ratStr) ++ "\t" ++ ratStr av)
      | _, _, _, _ => badRequest
    | _ => badRequest),
  ("mergedpx.sample", fun
    | [d, c, a] =>
      match d.toNat?, parseRat c, parseRat a with
      | some d, some c, some a =>
        let px : Px := (fun _ => c, a, a)
        okLine (hexOf d (valueOf px (.colorFlat 0)) ++ "\t" ++ hexOf d (valueOf px (.color 0)) ++ "\t"
          ++ hexOf d (valueOf px .alpha) ++ "\t" ++ hexOf d (valueOf px .fill) ++ "\t" ++ ratStr (valueOf px (.colorFlat 0)))
      | _, _, _ => badRequest
    | _ => badRequest),
  ("mergedpx.code", fun
    | [s, v] =>
      match s.toNat?, parseRat v with
      | some s, some v => okLine (toString (code s v) ++ "\t" ++ ratStr (2 * (clip v * (s : Rat) - (code s v : Rat))))
      | _, _ => badRequest
    | _ => badRequest),
  ("mergedpx.f32", fun
    | [v] =>
      match parseRat v with
      | some v => okLine (toString (f32Bits v))
      | none => badRequest
    | _ => badRequest)
]

end Driver.MergedPixels
