/-
Driver commands for C07's sample arithmetic (`Model/PixelSamples.lean`) and for the CONCRETE run of the
import / export model of `Model/Pixels.lean` (`layerImport pil px`, `exportLayerPil px`, `exportLayerNumpy npView` …)
on real image data.

  pxs.table    <depth>                 -> ok  <store v, …>  <storeBytes v hex, concatenated>  <pilLoad (store v), …>  <npLoad (store v) bits, …>   (v = 0 … 255)
  pxs.pil      <depth> <code,…>        -> ok  <pilLoad code, …>          ("x": `_create_image` raises)
  pxs.np       <depth> <code,…>        -> ok  <npLoad code bits, …>
  pxs.inv                              -> ok  <inv8 v, …>
  pxs.unmatte                          -> ok  <unmattePil x a, hex bytes, index x·256 + a>  <unmatte8 x a, the same layout>
  pxs.unmattenp <c bits,…> <a bits,…>  -> ok  <unmatteNp c a bits, …>
  pxs.conv     <src> <dst> <w> <h> <band hex;…>   -> ok <band hex;…>        (`Image.convert`)
  pxs.pconv    <dst> <palette hex: r g b per entry> <transparency: - | i<index> | t<hex>>
      -> ok <converted pixel of index 0 … 255 as hex, `;` separated ("x": no such entry)>  <pAlpha of index 0 … 255, hex>
  pxs.doc      <src> <w> <h> <band hex;…>
      -> ok <colour mode> <channels> <depth> <stored plane hex;…> <PIL mode:band hex;… | none | !Err> <NumPy bits,…;… | !Err>
  pxs.docexport <colour mode> <channels> <depth> <w> <h> <mergedTransparency 0/1> <alpha ids> <layer count> <version info -,0,1> <plane hex;…>
      the exports of a document with the given metadata and stored planes (`depth / 8` big-endian bytes per sample)
      -> ok <PIL mode:band hex;… | none | !Err> <NumPy bits,…;… | !Err>
  pxs.layer    <src> <doc colour mode> <doc channels> <depth> <top> <left> <w> <h> <band hex;…>
      -> ok <doc pil mode> <ids> <top,left,bottom,right> <stored channel hex;…> <PIL mode:band hex;… | !Err> <alpha hex | none | !Err> <NumPy bits,…;… | !Err>
-/
import Driver.Util
import Driver.Pixels
import PsdVerif.Model.PixelSamples

namespace Driver.PixelSamples
open PsdVerif PsdVerif.Pixels PsdVerif.MergedPixels PsdVerif.PixelSamples Driver Driver.Pixels

def natList (s : String) : Option (List Nat) :=
  if s == "-" then some [] else (s.splitOn ",").mapM (·.toNat?)

def joinNat (l : List Nat) : String := ",".intercalate (l.map toString)

def optStr : Option Nat → String
  | some v => toString v
  | none => "x"

def bandOfHex (s : String) : Option (List S8) :=
  (parseHex s).map fun bs => bs.toList.map fun b => clip8 b.toNat

def bandsOfHex (s : String) : Option (List (List S8)) :=
  if s == "-" then some [] else (s.splitOn ";").mapM bandOfHex

def bandHex (b : List S8) : String := toHexList (b.map fun x => UInt8.ofNat x.val)

def bandsHex (bs : List (List S8)) : String := ";".intercalate (bs.map bandHex)

def storedHex (depth : Nat) (p : List Nat) : String :=
  toHexList (p.flatMap fun c => be (sampleBytes depth) c)

def bitsStr (bs : List (List Nat)) : String := ";".intercalate (bs.map joinNat)

def imageOf (m : Mode) (w h : Nat) (bands : List (List S8)) : Image S8 :=
  { mode := m, width := w, height := h, bands := bands }

def cmds : List (String × Cmd) := [
  ("pxs.table", fun
    | [d] => match d.toNat? with
      | some d =>
        let vs := List.range 256
        okLine (joinNat (vs.map (store d)) ++ "\t" ++ toHexList (vs.flatMap (storeBytes d)) ++ "\t" ++
          ",".intercalate (vs.map fun v => optStr (pilLoad d (store d v))) ++ "\t" ++
          ",".intercalate (vs.map fun v => optStr (npLoad d (store d v))))
      | none => badRequest
    | _ => badRequest),
  ("pxs.pil", fun
    | [d, cs] => match d.toNat?, natList cs with
      | some d, some cs => okLine (",".intercalate (cs.map fun c => optStr (pilLoad d c)))
      | _, _ => badRequest
    | _ => badRequest),
  ("pxs.np", fun
    | [d, cs] => match d.toNat?, natList cs with
      | some d, some cs => okLine (",".intercalate (cs.map fun c => optStr (npLoad d c)))
      | _, _ => badRequest
    | _ => badRequest),
  ("pxs.inv", fun
    | [] => okLine (joinNat ((List.range 256).map inv8))
    | _ => badRequest),
  ("pxs.unmatte", fun
    | [] =>
      let idx := List.range 65536
      okLine (toHexList (idx.map fun i => UInt8.ofNat (unmattePil (i / 256) (i % 256))) ++ "\t" ++
        toHexList (idx.map fun i => UInt8.ofNat (unmatte8 (i / 256) (i % 256))))
    | _ => badRequest),
  ("pxs.unmattenp", fun
    | [cs, as] => match natList cs, natList as with
      | some cs, some as => okLine (joinNat (List.zipWith unmatteNp cs as))
      | _, _ => badRequest
    | _ => badRequest),
  ("pxs.conv", fun
    | [s, t, w, h, bands] => match parseMode s, parseMode t, w.toNat?, h.toNat?, bandsOfHex bands with
      | some s, some t, some w, some h, some bands =>
        okLine (bandsHex (pil.conv t (imageOf s w h bands)).bands)
      | _, _, _, _, _ => badRequest
    | _ => badRequest),
  ("pxs.pconv", fun
    | [t, pal, tr] => match parseMode t, parseHex pal with
      | some t, some pal =>
        let entries := (List.range (pal.size / 3)).map fun i =>
          (pal[3 * i]!.toNat, pal[3 * i + 1]!.toNat, pal[3 * i + 2]!.toNat)
        let transp : Option PTransparency :=
          if tr == "-" then some .absent
          else if tr.startsWith "i" then ((tr.drop 1).toString.toNat?).map PTransparency.index
          else if tr.startsWith "t" then (parseHex (tr.drop 1).toString).map fun bs => PTransparency.table (bs.toList.map (·.toNat))
          else none
        (match transp with
         | some transp =>
           let idx := List.range 256
           okLine (";".intercalate (idx.map fun i => match convPalettePixel entries t i with
               | some px => toHexList (px.map UInt8.ofNat)
               | none => "x") ++ "\t" ++ toHexList (idx.map fun i => UInt8.ofNat (pAlpha transp i)))
         | none => badRequest)
      | _, _ => badRequest
    | _ => badRequest),
  ("pxs.doc", fun
    | [s, w, h, bands] => match parseMode s, w.toNat?, h.toNat?, bandsOfHex bands with
      | some s, some w, some h, some bands =>
        let (mt0, planes) := docImport pil px (imageOf s w h bands)
        let d := mt0.header.depth
        let pilOut := exc (exportDocPil px mt0 planes) fun
          | none => "none"
          | some i => modeName i.mode ++ ":" ++ bandsHex i.bands
        let np := exc (exportDocNumpy (npView d) mt0 planes) bitsStr
        okLine (cmodeName mt0.header.cmode ++ "\t" ++ toString mt0.header.channels ++ "\t" ++ toString d ++ "\t" ++
          ";".intercalate (planes.map (storedHex d)) ++ "\t" ++ pilOut ++ "\t" ++ np)
      | _, _, _, _ => badRequest
    | _ => badRequest),
  ("pxs.docexport", fun
    | [c, ch, d, w, h, mt, ids, lc, vi, planes] =>
      match parseCMode c, ch.toNat?, d.toNat?, w.toNat?, h.toNat?, parseNatList ids, lc.toNat? with
      | some c, some ch, some d, some w, some h, some ids, some lc =>
        let mt0 : Meta := {
          header := { cmode := c, channels := ch, depth := d, width := w, height := h },
          mergedTransparency := mt == "1", alphaIds := ids, layerCount := lc,
          versionInfo := if vi == "-" then none else some (vi == "1") }
        let size := sampleBytes d
        let parsePlane (s : String) : Option (List Nat) :=
          (parseHex s).map fun bs => (List.range (bs.size / size)).map fun i =>
            unbe ((bs.toList.drop (i * size)).take size)
        (match (if planes == "-" then some [] else (planes.splitOn ";").mapM parsePlane) with
         | some ps =>
           let pilOut := exc (exportDocPil px mt0 ps) fun
             | none => "none"
             | some i => modeName i.mode ++ ":" ++ bandsHex i.bands
           okLine (pilOut ++ "\t" ++ exc (exportDocNumpy (npView d) mt0 ps) bitsStr)
         | none => badRequest)
      | _, _, _, _, _, _, _ => badRequest
    | _ => badRequest),
  ("pxs.layer", fun
    | [s, c, ch, d, top, left, w, h, bands] =>
      match parseMode s, parseCMode c, ch.toNat?, d.toNat?, top.toInt?, left.toInt?, w.toNat?, h.toNat?, bandsOfHex bands with
      | some s, some c, some ch, some d, some top, some left, some w, some h, some bands =>
        let hdr : Header := { cmode := c, channels := ch, depth := d, width := w + 4, height := h + 4 }
        (match layerImport pil px (imageOf s w h bands) hdr top left with
         | .error e => errLine e
         | .ok l =>
           let ids := ",".intercalate (l.channels.map fun x => toString x.1)
           let box := ",".intercalate ([l.top, l.left, l.bottom, l.right].map toString)
           let pilOut := exc (exportLayerPil px hdr l) fun i => modeName i.mode ++ ":" ++ bandsHex i.bands
           let al := exc (exportLayerAlpha px hdr l) fun
             | none => "none"
             | some p => bandHex p
           let np := exc (exportLayerNumpy (npView d) hdr l) bitsStr
           okLine (modeName hdr.pilMode ++ "\t" ++ ids ++ "\t" ++ box ++ "\t" ++
             ";".intercalate (l.channels.map fun x => storedHex d x.2) ++ "\t" ++ pilOut ++ "\t" ++ al ++ "\t" ++ np))
      | _, _, _, _, _, _, _, _, _ => badRequest
    | _ => badRequest)
]

end Driver.PixelSamples
