/-
C03 (payload interiors) — the specification walkers of Model/WalkerPayload.lean on bytes the harness hands over.

  walkp.block     version keyhex datahex   payload of a tagged block, by key
  walkp.resource  id datahex               payload of an image resource, by id
  walkp.named     name datahex             one walker by name, on a whole byte string (consumed exactly)
  walkp.deep      filehex                  skeleton walker, then payload walkers at every nesting level
  walkp.covers    version keyhex | id      does a walker exist for this key / id

Answers: `ok <n> <regions>` | `walk-err <section> <pos> <reason>` | `none` (no walker for this key / id).
-/
import Driver.Util
import PsdVerif.Model.WalkerPayload

namespace Driver.WalkerPayload
open PsdVerif PsdVerif.Codec PsdVerif.Walker PsdVerif.WalkerPayload Driver

def withBytes (h : String) (k : B → String) : String :=
  match parseHex h with
  | some d => k d.toList
  | none => badRequest

def named (name : String) : Option (PW × Nat) :=
  match name with
  | "ustr" => some (pUStr, 0)
  | "pascal1" => some (pPascal 1, 0)
  | "pascal2" => some (pPascal 2, 0)
  | "pascal4" => some (pPascal 4, 0)
  | "descriptor" => some (pDescriptor, 0)
  | "descblock" => some (pDescBlock, 3)
  | "descblock2" => some (pDescBlock2, 3)
  | "effects" => some (pEffects, 3)
  | "patterns" => some (pPatterns, 3)
  | "pattern" => some (pPatternBody, 0)
  | "vmalist" => some (pVMAList, 0)
  | "vma" => some (pVMA, 0)
  | "linked" => some (pLinkedLayers, 3)
  | "linkedbody" => some (pLinkedBody, 3)
  | "filter" => some (pFilterEffects, 3)
  | "filterbody" => some (pFilterEffectBody, 3)
  | "path" => some (pPath, 0)
  | "vectormask" => some (pVectorMask, 25)
  | "typetool" => some (pTypeTool, 3)
  | "smartobject" => some (pSmartObject, 3)
  | "placed" => some (pPlaced, 3)
  | "metadata" => some (pMetadata, 3)
  | "slices" => some (pSlices, 0)
  | "slice" => some (pSlice, 0)
  | "urllist" => some (pUrlList, 0)
  | "layerinfo1" => some (pLayerInfoBody 1, 3)
  | "layerinfo2" => some (pLayerInfoBody 2, 3)
  | _ => none

def cmds : List (String × Cmd) := [
  ("walkp.block", fun
    | [v, k, h] =>
      match v.toNat? with
      | some version => withBytes k fun key => withBytes h fun d =>
          match blockWalker version key with
          | none => "none"
          | some _ => reportP (walkBlockPayload version key d)
      | none => badRequest
    | _ => badRequest),
  ("walkp.resource", fun
    | [i, h] =>
      match i.toNat? with
      | some id => withBytes h fun d =>
          match resourceWalker id with
          | none => "none"
          | some _ => reportP (walkResourcePayload id d)
      | none => badRequest
    | _ => badRequest),
  ("walkp.named", fun
    | [n, h] =>
      match named n with
      | some (w, slack) => withBytes h fun d => reportP (runOn w slack d)
      | none => badRequest
    | _ => badRequest),
  ("walkp.deep", fun
    | [h] => withBytes h fun d =>
      match walkDeep d with
      | .error e => "walk-err\t" ++ e.sect ++ "\t" ++ toString e.pos ++ "\t" ++ e.reason
      | .ok w => "ok\t" ++ toString w.skeleton.stop ++ "\t" ++ toString w.skeleton.regions.length ++ "\t" ++
          toString w.payload.length ++ "\t" ++ showRegions w.payload
    | _ => badRequest),
  ("walkp.covers", fun
    | [v, k] =>
      match v.toNat? with
      | some version => withBytes k fun key => if (blockWalker version key).isSome then "yes" else "no"
      | none => badRequest
    | [i] =>
      match i.toNat? with
      | some id => if (resourceWalker id).isSome then "yes" else "no"
      | none => badRequest
    | _ => badRequest)
]

end Driver.WalkerPayload
