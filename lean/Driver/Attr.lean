/-
Driver commands of the C16 model.

  attr.run  <env>  <layer>  <blocks>  <ops>
    env    : "ucs2"|"utf16" "," "0"|"1"           (unicode-string codec in force, legacy '?' fallback at write)
    layer  : "L|kind|top|left|bottom|right|blendhex|opacity|clipping|flags8|legacy|psd|pixhex"
           | "G|name|open|pixhex"                                 Group.new
           | "P|name|top|left|w|h|psd|pixhex"               PixelLayer.frompil
    blocks : items "sighex:keyhex:T:payload" joined by ";"  ("_" = none; ignored for G/P)
             T = s (code points "a,b,c" or "_"), d ("kind,sig,blend,sub" with "_" for None),
                 i (natural), r (hex)
    ops    : "name=cps" "visible=0" "opacity=n" "blend=hex" "left=n" "top=n" "offset=x,y"
             "clip=1" "lock=n" "attach=w,h" joined by ";"   ("_" = none)
  answer: ok <dump0> { <status>|<dump> } <save status>|<dump after reopen>
-/
import Driver.Util
import PsdVerif.Model.Attr
import PsdVerif.Generated.Attr

namespace Driver.Attr
open PsdVerif PsdVerif.Attr Driver

def hexOf (s : String) : Option (List UInt8) :=
  if s == "_" then some [] else (parseHex s).map (·.toList)

def hexStr (bs : List UInt8) : String := if bs.isEmpty then "_" else toHexList bs

def natsOf (s : String) : Option (List Nat) :=
  if s == "_" then some [] else (s.splitOn ",").mapM (·.toNat?)

def natsStr (xs : List Nat) : String :=
  if xs.isEmpty then "_" else ",".intercalate (xs.map toString)

def kindOf : String → Option Kind
  | "pixel" => some .pixel | "group" => some .group | "artboard" => some .artboard
  | "type" => some .type | "shape" => some .shape | "smartobject" => some .smartObject
  | "fill" => some .fill | "adjustment" => some .adjustment
  | _ => none

def psdOf (s : String) : Option (Option (Int × Int)) :=
  if s == "_" then some none
  else match s.splitOn "," with
    | [w, h] => do let w ← w.toInt?; let h ← h.toInt?; pure (some (w, h))
    | _ => none

def flagsOf (s : String) : Option Flags :=
  match s.toList.map (· == '1') with
  | [a, b, c, d, e, f, g, h] => some ⟨a, b, c, d, e, f, g, h⟩
  | _ => none

def optOf {α} (f : String → Option α) (s : String) : Option (Option α) :=
  if s == "_" then some none else (f s).map some

def hexOf' (s : String) : Option (List UInt8) := (parseHex s).map (·.toList)

def blockOf (s : String) : Option Block :=
  match s.splitOn ":" with
  | [sg, k, t, p] => do
    let sg ← hexOf sg
    let k ← hexOf k
    let d ← match t with
      | "s" => (natsOf p).map BData.str
      | "i" => p.toNat?.map BData.int
      | "r" => (hexOf p).map BData.raw
      | "d" => (match p.splitOn "," with
        | [kd, sg, bl, sb] => do
          let kd ← kd.toNat?
          let sg ← optOf hexOf' sg
          let bl ← optOf hexOf' bl
          let sb ← optOf String.toNat? sb
          pure (BData.divider ⟨kd, sg, bl, sb⟩)
        | _ => none)
      | _ => none
    pure ⟨sg, k, d⟩
  | _ => none

def blocksOf (s : String) : Option (List Block) :=
  if s == "_" then some [] else (s.splitOn ";").mapM blockOf

inductive Op where
  | set (a : Attr) (v : Val)
  | offset (x y : Int)
  | attach (w h : Int)

def opOf (s : String) : Option Op :=
  match s.splitOn "=" with
  | [k, v] =>
    (match k with
     | "name" => (natsOf v).map (fun s => .set .name (.str s))
     | "visible" => some (.set .visible (.bool (v == "1")))
     | "opacity" => v.toInt?.map (fun i => .set .opacity (.int i))
     | "blend" => (hexOf v).map (fun b => .set .blendMode (.key b))
     | "left" => v.toInt?.map (fun i => .set .left (.int i))
     | "top" => v.toInt?.map (fun i => .set .top (.int i))
     | "clip" => some (.set .clipping (.bool (v == "1")))
     | "lock" => v.toInt?.map (fun i => .set .locks (.int i))
     | "offset" => (match v.splitOn "," with
       | [x, y] => do let x ← x.toInt?; let y ← y.toInt?; pure (.offset x y)
       | _ => none)
     | "attach" => (match v.splitOn "," with
       | [x, y] => do let x ← x.toInt?; let y ← y.toInt?; pure (.attach x y)
       | _ => none)
     | _ => none)
  | _ => none

def opsOf (s : String) : Option (List Op) :=
  if s == "_" then some [] else (s.splitOn ";").mapM opOf

def envOf (s : String) : Option Env :=
  match s.splitOn "," with
  | [c, f] =>
    if c == "ucs2" then some (mkEnv Generated.Attr.blendKeys Generated.Attr.macRomanHigh false (f == "1"))
    else if c == "utf16" then some (mkEnv Generated.Attr.blendKeys Generated.Attr.macRomanHigh true (f == "1"))
    else none
  | _ => none

def layerOf (E : Env) (spec blocks : String) : Option (Except Err Layer) :=
  match spec.splitOn "|" with
  | ["L", k, t, l, b, r, bl, op, cl, fl, lg, psd, px] => do
    let k ← kindOf k
    let t ← t.toInt?; let l ← l.toInt?; let b ← b.toInt?; let r ← r.toInt?
    let bl ← hexOf bl
    let op ← op.toNat?; let cl ← cl.toNat?
    let fl ← flagsOf fl
    let lg ← natsOf lg
    let psd ← psdOf psd
    let px ← hexOf px
    let bs ← blocksOf blocks
    pure (.ok ⟨k, t, l, b, r, bl, op, cl, fl, lg, bs, px, psd⟩)
  | ["G", n, o, px] => do
    let n ← natsOf n
    let px ← hexOf px
    pure (.ok { groupNew n (o == "1") with pixels := px })
  | ["P", n, t, l, w, h, psd, px] => do
    let n ← natsOf n
    let t ← t.toInt?; let l ← l.toInt?; let w ← w.toInt?; let h ← h.toInt?
    let psd ← psdOf psd
    let px ← hexOf px
    pure (frompil E n t l w h psd px)
  | _ => none

def valStr : Except Err Val → String
  | .ok (.str s) => "s:" ++ natsStr s
  | .ok (.bool b) => if b then "b:1" else "b:0"
  | .ok (.int i) => "i:" ++ toString i
  | .ok (.key k) => "k:" ++ hexStr k
  | .ok .none => "n"
  | .ok .obj => "o"
  | .ok .derived => "d"
  | .error e => "!" ++ e.name

def intStr : Except Err Int → String
  | .ok i => toString i
  | .error e => "!" ++ e.name

def optStr {α} (f : α → String) : Option α → String
  | some x => f x
  | none => "_"

def blockStr (b : Block) : String :=
  hexStr b.sig ++ ":" ++ hexStr b.key ++ ":" ++
  (match b.data with
   | .str s => "s:" ++ natsStr s
   | .int v => "i:" ++ toString v
   | .raw bs => "r:" ++ hexStr bs
   | .divider d => "d:" ++ toString d.kind ++ "," ++ optStr hexStr d.sig ++ "," ++ optStr hexStr d.blend ++ ","
       ++ optStr toString d.sub)

def dump (l : Layer) : String :=
  "|".intercalate [
    valStr (get .name l), valStr (get .visible l), valStr (get .opacity l), valStr (get .blendMode l),
    valStr (get .left l), valStr (get .top l), valStr (get .clipping l), valStr (get .locks l),
    (if l.kind.movable then intStr (rightOf l) else "d"), (if l.kind.movable then intStr (bottomOf l) else "d"),
    (if l.kind.movable then intStr (width l) else "d"), (if l.kind.movable then intStr (height l) else "d"),
    natsStr l.legacyName, hexStr l.blend, toString l.flags.toByte, toString l.clipping,
    toString l.top ++ "," ++ toString l.left ++ "," ++ toString l.bottom ++ "," ++ toString l.right,
    hexStr l.pixels,
    (if l.blocks.isEmpty then "_" else ";".intercalate (l.blocks.map blockStr))]

def applyOp (E : Env) (l : Layer) : Op → Except Err Layer
  | .set a v => set E a v l
  | .offset x y => setOffset x y l
  | .attach w h => .ok (attach (w, h) l)

def runOps (E : Env) : Layer → List Op → List String → Layer × List String
  | l, [], acc => (l, acc.reverse)
  | l, op :: ops, acc =>
    match applyOp E l op with
    | .ok l' => runOps E l' ops (("ok|" ++ dump l') :: acc)
    | .error e => runOps E l ops (("err:" ++ e.name ++ "|" ++ dump l) :: acc)

def run (env spec blocks ops : String) : String :=
  match envOf env, opsOf ops with
  | some E, some ops =>
    (match layerOf E spec blocks with
     | some (.ok l0) =>
       let (l, outs) := runOps E l0 ops []
       let fin := match save E l with
         | .error e => "save-err:" ++ e.name
         | .ok st => match reopen E l st with
           | .error e => "reopen-err:" ++ e.name
           | .ok l2 => "ok|" ++ dump l2
       okLine ("\t".intercalate ([dump l0] ++ outs ++ [fin]))
     | some (.error e) => errLine e
     | none => badRequest)
  | _, _ => badRequest

def cmds : List (String × Cmd) := [
  ("attr.run", fun
    | [env, spec, blocks, ops] => run env spec blocks ops
    | _ => badRequest)
]

end Driver.Attr
