/-
Driver commands for the codec primitives and the file skeleton (C01/C03).

A skeleton value travels as one field of space-separated tokens, in declaration
order of the structure fields: naturals/integers in decimal, byte strings in hex
(`-` = empty), booleans and option tags as 0/1, lists as a count followed by the items.
-/
import Driver.Util
import PsdVerif.Model.Psd
import PsdVerif.Model.Walker

namespace Driver.Psd
open PsdVerif PsdVerif.Codec PsdVerif.Psd Driver

/-! ### token parser -/

abbrev P := StateT (List String) Option

def next : P String := fun ts => match ts with
  | t :: ts => some (t, ts)
  | [] => none

def pNat : P Nat := do let t ← next; (t.toNat? : Option Nat)
def pInt : P Int := do let t ← next; (t.toInt? : Option Int)
def pBool : P Bool := do let n ← pNat; pure (n != 0)
def pBytes : P B := do let t ← next; let b ← (parseHex t : Option Bytes); pure b.toList

def pOpt {α : Type} (p : P α) : P (Option α) := do
  let n ← pNat
  if n = 0 then pure none else do let a ← p; pure (some a)

def pRep {α : Type} (p : P α) : Nat → P (List α)
  | 0 => pure []
  | n + 1 => do let a ← p; let as ← pRep p n; pure (a :: as)

def pList {α : Type} (p : P α) : P (List α) := do let n ← pNat; pRep p n

def pHeader : P Header := do
  let sig ← pBytes; let v ← pNat; let c ← pNat; let h ← pNat; let w ← pNat; let dp ← pNat; let cm ← pNat
  pure ⟨sig, v, c, h, w, dp, cm⟩

def pResource : P Resource := do
  let sig ← pBytes; let key ← pNat; let name ← pBytes; let data ← pBytes
  pure ⟨sig, key, name, data⟩

def pTagged : P TaggedBlock := do
  let sig ← pBytes; let key ← pBytes; let data ← pBytes
  pure ⟨sig, key, data⟩

def pFlags8 : P Flags8 := do let n ← pNat; pure (Flags8.ofNat n)

def pLayerFlags : P LayerFlags := do
  let a ← pBool; let b ← pBool; let c ← pBool; let d ← pBool; let e ← pBool; let f ← pBool; let g ← pBool; let h ← pBool
  pure ⟨a, b, c, d, e, f, g, h⟩

def pMaskParams : P MaskParameters := do
  let a ← pOpt pNat; let b ← pOpt pNat; let c ← pOpt pNat; let d ← pOpt pNat
  pure ⟨a, b, c, d⟩

def pMaskReal : P MaskReal := do
  let f ← pFlags8; let bg ← pNat; let t ← pInt; let l ← pInt; let b ← pInt; let r ← pInt
  pure ⟨f, bg, t, l, b, r⟩

def pMask : P MaskData := do
  let t ← pInt; let l ← pInt; let b ← pInt; let r ← pInt; let bg ← pNat; let f ← pFlags8
  let ps ← pOpt pMaskParams; let re ← pOpt pMaskReal
  pure ⟨t, l, b, r, bg, f, ps, re⟩

def pRange4 : P Range4 := do
  let a ← pNat; let b ← pNat; let c ← pNat; let d ← pNat
  pure ⟨a, b, c, d⟩

def pRanges : P BlendingRanges := do
  let c ← pOpt pRange4; let cs ← pOpt (pList pRange4)
  pure ⟨c, cs⟩

def pChannelInfo : P ChannelInfo := do let id ← pInt; let n ← pNat; pure ⟨id, n⟩

def pRecord : P LayerRecord := do
  let t ← pInt; let l ← pInt; let b ← pInt; let r ← pInt
  let cis ← pList pChannelInfo
  let sig ← pBytes; let bm ← pBytes; let op ← pNat; let cl ← pNat; let fl ← pLayerFlags
  let m ← pOpt pMask; let rg ← pRanges; let name ← pBytes; let tbs ← pList pTagged
  pure ⟨t, l, b, r, cis, sig, bm, op, cl, fl, m, rg, name, tbs⟩

def pChannelData : P ChannelData := do let c ← pNat; let d ← pBytes; pure ⟨c, d⟩

def pLayerInfo : P LayerInfo := do
  let n ← pInt
  let rs ← pOpt (pList pRecord)
  let cs ← pOpt (pList (pList pChannelData))
  pure ⟨n, rs, cs⟩

def pGlm : P GlobalLayerMaskInfo := do
  let o ← pOpt (pList pNat); let op ← pNat; let k ← pNat
  pure ⟨o, op, k⟩

def pLam : P LayerAndMask := do
  let li ← pOpt pLayerInfo; let g ← pOpt pGlm; let t ← pOpt (pList pTagged)
  pure ⟨li, g, t⟩

def pImage : P ImageData := do let c ← pNat; let d ← pBytes; pure ⟨c, d⟩

def pPSD : P PSD := do
  let h ← pHeader; let cmd ← pBytes; let rs ← pList pResource; let lm ← pLam; let im ← pImage
  pure ⟨h, cmd, rs, lm, im⟩

def parseAll {α : Type} (p : P α) (s : String) : Option α :=
  match p ((s.splitOn " ").filter (· ≠ "")) with
  | some (a, []) => some a
  | _ => none

/-! ### token printer -/

abbrev T := List String

def tNat (n : Nat) : T := [toString n]
def tInt (z : Int) : T := [toString z]
def tBool (b : Bool) : T := [if b then "1" else "0"]
def tBytes (b : B) : T := [toHexList b]
def tOpt {α : Type} (f : α → T) : Option α → T
  | none => ["0"]
  | some a => "1" :: f a
def tList {α : Type} (f : α → T) (xs : List α) : T := toString xs.length :: xs.flatMap f

def tHeader (h : Header) : T :=
  tBytes h.signature ++ tNat h.version ++ tNat h.channels ++ tNat h.height ++ tNat h.width ++ tNat h.depth ++ tNat h.colorMode
def tResource (r : Resource) : T := tBytes r.signature ++ tNat r.key ++ tBytes r.name ++ tBytes r.data
def tTagged (t : TaggedBlock) : T := tBytes t.signature ++ tBytes t.key ++ tBytes t.data
def tFlags8 (f : Flags8) : T := tNat f.toNat
def tLayerFlags (f : LayerFlags) : T :=
  tBool f.transparencyProtected ++ tBool f.visible ++ tBool f.obsolete ++ tBool f.photoshopV5Later ++
  tBool f.pixelDataIrrelevant ++ tBool f.undocumented1 ++ tBool f.undocumented2 ++ tBool f.undocumented3
def tMaskParams (m : MaskParameters) : T :=
  tOpt tNat m.userMaskDensity ++ tOpt tNat m.userMaskFeather ++ tOpt tNat m.vectorMaskDensity ++ tOpt tNat m.vectorMaskFeather
def tMaskReal (r : MaskReal) : T :=
  tFlags8 r.flags ++ tNat r.backgroundColor ++ tInt r.top ++ tInt r.left ++ tInt r.bottom ++ tInt r.right
def tMask (m : MaskData) : T :=
  tInt m.top ++ tInt m.left ++ tInt m.bottom ++ tInt m.right ++ tNat m.backgroundColor ++ tFlags8 m.flags ++
  tOpt tMaskParams m.parameters ++ tOpt tMaskReal m.real
def tRange4 (r : Range4) : T := tNat r.a ++ tNat r.b ++ tNat r.c ++ tNat r.d
def tRanges (r : BlendingRanges) : T := tOpt tRange4 r.composite ++ tOpt (tList tRange4) r.channels
def tChannelInfo (c : ChannelInfo) : T := tInt c.id ++ tNat c.length
def tRecord (r : LayerRecord) : T :=
  tInt r.top ++ tInt r.left ++ tInt r.bottom ++ tInt r.right ++ tList tChannelInfo r.channelInfo ++
  tBytes r.signature ++ tBytes r.blendMode ++ tNat r.opacity ++ tNat r.clipping ++ tLayerFlags r.flags ++
  tOpt tMask r.maskData ++ tRanges r.blendingRanges ++ tBytes r.name ++ tList tTagged r.taggedBlocks
def tChannelData (c : ChannelData) : T := tNat c.compression ++ tBytes c.data
def tLayerInfo (l : LayerInfo) : T :=
  tInt l.layerCount ++ tOpt (tList tRecord) l.records ++ tOpt (tList (tList tChannelData)) l.channels
def tGlm (g : GlobalLayerMaskInfo) : T := tOpt (tList tNat) g.overlayColor ++ tNat g.opacity ++ tNat g.kind
def tLam (x : LayerAndMask) : T := tOpt tLayerInfo x.layerInfo ++ tOpt tGlm x.globalMask ++ tOpt (tList tTagged) x.taggedBlocks
def tImage (i : ImageData) : T := tNat i.compression ++ tBytes i.data
def tPSD (x : PSD) : T :=
  tHeader x.header ++ tBytes x.colorModeData ++ tList tResource x.resources ++ tLam x.layerAndMask ++ tImage x.imageData

def join (t : T) : String := " ".intercalate t

/-! ### commands -/

def wOut (w : W) : String := okLine (toHexList w.1 ++ "\t" ++ toString w.2)

def decOut {α : Type} (f : α → T) (r : Except Err (α × Nat)) : String :=
  match r with
  | .ok (a, p) => okLine (join (f a) ++ "\t" ++ toString p)
  | .error e => errLine e

/-- guarded writer of a part: `struct.error` when a field does not fit -/
def partOut (fits : Bool) (w : W) : String := if fits then wOut w else errLine .structError

def withBytes (h : String) (k : B → String) : String :=
  match parseHex h with
  | some d => k d.toList
  | none => badRequest

def nat3 (a b c : String) (k : Nat → Nat → Nat → String) : String :=
  match a.toNat?, b.toNat?, c.toNat? with
  | some x, some y, some z => k x y z
  | _, _, _ => badRequest

def cmds : List (String × Cmd) := [
  -- primitives -------------------------------------------------------------------------
  ("codec.u", fun   -- w n -> bytes (struct.error when it does not fit)
    | [w, n] => match w.toNat?, n.toNat? with
      | some w, some n => if n < 256 ^ w then okLine (toHexList (beBytes w n)) else errLine .structError
      | _, _ => badRequest
    | _ => badRequest),
  ("codec.i", fun   -- w(2|4) z -> bytes
    | [w, z] => match w.toNat?, z.toInt? with
      | some 2, some z => if FitsI16 z then okLine (toHexList (i16T z)) else errLine .structError
      | some 4, some z => if FitsI32 z then okLine (toHexList (i32T z)) else errLine .structError
      | _, _ => badRequest
    | _ => badRequest),
  ("codec.readU", fun
    | [w, h, p] => match w.toNat?, p.toNat? with
      | some w, some p => withBytes h fun d => decOut tNat (readU w d p)
      | _, _ => badRequest
    | _ => badRequest),
  ("codec.readI", fun
    | [w, h, p] => match w.toNat?, p.toNat? with
      | some 2, some p => withBytes h fun d => decOut tInt (readI16 d p)
      | some 4, some p => withBytes h fun d => decOut tInt (readI32 d p)
      | _, _ => badRequest
    | _ => badRequest),
  ("codec.lenBlock", fun   -- skip w pad body -> bytes, written
    | [a, b, c, h] => nat3 a b c fun skip w pad => withBytes h fun body =>
        partOut (decide (body.length < 256 ^ w)) (wLenBlock skip w pad (wBytes body))
    | _ => badRequest),
  ("codec.readLenBlock", fun   -- skip w pad data pos
    | [a, b, c, h, p] => match p.toNat? with
      | some p => nat3 a b c fun skip w pad => withBytes h fun d => decOut tBytes (readLenBlock skip w pad d p)
      | none => badRequest
    | _ => badRequest),
  ("codec.pascal", fun   -- pad bytes
    | [a, h] => match a.toNat? with
      | some pad => withBytes h fun s => partOut (decide (s.length < 256)) (wPascal pad s)
      | none => badRequest
    | _ => badRequest),
  ("codec.readPascal", fun   -- pad data pos
    | [a, h, p] => match a.toNat?, p.toNat? with
      | some pad, some p => withBytes h fun d => decOut tBytes (readPascal pad d p)
      | _, _ => badRequest
    | _ => badRequest),
  ("codec.pad", fun   -- size divisor -> number of filler bytes
    | [a, b] => match a.toNat?, b.toNat? with
      | some s, some dv => okLine (toString (padAmount s dv))
      | _, _ => badRequest
    | _ => badRequest),
  ("codec.isReadable", fun   -- n data pos
    | [a, h, p] => match a.toNat?, p.toNat? with
      | some n, some p => withBytes h fun d => okLine (if isReadable n d p then "1" else "0")
      | _, _ => badRequest
    | _ => badRequest),
  -- parts ------------------------------------------------------------------------------
  ("res.enc", fun
    | [t] => match parseAll (pList pResource) t with
      | some rs => partOut (decide (resourcesFits rs)) (resourcesP rs)
      | none => badRequest
    | _ => badRequest),
  ("res.dec", fun
    | [h, p] => match p.toNat? with
      | some p => withBytes h fun d => decOut (tList tResource) (resourcesDec d p)
      | none => badRequest
    | _ => badRequest),
  ("tbs.enc", fun   -- version pad blocks
    | [v, a, t] => match v.toNat?, a.toNat?, parseAll (pList pTagged) t with
      | some v, some pad, some ts => partOut (decide (∀ x ∈ ts, TaggedBlock.Fits v x)) (taggedBlocksP v pad ts)
      | _, _, _ => badRequest
    | _ => badRequest),
  ("tbs.dec", fun   -- version pad data pos
    | [v, a, h, p] => match v.toNat?, a.toNat?, p.toNat? with
      | some v, some pad, some p => withBytes h fun d => decOut (tList tTagged) (taggedBlocksDec v pad none d p)
      | _, _, _ => badRequest
    | _ => badRequest),
  ("rec.enc", fun   -- version record
    | [v, t] => match v.toNat?, parseAll pRecord t with
      | some v, some r => partOut (decide (r.Fits v)) (r.encP v)
      | _, _ => badRequest
    | _ => badRequest),
  ("rec.dec", fun
    | [v, h, p] => match v.toNat?, p.toNat? with
      | some v, some p => withBytes h fun d => decOut tRecord (LayerRecord.dec v d p)
      | _, _ => badRequest
    | _ => badRequest),
  ("li.enc", fun   -- version pad layerinfo -> bytes written refreshed-tokens
    | [v, a, t] => match v.toNat?, a.toNat?, parseAll pLayerInfo t with
      | some v, some pad, some li =>
        if li.Fits v pad then
          let w := li.encP v pad
          okLine (toHexList w.1 ++ "\t" ++ toString w.2 ++ "\t" ++ join (tLayerInfo li.refresh))
        else errLine .structError
      | _, _, _ => badRequest
    | _ => badRequest),
  ("li.dec", fun
    | [v, h, p] => match v.toNat?, p.toNat? with
      | some v, some p => withBytes h fun d => decOut tLayerInfo (LayerInfo.dec v d p)
      | _, _ => badRequest
    | _ => badRequest),
  -- whole documents ----------------------------------------------------------------------
  ("psd.enc", fun   -- pad doc -> bytes written refreshed-doc
    | [a, t] => match a.toNat?, parseAll pPSD t with
      | some pad, some x =>
        (match x.encW pad with
         | .ok w => okLine (toHexList w.1 ++ "\t" ++ toString w.2 ++ "\t" ++ join (tPSD x.refresh))
         | .error e => errLine e)
      | _, _ => badRequest
    | _ => badRequest),
  ("psd.dec", fun
    | [h] => withBytes h fun d => decOut tPSD (PSD.read d 0)
    | _ => badRequest),
  ("psd.wf", fun   -- pad doc -> 1/0
    | [a, t] => match a.toNat?, parseAll pPSD t with
      | some pad, some x => okLine (if x.WF pad then "1" else "0")
      | _, _ => badRequest
    | _ => badRequest),
  ("psd.walk", fun   -- data -> ok header end regions  |  walk-err section pos reason
    | [h] => withBytes h fun d => Walker.report (Walker.walk d)
    | _ => badRequest)
]

end Driver.Psd
