/-
Driver command for the counting interpreter of the file skeleton (C06).

  psd.cost <hex bytes>  ->  ok  <final cursor> <ticks> <alloc>
                            err <ErrClass>     <ticks> <alloc>     (the cost spent before the exception)
-/
import Driver.Util
import PsdVerif.Model.PsdCost

namespace Driver.Cost
open PsdVerif PsdVerif.Codec Driver

def costFields (c : PsdCost.Cost) : String := toString c.ticks ++ "\t" ++ toString c.alloc

def cmds : List (String × Cmd) := [
  ("psd.cost", fun
    | [h] =>
      match parseHex h with
      | some d =>
        let r := PsdCost.PSD.readC d.toList 0
        match r.1 with
        | .ok (_, p) => okLine (toString p ++ "\t" ++ costFields r.2)
        | .error e => errLine e ++ "\t" ++ costFields r.2
      | none => badRequest
    | _ => badRequest)
]

end Driver.Cost
