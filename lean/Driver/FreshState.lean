import Driver.Util
import Driver.TreeSt
import PsdVerif.Model.FreshState
import PsdVerif.Generated.FreshTable

/-!
Driver command of the C14 table-interpreting machine (kept fresh).

`fresh.hist <init> <step> <step> …`       (tab-separated)
    init : as for `treest.run`
    step : `o <op>`                         a step outside the table (a read-only call, a refused call, an allocation,
                                            an attribute outside the model): `TreeSt.step .current`
           `c <inst>;<inst>;…#<post>`       ONE public call of a mutator that has a row in `Generated/FreshTable.lean`:
                                            its segment instances in execution order, then the real state after the call
                                            (same format as init) from which every mutation copies the input it names.
                                            inst = `row@seg@name=id,…@absent,…@gN,gM!,…` (owner expressions → ids; owner
                                            expressions that name no object; the tests that are false). Objects created
                                            by the call (ids ≥ next) are adopted with their inputs and an empty cache;
                                            tagged-block key lists (outside this machine) are taken from the real state.
    answer: ok <state>|<state>|…            the state after every step (`treest.run` node format, without outputs)
-/
namespace Driver.FreshState
open PsdVerif PsdVerif.TreeSt PsdVerif.FreshState Driver Driver.TreeSt

def commaList (s : String) : List String := if s == "-" || s == "" then [] else s.splitOn ","

def parseObjs (s : String) : Option (List (String × Id)) :=
  (commaList s).mapM fun p =>
    match p.splitOn "=" with
    | [n, i] => i.toNat?.map fun i => (n, i)
    | _ => none

/-- `g7:test` -> `g7`, `g7:not(test)` -> `g7!` (the two branches of one `if`) -/
def guardId (g : String) : String :=
  match g.splitOn ":" with
  | i :: rest => if (":".intercalate rest).startsWith "not(" then i ++ "!" else i
  | [] => g

def parseInst (new : State) (s : String) : Option SegInst :=
  match s.splitOn "@" with
  | [row, seg, objs, absent, falses] => do
    let seg ← seg.toNat?
    let objs ← parseObjs objs
    let absent := commaList absent
    let falses := commaList falses
    pure { op := row, seg := seg,
           obj := fun o => match objs.find? (fun p => p.1 == o) with | some p => p.2 | none => 0,
           here := fun o => !(absent.contains o) && (objs.any (fun p => p.1 == o)),
           cond := fun g => !(falses.contains (guardId g)),
           adv := fun _ => new }
  | _ => none

/-- objects the call created: their inputs as they are afterwards, nothing cached -/
def adopt (s new : State) : State :=
  if new.next ≤ s.next then s else
  let isNew : Id → Bool := fun y => decide (s.next ≤ y) && decide (y < new.next)
  { s with
    next := new.next
    kind := fun y => if isNew y then new.kind y else s.kind y
    children := fun y => if isNew y then new.children y else s.children y
    parent := fun y => if isNew y then new.parent y else s.parent y
    psd := fun y => if isNew y then new.psd y else s.psd y
    visible := fun y => if isNew y then new.visible y else s.visible y
    box := fun y => if isNew y then new.box y else s.box y
    cache := fun y => if isNew y then none else s.cache y
    dirty := fun y => if isNew y then new.dirty y else s.dirty y }

def runCall (t : Table) (s : State) (body : String) : Option State :=
  match body.splitOn "#" with
  | [insts, post] => do
    let new ← parseInit post
    let sis ← (if insts == "-" then some [] else (insts.splitOn ";").mapM (parseInst new))
    let s1 := adopt s new
    let s2 := runSegments t s1 sis
    pure { s2 with blocks := new.blocks }
  | _ => none

partial def steps (t : Table) (s : State) : List String → Option (List String)
  | [] => some []
  | st :: rest =>
    if st.startsWith "o " then
      match parseOp (words ((st.drop 2).toString)) with
      | some op =>
        let s' := (step .current s op).1
        (steps t s' rest).map (showState s' :: ·)
      | none => none
    else if st.startsWith "c " then
      match runCall t s ((st.drop 2).toString) with
      | some s' => (steps t s' rest).map (showState s' :: ·)
      | none => none
    else none

def cmds : List (String × Cmd) := [
  ("fresh.hist", fun
    | init :: rest =>
      match parseInit init with
      | some s0 =>
        match steps PsdVerif.Generated.FreshTable.table s0 rest with
        | some out => okLine ("|".intercalate out)
        | none => badRequest
      | none => badRequest
    | _ => badRequest)
]

end Driver.FreshState
