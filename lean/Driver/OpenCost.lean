/-
Driver command for the counting interpreter of the whole modelled reader (C06): skeleton, typed payloads,
descriptors, nested layer info, engine data.

  open.cost <D> <hex bytes>  ->  ok  <final cursor> <ticks> <alloc>
                                 err <ErrClass>     <ticks> <alloc>     (the cost spent before the exception)
  `D`: nesting levels of Lr16 / Lr32 blocks before RecursionError (what the interpreter's recursion limit allows)
-/
import Driver.Util
import Driver.Cost
import PsdVerif.Model.OpenMain

namespace Driver.OpenCost
open PsdVerif PsdVerif.Codec Driver

def cmds : List (String × Cmd) := [
  ("open.cost", fun
    | [ds, h] =>
      match ds.toNat?, parseHex h with
      | some dd, some d =>
        let r := PsdVerif.OpenCost.openC dd d.toList
        match r.1 with
        | .ok (_, p) => okLine (toString p ++ "\t" ++ Driver.Cost.costFields r.2)
        | .error e => errLine e ++ "\t" ++ Driver.Cost.costFields r.2
      | _, _ => badRequest
    | _ => badRequest)
]

end Driver.OpenCost
