/-
Driver commands for the descriptor model (C01).

A descriptor value travels as one field of space-separated tokens, in prefix form:
  value  := <OSType as 8 hex digits> fields…
  str    := <n> <code point>*n                 key := <hex bytes | -> <0|1 implicit>
  unit   := <0|1 is a Unit member> <hex>       list := <n> item*n
  long/Idnt/indx: int · comp: int · bool: 0|1 · doub: bits · UntF: unit bits · UnFl: unit <n> bits*n
  TEXT: str · enum: key key · Enmr: str key key key · type/GlbC/Clss: str key · prop: str key key
  name: str key str · rele: str key int · tdta/alis/Pth : hex · VlLs/obj : <n> value*n
  Objc/GlbO: str key <n> (key value)*n · ObAr: int str key <n> (key value)*n
  block  := int str key <n> (key value)*n      block2 := int int str key <n> (key value)*n

  desc.enc  <value>                → ok <hex> <count `write` returns> | err <class>
  desc.dec  <OSType hex> <hex> <pos> → ok <value> <new pos>           | err <class>
  desc.decTagged <hex> <pos>       → ok <value> <new pos>
  desc.wf   <value>                → ok 0|1
  desc.blockEnc <1|2> <padding> <block> · desc.blockDec <1|2> <hex> <pos> · desc.blockWf <1|2> <block>
-/
import Driver.Util
import PsdVerif.Model.DescriptorTables

namespace Driver.Descriptor
open PsdVerif PsdVerif.Codec PsdVerif.Descriptor Driver

def tb : Tables := realTables

/-! ### token parser -/

abbrev P := StateT (List String) Option

def next : P String := fun ts => match ts with
  | t :: ts => some (t, ts)
  | [] => none

def pNat : P Nat := do let t ← next; (t.toNat? : Option Nat)
def pInt : P Int := do let t ← next; (t.toInt? : Option Int)
def pBool : P Bool := do let n ← pNat; pure (n != 0)
def pBytes : P B := do let t ← next; let b ← (parseHex t : Option Bytes); pure b.toList

def pRep {α : Type} (p : P α) : Nat → P (List α)
  | 0 => pure []
  | n + 1 => do let a ← p; let as ← pRep p n; pure (a :: as)

def pList {α : Type} (p : P α) : P (List α) := do let n ← pNat; pRep p n

def pStr : P Str := pList pNat
def pKey : P Key := do let b ← pBytes; let i ← pBool; pure ⟨b, i⟩
def pUnit : P UnitRef := do let u ← pBool; let b ← pBytes; pure ⟨u, b⟩

partial def pVal : P DVal := do
  let tg ← pBytes
  match Tag.ofBytes tg with
  | none => failure
  | some t =>
    match t with
    | .integer => do let z ← pInt; pure (.int .integer z)
    | .identifier => do let z ← pInt; pure (.int .identifier z)
    | .index => do let z ← pInt; pure (.int .index z)
    | .largeInteger => do let z ← pInt; pure (.large z)
    | .boolean => do let b ← pBool; pure (.bool b)
    | .double => do let n ← pNat; pure (.double n)
    | .unitFloat => do let u ← pUnit; let n ← pNat; pure (.unitFloat u n)
    | .unitFloats => do let u ← pUnit; let vs ← pList pNat; pure (.unitFloats u vs)
    | .string => do let s ← pStr; pure (.string s)
    | .enumerated => do let a ← pKey; let b ← pKey; pure (.enumerated a b)
    | .enumeratedReference => do let s ← pStr; let a ← pKey; let b ← pKey; let c ← pKey; pure (.enumRef s a b c)
    | .class1 => do let s ← pStr; let a ← pKey; pure (.klass .class1 s a)
    | .class2 => do let s ← pStr; let a ← pKey; pure (.klass .class2 s a)
    | .class3 => do let s ← pStr; let a ← pKey; pure (.klass .class3 s a)
    | .property => do let s ← pStr; let a ← pKey; let b ← pKey; pure (.property s a b)
    | .name => do let s ← pStr; let a ← pKey; let v ← pStr; pure (.name s a v)
    | .offset => do let s ← pStr; let a ← pKey; let z ← pInt; pure (.offset s a z)
    | .rawData => do let b ← pBytes; pure (.raw .rawData b)
    | .alias => do let b ← pBytes; pure (.raw .alias b)
    | .path => do let b ← pBytes; pure (.raw .path b)
    | .list => do let n ← pNat; let xs ← pRep pVal n; pure (.list .list xs)
    | .reference => do let n ← pNat; let xs ← pRep pVal n; pure (.list .reference xs)
    | .descriptor => do
      let s ← pStr; let a ← pKey; let n ← pNat
      let xs ← pRep (do let k ← pKey; let v ← pVal; pure (k, v)) n
      pure (.desc .descriptor s a xs)
    | .globalObject => do
      let s ← pStr; let a ← pKey; let n ← pNat
      let xs ← pRep (do let k ← pKey; let v ← pVal; pure (k, v)) n
      pure (.desc .globalObject s a xs)
    | .objectArray => do
      let c ← pInt; let s ← pStr; let a ← pKey; let n ← pNat
      let xs ← pRep (do let k ← pKey; let v ← pVal; pure (k, v)) n
      pure (.objArray c s a xs)

def pItems : P Items := do
  let n ← pNat
  pRep (do let k ← pKey; let v ← pVal; pure (k, v)) n

def pBlock : P Block := do
  let v ← pInt; let s ← pStr; let a ← pKey; let xs ← pItems
  pure ⟨v, s, a, xs⟩

def pBlock2 : P Block2 := do
  let v ← pInt; let dv ← pInt; let s ← pStr; let a ← pKey; let xs ← pItems
  pure ⟨v, dv, s, a, xs⟩

def parseAll {α : Type} (p : P α) (s : String) : Option α :=
  match p ((s.splitOn " ").filter (· ≠ "")) with
  | some (a, []) => some a
  | _ => none

/-! ### token printer (difference lists) -/

abbrev T := List String → List String

def tNat (n : Nat) : T := fun acc => toString n :: acc
def tInt (z : Int) : T := fun acc => toString z :: acc
def tBool (b : Bool) : T := fun acc => (if b then "1" else "0") :: acc
def tBytes (b : B) : T := fun acc => toHexList b :: acc
def tStr (s : Str) : T := fun acc => toString s.length :: s.foldr (fun c a => toString c :: a) acc
def tKey (k : Key) : T := tBytes k.bytes ∘ tBool k.implicit
def tUnit (u : UnitRef) : T := tBool u.isUnit ∘ tBytes u.code
def tTag (t : Tag) : T := tBytes t.bytes

mutual
def tVal : DVal → T
  | .int t z => tTag t.tag ∘ tInt z
  | .large z => tTag .largeInteger ∘ tInt z
  | .bool b => tTag .boolean ∘ tBool b
  | .double n => tTag .double ∘ tNat n
  | .unitFloat u n => tTag .unitFloat ∘ tUnit u ∘ tNat n
  | .unitFloats u vs => tTag .unitFloats ∘ tUnit u ∘ tNat vs.length ∘ (fun acc => vs.foldr (fun c a => toString c :: a) acc)
  | .string s => tTag .string ∘ tStr s
  | .enumerated a b => tTag .enumerated ∘ tKey a ∘ tKey b
  | .enumRef s a b c => tTag .enumeratedReference ∘ tStr s ∘ tKey a ∘ tKey b ∘ tKey c
  | .klass t s a => tTag t.tag ∘ tStr s ∘ tKey a
  | .property s a b => tTag .property ∘ tStr s ∘ tKey a ∘ tKey b
  | .name s a v => tTag .name ∘ tStr s ∘ tKey a ∘ tStr v
  | .offset s a z => tTag .offset ∘ tStr s ∘ tKey a ∘ tInt z
  | .raw t b => tTag t.tag ∘ tBytes b
  | .list t xs => tTag t.tag ∘ tNat xs.length ∘ tListV xs
  | .desc t s a xs => tTag t.tag ∘ tStr s ∘ tKey a ∘ tNat xs.length ∘ tItemsV xs
  | .objArray c s a xs => tTag .objectArray ∘ tInt c ∘ tStr s ∘ tKey a ∘ tNat xs.length ∘ tItemsV xs
def tListV : List DVal → T
  | [] => id
  | v :: vs => tVal v ∘ tListV vs
def tItemsV : Items → T
  | [] => id
  | (k, v) :: r => tKey k ∘ tVal v ∘ tItemsV r
end

def tBlock (b : Block) : T := tInt b.version ∘ tStr b.name ∘ tKey b.classID ∘ tNat b.items.length ∘ tItemsV b.items
def tBlock2 (b : Block2) : T :=
  tInt b.version ∘ tInt b.dataVersion ∘ tStr b.name ∘ tKey b.classID ∘ tNat b.items.length ∘ tItemsV b.items

def render (t : T) : String := " ".intercalate (t [])

/-! ### commands -/

def encAnswer (r : Except Err B) (w : W) : String :=
  match r with
  | .ok bs => okLine (toHexList bs ++ "\t" ++ toString w.2 ++ "\t" ++ (if w.1 == bs then "1" else "0"))
  | .error e => errLine e

def cmds : List (String × Cmd) := [
  ("desc.enc", fun
    | [s] => match parseAll pVal s with
      | some v => encAnswer (enc tb v) (encW tb v)
      | none => badRequest
    | _ => badRequest),
  ("desc.dec", fun
    | [t, h, p] => match parseHex t, parseHex h, p.toNat? with
      | some tg, some d, some p =>
        (match Tag.ofBytes tg.toList with
         | some t =>
           (match dec tb t d.toList p with
            | .ok (v, p') => okLine (render (tVal v) ++ "\t" ++ toString p')
            | .error e => errLine e)
         | none => badRequest)
      | _, _, _ => badRequest
    | _ => badRequest),
  ("desc.decTagged", fun
    | [h, p] => match parseHex h, p.toNat? with
      | some d, some p =>
        (match decTagged tb d.toList p with
         | .ok (v, p') => okLine (render (tVal v) ++ "\t" ++ toString p')
         | .error e => errLine e)
      | _, _ => badRequest
    | _ => badRequest),
  ("desc.wf", fun
    | [s] => match parseAll pVal s with
      | some v => okLine (if decide (WF tb v) then "1" else "0")
      | none => badRequest
    | _ => badRequest),
  ("desc.blockEnc", fun
    | [k, pad, s] => match pad.toNat? with
      | some pad =>
        if k == "1" then
          (match parseAll pBlock s with
           | some b => encAnswer (b.enc tb pad) (b.encW tb pad)
           | none => badRequest)
        else
          (match parseAll pBlock2 s with
           | some b => encAnswer (b.enc tb pad) (b.encW tb pad)
           | none => badRequest)
      | none => badRequest
    | _ => badRequest),
  ("desc.blockDec", fun
    | [k, h, p] => match parseHex h, p.toNat? with
      | some d, some p =>
        if k == "1" then
          (match Block.dec tb d.toList p with
           | .ok (b, p') => okLine (render (tBlock b) ++ "\t" ++ toString p')
           | .error e => errLine e)
        else
          (match Block2.dec tb d.toList p with
           | .ok (b, p') => okLine (render (tBlock2 b) ++ "\t" ++ toString p')
           | .error e => errLine e)
      | _, _ => badRequest
    | _ => badRequest),
  ("desc.blockWf", fun
    | [k, s] =>
      if k == "1" then
        (match parseAll pBlock s with
         | some b => okLine (if decide (b.WF tb) then "1" else "0")
         | none => badRequest)
      else
        (match parseAll pBlock2 s with
         | some b => okLine (if decide (b.WF tb) then "1" else "0")
         | none => badRequest)
    | _ => badRequest)
]

end Driver.Descriptor
