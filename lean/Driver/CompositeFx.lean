/-
Driver command for the effect-carrying compositor model (C11, C13).

  comp.fx      <request>  -> ok  c0,c1,... <shape> <alpha>   (tabulating evaluator; = `compositeFxDoc`, `compositeFxDocF_eq`)
  comp.fx.ref  <request>  -> the same through `compositeFxDoc` itself (small trees only)

One request = ONE tab field of space-separated tokens (rationals `n/d` or `n`, booleans `0`/`1`):

  request := <cmode> <force> <Vl> <Vt> <Vr> <Vb> <x> <y> <nch> <c0> … <alpha> <nlayers> <node> …
  node    := A <props>
           | L <props> <fx> <src> <stroke> <nclips> <clip nodes…>
           | G <props> <fx> <passThrough> <nchildren> <children…> <nclips> <clip nodes…>
  props   := as in Driver/Composite.lean
  fx      := <hasPixels> <hasFill> <hasVectorMask> <vmaskEnabled> <maskNoReal> <vml> <vmt> <vmr> <vmb> <vmValue>
             <noverlays> <overlay>… <nstrokefx> <strokefx>…
  overlay := <nch> <c…> <hasShape> <shape> <opacity> <mode>
  strokefx:= <nch> <c…> <shape> <opacity> <mode>      (shape: what `draw_stroke_effect` returned at the pixel for the viewport
                                                       the real compositor had; the model's parameter is that constant)
  src     := <hasArr> <nch> <pixColor…> <pixShape> <nch> <fillColor…> <fillShape>
  stroke  := 0 | 1 <nch> <c…> <bl> <bt> <br> <bb> <shape> <cl> <ct> <cr> <cb> <opacity> <mode>
-/
import Driver.Composite
import PsdVerif.Model.CompositeFxEval

namespace Driver.CompositeFx
open PsdVerif PsdVerif.Composite Driver Driver.Composite

def pOverlay : P Overlay := fun ts => do
  let (c, ts) ← pColor ts
  let (hs, ts) ← pBool ts
  let (sh, ts) ← pRat ts
  let (op, ts) ← pRat ts
  let (mode, ts) ← pTok ts
  some ({ color := c, hasShape := hs, shape := sh, opacity := op, mode := modeIndex mode }, ts)

def pStrokeFx : P StrokeFx := fun ts => do
  let (c, ts) ← pColor ts
  let (sh, ts) ← pRat ts
  let (op, ts) ← pRat ts
  let (mode, ts) ← pTok ts
  some ({ color := c, shape := fun _ => sh, opacity := op, mode := modeIndex mode }, ts)

def pFx : P Fx := fun ts => do
  let (hp, ts) ← pBool ts
  let (hf, ts) ← pBool ts
  let (hvm, ts) ← pBool ts
  let (vme, ts) ← pBool ts
  let (mnr, ts) ← pBool ts
  let (box, ts) ← pRect ts
  let (vv, ts) ← pRat ts
  let (no, ts) ← pNat ts
  let (os, ts) ← pMany pOverlay no ts
  let (ns, ts) ← pNat ts
  let (ss, ts) ← pMany pStrokeFx ns ts
  some ({ flags := { hasPixels := hp, hasFill := hf, hasVectorMask := hvm, vmaskEnabled := vme, maskNoReal := mnr },
          vmBox := box, vmValue := vv, overlays := os, strokeFx := ss }, ts)

def pSrc : P ObjSrc := fun ts => do
  let (ha, ts) ← pBool ts
  let (pc, ts) ← pColor ts
  let (ps, ts) ← pRat ts
  let (fc, ts) ← pColor ts
  let (fs, ts) ← pRat ts
  some ({ hasArr := ha, pixColor := pc, pixShape := ps, fillColor := fc, fillShape := fs }, ts)

def pStroke : P (Option VStroke)
  | "0" :: ts => some (none, ts)
  | "1" :: ts => do
    let (c, ts) ← pColor ts
    let (box, ts) ← pRect ts
    let (sh, ts) ← pRat ts
    let (canvas, ts) ← pRect ts
    let (op, ts) ← pRat ts
    let (mode, ts) ← pTok ts
    some (some { color := c, box := box, shape := sh, canvas := canvas, opacity := op, mode := modeIndex mode }, ts)
  | _ => none

def pFxNode : Nat → P FxNode
  | 0 => fun _ => none
  | fuel + 1 => fun ts =>
    match ts with
    | "A" :: ts => do
      let (pr, ts) ← pProps ts
      some (.adjustment pr, ts)
    | "L" :: ts => do
      let (pr, ts) ← pProps ts
      let (fx, ts) ← pFx ts
      let (src, ts) ← pSrc ts
      let (stroke, ts) ← pStroke ts
      let (nc, ts) ← pNat ts
      let (clips, ts) ← pMany (pFxNode fuel) nc ts
      some (.leaf pr fx src stroke clips, ts)
    | "G" :: ts => do
      let (pr, ts) ← pProps ts
      let (fx, ts) ← pFx ts
      let (pt, ts) ← pBool ts
      let (nk, ts) ← pNat ts
      let (kids, ts) ← pMany (pFxNode fuel) nk ts
      let (nc, ts) ← pNat ts
      let (clips, ts) ← pMany (pFxNode fuel) nc ts
      some (.group pr fx pt kids clips, ts)
    | _ => none

structure Request where
  cm : CMode
  force : Bool
  V : Rect
  x : Int
  y : Int
  nch : Nat
  color : Color
  alpha : Rat
  layers : List FxNode

def pRequest (toks : List String) : Option Request := do
  let (cm, ts) ← pCMode toks
  let (force, ts) ← pBool ts
  let (V, ts) ← pRect ts
  let (x, ts) ← pInt ts
  let (y, ts) ← pInt ts
  let (nch, ts) ← pNat ts
  let (vs, ts) ← pMany pRat nch ts
  let (alpha, ts) ← pRat ts
  let (nl, ts) ← pNat ts
  let (layers, ts) ← pMany (pFxNode toks.length) nl ts
  if ts.isEmpty then some ⟨cm, force, V, x, y, nch, colorOfList vs, alpha, layers⟩ else none

def modeNonSep (m : Mode) : Bool := isNonSep (modeNames.getD m "")

def fxUsesNonSep (fx : Fx) : Bool :=
  fx.overlays.any (fun e => modeNonSep e.mode) || fx.strokeFx.any (fun s => modeNonSep s.mode)

mutual
def usesNonSep : FxNode → Bool
  | .adjustment _ => false
  | .leaf pr fx _ stroke clips =>
    modeNonSep pr.mode || fxUsesNonSep fx || (match stroke with | some s => modeNonSep s.mode | none => false) ||
      listUsesNonSep clips
  | .group pr fx _ kids clips => modeNonSep pr.mode || fxUsesNonSep fx || listUsesNonSep kids || listUsesNonSep clips
def listUsesNonSep : List FxNode → Bool
  | [] => false
  | n :: ns => usesNonSep n || listUsesNonSep ns
end

def run (fast : Bool) (args : List String) : String :=
  match args with
  | [field] =>
    match pRequest ((field.splitOn " ").filter (fun t => t != "")) with
    | none => badRequest
    | some q =>
      if q.cm == .l && listUsesNonSep q.layers then "err\tUnsupported" else
      let B := blendOf q.cm
      if fast then answer (compositeFxDocF q.nch B q.force q.V q.x q.y q.color q.alpha q.layers) q.nch
      else answer (compositeFxDoc B q.force q.V q.x q.y q.color q.alpha q.layers) q.nch
  | _ => badRequest

def cmds : List (String × Cmd) := [
  ("comp.fx", run true),
  ("comp.fx.ref", run false)
]

end Driver.CompositeFx
