/-
Driver command of the save / reopen model (C09, second half).

  reopen.flatten <cfg> <init> <ops> <doc>

cfg / init / ops : as for `treest.run` (Driver/TreeSt.lean); the history is run first.
doc              : id of the document (or group) that is saved.
The record environment of the driver gives every group `x` the bounding payload `x` (the role
letter tells the two records of a group apart) — `noB` after the id list marks groups WITHOUT a
bounding record: `<doc> <ids>` with ids `-` or `1,2`.
answer: ok <records> TAB <forest read from the store> TAB <forest parsed from the records | err:Class>
        with records = `L3 B2 C2 A5` (leaf / bounding / closing / closing of an artboard) or `err:Class`
        and forests in the notation of `tree.open` (`L1 G2.2[L3] A5.5[]`).
-/
import Driver.Util
import Driver.Tree
import Driver.TreeSt
import PsdVerif.Model.Reopen

namespace Driver.Reopen
open PsdVerif PsdVerif.Tree PsdVerif.TreeSt PsdVerif.Reopen Driver

def env (noBound : List Nat) : RecEnv :=
  ⟨fun x => if noBound.contains x then none else some x, fun _ => ⟨none, none, false⟩, fun _ _ => false, fun _ => false⟩

def parseDoc (s : String) : Option (Nat × List Nat) :=
  match Driver.TreeSt.words s with
  | [d] => d.toNat?.map (·, [])
  | [d, nb] => do pure (← d.toNat?, ← Driver.TreeSt.natList nb)
  | _ => none

def answer (E : RecEnv) (s : State) (d : Nat) : String :=
  let f := Driver.Tree.forestStr (forestOf E s d)
  match flattenState E s d with
  | .error e => "err:" ++ e.name ++ "\t" ++ f ++ "\t-"
  | .ok rs =>
    let reopened := match parse rs with
      | .ok g => Driver.Tree.forestStr g
      | .error e => "err:" ++ e.name
    Driver.Tree.recsStr rs ++ "\t" ++ f ++ "\t" ++ reopened

def cmds : List (String × Cmd) := [
  ("reopen.flatten", fun
    | [cfg, init, ops, doc] =>
      match Driver.TreeSt.parseCfg cfg, Driver.TreeSt.parseInit init, parseDoc doc with
      | some cfg, some s0, some (d, nb) =>
        let opStrs := if ops == "-" then [] else ops.splitOn ";"
        match opStrs.mapM (fun o => Driver.TreeSt.parseOp (Driver.TreeSt.words o)) with
        | some ops => okLine (answer (env nb) (runState cfg s0 ops) d)
        | none => badRequest
      | _, _, _ => badRequest
    | _ => badRequest)
]

end Driver.Reopen
