-- Root of the `PsdVerif` library: models, lemmas and property theorems.
import PsdVerif.Model.Basic
import PsdVerif.Model.Rle
