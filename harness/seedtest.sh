#!/bin/sh
# usage: harness/seedtest.sh <patch.diff> <Cxx> [<Cyy> ...]   applies the patch to /repo, runs the quick checks, reverts.
patch="$1"; shift
REPO=${SEED_REPO:-/repo}; VERIF=${SEED_VERIF:-/verif}
cd "$REPO" || exit 2
if [ -n "$(git status --porcelain --untracked-files=no)" ]; then echo "repo not clean"; exit 2; fi
git apply "$patch" || { echo "patch does not apply"; exit 2; }
cd "$VERIF"
for p in "$@"; do
  PSD_REPO="$REPO" ./check "$p" --tier quick > /tmp/seedtest.$$.out 2>&1; rc=$?
  echo "== $p exit=$rc"; grep -E "^(VIOLATION|INFRA)" /tmp/seedtest.$$.out | head -8; grep -E "^KNOWN-FINDING" /tmp/seedtest.$$.out | cut -c1-160 | head -12
done
rm -f /tmp/seedtest.$$.out
git -C "$REPO" checkout -- . 
# the run on the changed source rewrote the regenerated tables and the evidence: put the committed ones back
git -C "$VERIF" checkout -- lean/PsdVerif/Generated evidence 2>/dev/null
git -C "$REPO" status --porcelain --untracked-files=no
