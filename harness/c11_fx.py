"""C11, effect-carrying documents: fill layers, vector masks, vector strokes, overlay effects, stroke effects, adjustment layers, force.

correspondence : Model/CompositeFx.lean at K = Rat (driver command comp.fx; the per-pixel effect-carrying tree extracted by
                 comp_fx.FxDoc with the compositor's own getters and drawing functions) vs psd_tools.composite.composite at every
                 pixel of (a) a deterministic matrix of documents (overlay kind x carrier x opacity x fill opacity x position in a
                 clip run), (b) seeded random documents (plain / force=True / backdrop / layer_filter / sub-viewport), (c) every
                 fixture (force=False; a seeded sample also with force=True)
search         : the real compositor vs the float64 oracle of the published model (comp_common.Spec) wherever that oracle needs no
                 drawing (solid-colour fills without vector mask, colour overlays, adjustment layers); an exception raised by
                 composite() is a failing input by itself
ties           : Generated/CompositeFx.lean regenerated from the AST (extract_fx) and checked by Props/C11Fx.lean
"""
from __future__ import annotations

import glob
import hashlib
import json
import os

import numpy as np

import core
import comp_common as cc
import comp_fx as fx

FIXTURE_AREA = 1100 * 1100
FIXTURE_PIXELS = 120


def case_json(case):
    j = {"doc": dict(case["doc"], recipe=fx.recipe_to_json(case["doc"]["recipe"])), "variant": case.get("variant", "plain"), "fx": True}
    if case.get("backdrop") is not None:
        j["backdrop"] = [np.asarray(case["backdrop"][0]).tolist(), np.asarray(case["backdrop"][1]).tolist()]
    for k in ("filter", "viewport", "force"):
        if case.get(k):
            j[k] = list(case[k]) if k == "viewport" else case[k]
    return j


def case_from_json(j):
    c = {"doc": dict(j["doc"], recipe=fx.recipe_from_json(j["doc"]["recipe"])), "variant": j.get("variant", "plain"), "stream": "corpus"}
    if j.get("backdrop") is not None:
        c["backdrop"] = (np.asarray(j["backdrop"][0], dtype=np.float32), np.asarray(j["backdrop"][1], dtype=np.float32))
    for k in ("filter", "viewport", "force"):
        if j.get(k):
            c[k] = j[k]
    return c


def oracle(case):
    """compare the real composite of a case with the float64 oracle -> (mismatch | None, unstable) or None when the oracle
    does not cover the document"""
    doc = case["doc"]
    W, H = doc["size"]
    V = tuple(case.get("viewport") or (0, 0, W, H))
    bd = case.get("backdrop")
    flt = case.get("filter")
    try:
        return cc.spec_composite(doc["recipe"], V, doc["mode"], None if bd is None else bd[0], None if bd is None else bd[1][..., 0],
                                 cc.recipe_visible(doc["recipe"], **flt) if flt else None, size=doc["size"], force=bool(case.get("force")))
    except NotImplementedError:
        return None


def eval_case(case):
    r = fx.eval_fx_case(case)
    r["spec"] = None
    if r["error"] is None and case.get("want_spec", True):
        o = oracle(case)
        if o is not None:
            sc, ss, sa, uns = o
            r["spec"] = (cc.compare(r["real"], (sc, ss, sa), uns), uns, cc.max_diffs(r["real"], (sc, ss, sa), uns))
    return r


def run_cases(cases, workers=12):
    if len(cases) < 8 or workers <= 1:
        return [eval_case(c) for c in cases]
    import multiprocessing as mp
    with mp.get_context("fork").Pool(workers) as pool:
        return pool.map(eval_case, cases, chunksize=max(1, len(cases) // (workers * 8)))


def variant_tags(case):
    return [k if k != "filter" else "layer-filter" for k in ("backdrop", "filter", "viewport", "force") if case.get(k)]


def sig_features(doc, case):
    return cc.feature_sig(doc, sorted(fx.fx_features(doc)) + variant_tags(case))


def report_failure(ctx, case, res, prop="C11"):
    if res["error"]:
        etype = res["error"]["type"]

        def fails(d):
            r = eval_case(dict(case, doc=d, want_model=False, want_spec=False))
            return r["error"] is not None and r["error"]["type"] == etype
    else:
        def fails(d):
            r = eval_case(dict(case, doc=d, want_model=False))
            return r["error"] is None and r["spec"] is not None and r["spec"][0] is not None
    small = cc.shrink_doc(case["doc"], fails, budget=120 if ctx.quick else 250)
    c2 = dict(case, doc=small)
    for k in ("backdrop", "filter", "viewport", "force"):
        if c2.get(k):
            c3 = {kk: v for kk, v in c2.items() if kk != k}
            try:
                r3 = eval_case(dict(c3, want_model=False, want_spec=not res["error"]))
                still = (r3["error"] is not None and res["error"] and r3["error"]["type"] == res["error"]["type"]) or \
                        (not res["error"] and r3["error"] is None and r3["spec"] and r3["spec"][0] is not None)
            except Exception:  # noqa
                still = False
            if still:
                c2 = c3
    r = eval_case(dict(c2, want_model=False, want_spec=not res["error"]))
    feats = sig_features(small, c2)
    if r["error"]:
        sig = f"{prop}/fx/exception/{r['error']['type']}/{feats}"
        ctx.fail(sig, f"the compositor raises {r['error']['type']} ({r['error']['msg']}) at {r['error']['where']}", case_json(c2), r["error"],
                 "a composite equal to the published model")
        return sig
    mm = r["spec"][0] if r["spec"] else None
    if mm is None:
        mm, c2, feats = res["spec"][0], case, sig_features(case["doc"], case)
    sig = f"{prop}/fx/{feats}/{mm['what']}"
    ctx.fail(sig, f"composite of a document with fill layers / colour overlays differs from the published compositing model in {mm['what']} "
                  f"(features of the shrunk document: {feats})", case_json(c2), mm,
             "Porter-Duff / PDF 1.7 value with each colour overlay as one more element painted with the layer's masked shape and "
             f"alpha x effect opacity (float64 oracle), tolerance {cc.TOL_ALPHA} / {cc.TOL_COLOR}")
    return sig


def process(ctx, cases, st, label, prop="C11"):
    results = run_cases([dict(c) for c in cases], workers=1 if len(cases) < 24 else 12)
    reqs, spans = [], []
    for c, r in zip(cases, results):
        if r.get("reqs"):
            spans.append((len(reqs), len(r["reqs"])))
            reqs += r["reqs"]
        else:
            spans.append(None)
    answers = ctx.driver().batch(reqs) if reqs else []
    failing = []
    for c, r, sp in zip(cases, results, spans):
        doc = c["doc"]
        ctx.hist("fx_cases", f"{label}:{c.get('stream')}:{c.get('variant')}")
        for f in fx.fx_features(doc):
            ctx.hist("fx_recipe_features", f)
        for f in r.get("features") or []:
            ctx.hist("fx_features_reached_by_the_extraction", f)
        if r["error"]:
            if r["error"].get("in_repo", True):
                failing.append((c, r))
                ctx.hist("fx_outcome", "exception:" + r["error"]["type"] + "@" + str(r["error"].get("where")))
                continue
            raise core.Infra(f"harness error while evaluating an fx case: {r['error']}")
        if r.get("scope"):
            ctx.hist("fx_outside_the_model", r["scope"])
        npx = int(np.asarray(r["real"][1]).size)
        ctx.count(hashlib.sha1(json.dumps(case_json(c), sort_keys=True).encode()).hexdigest(), nontrivial=npx > 0, n=max(npx, 1))
        bad = cc.in_unit_interval(r["real"])
        if bad:
            ctx.fail(f"{prop}/fx/range/{bad['what']}/{sig_features(doc, c)}", "composite returns values outside [0,1] or not finite",
                     case_json(c), bad, "finite values in [0,1]")
        uns = None
        if r["spec"] is not None:
            mm, uns, (da, dc) = r["spec"]
            st["fx_spec_da"] = max(st.get("fx_spec_da", 0.0), da if mm is None else 0.0)
            st["fx_spec_dc"] = max(st.get("fx_spec_dc", 0.0), dc if mm is None else 0.0)
            if mm is not None:
                failing.append((c, r))
                ctx.hist("fx_outcome", "differs-from-published-model")
            else:
                ctx.hist("fx_outcome", "agrees-with-oracle")
        else:
            ctx.hist("fx_outcome", "no-independent-oracle(gradient / pattern / stroke effect / vector mask)")
        if sp is not None:
            ans = answers[sp[0]:sp[0] + sp[1]]
            m = cc.parse_answers(ans, r["pixels"], r["V"], r["nch"])
            ctx.corr_cases += len(ans)
            if isinstance(m, str):
                ctx.disagree(f"fx model does not evaluate a {doc['mode']} document: {m}", case_json(c))
                continue
            cm = cc.compare(r["real"], m, uns)
            if cm is not None:
                ctx.disagree(f"fx model != implementation ({label}, {c.get('variant')}): {cm}", case_json(c))
                ctx.hist("fx_correspondence", "disagree")
            else:
                da, dc = cc.max_diffs(r["real"], m, uns)
                st["fx_corr_da"] = max(st.get("fx_corr_da", 0.0), da)
                st["fx_corr_dc"] = max(st.get("fx_corr_dc", 0.0), dc)
                ctx.hist("fx_correspondence", "agree")
    seen = {}
    for c, r in failing:
        fam = r["error"]["type"] if r["error"] else r["spec"][0]["what"]
        if seen.get(fam, 0) >= (2 if ctx.quick else 5):
            ctx.hist("fx_unshrunk_failures", fam)
            continue
        seen[fam] = seen.get(fam, 0) + 1
        report_failure(ctx, c, r, prop)
    return results


def matrix_cases(tier):
    cases = []
    for i, doc in enumerate(fx.fx_matrix_docs()):
        cases.append({"doc": doc, "stream": "fx-matrix", "variant": "plain"})
        W, H = doc["size"]
        if i % 4 == 1:
            cases.append({"doc": doc, "stream": "fx-matrix", "variant": "force", "force": True})
        if i % 5 == 2:
            r = np.random.RandomState(11 + i)
            col = (r.randint(0, 256, size=(H, W, cc.MODE_CH[doc["mode"]])) / 255.0).astype(np.float32)
            al = (r.choice([0, 77, 128, 255], size=(H, W, 1)) / 255.0).astype(np.float32)
            cases.append({"doc": doc, "stream": "fx-matrix", "variant": "backdrop", "backdrop": (col, al)})
        if i % 7 == 3:
            cases.append({"doc": doc, "stream": "fx-matrix", "variant": "viewport", "viewport": [1, 0, 3, 2]})
    return cases


def filter_effect_cases():
    """groups that carry effects and have hidden members, composited with a layer_filter that accepts the hidden members:
    the group's box then differs from its cached box (deterministic)"""
    import copy
    cases = []

    def px(name, rect, val, **kw):
        l, t, r, b = rect
        n = {"t": "pixel", "name": name, "rect": list(rect), "color": np.full((b - t, r - l, 3), val, np.uint8),
             "alpha": np.full((b - t, r - l), 255, np.uint8), "opacity": 255, "fill": None, "blend": "NORMAL", "visible": True,
             "clip": False, "knockout": False, "mask": None}
        n.update(kw)
        return n
    effects = [{"kind": "color", "color": [250, 20, 20], "opacity": 60, "blend": "Nrml"},
               {"kind": "gradient", "stops": [[0, [0, 0, 255]], [4096, [255, 255, 0]]], "alpha_stops": None, "angle": 0, "opacity": 100,
                "blend": "Nrml"}]
    for e in effects:
        for blend in ("PASS_THROUGH", "NORMAL"):
            for kids in ("all-hidden", "hidden-larger", "hidden-apart"):
                children = {"all-hidden": [px("h", [1, 1, 4, 3], 40, visible=False)],
                            "hidden-larger": [px("v", [2, 1, 3, 3], 200), px("h", [0, 0, 5, 4], 40, visible=False, opacity=150)],
                            "hidden-apart": [px("v", [0, 0, 2, 2], 200), px("h", [3, 2, 5, 4], 40, visible=False)]}[kids]
                g = {"t": "group", "name": "g", "blend": blend, "opacity": 255, "fill": None, "visible": True, "clip": False, "knockout": False,
                     "children": children, "effects": {"master": True, "items": [dict(e)]}}
                doc = {"recipe": copy.deepcopy([px("bg", [0, 0, 5, 4], 120, opacity=220), g]), "size": [5, 4], "mode": "RGB"}
                cases.append({"doc": doc, "stream": "fx-filter", "variant": "filter", "filter": {"hidden_ok": ["h"], "drop": []}})
                cases.append({"doc": doc, "stream": "fx-filter", "variant": "plain"})
    return cases


def random_cases(ctx, n):
    rng = ctx.rng
    nprng = np.random.RandomState(rng.randrange(2 ** 32))
    cases = []
    for k in range(n):
        doc = fx.gen_fx_doc(rng, nprng, allow_stroke=(k % 4 == 3))
        cc.name_nodes(doc["recipe"])
        cases.append({"doc": doc, "stream": "fx-random", "variant": "plain"})
        W, H = doc["size"]
        r = rng.random()
        if r < 0.3:
            cases.append({"doc": doc, "stream": "fx-random", "variant": "force", "force": True})
        elif r < 0.5:
            col, al = cc.gen_backdrop(rng, nprng, (0, 0, W, H), cc.MODE_CH[doc["mode"]])
            cases.append({"doc": doc, "stream": "fx-random", "variant": "backdrop", "backdrop": (col, al)})
        elif r < 0.7:
            names = [n["name"] for n in cc.walk(doc["recipe"])]
            hidden = [n["name"] for n in cc.walk(doc["recipe"]) if not n.get("visible", True)]
            cases.append({"doc": doc, "stream": "fx-random", "variant": "filter",
                          "filter": {"hidden_ok": [nm for nm in hidden if rng.random() < 0.6], "drop": [nm for nm in names if rng.random() < 0.2]}})
        elif r < 0.9:
            l = rng.randrange(-2, W); t = rng.randrange(-2, H)
            cases.append({"doc": doc, "stream": "fx-random", "variant": "viewport",
                          "viewport": [l, t, rng.randrange(l + 1, W + 3), rng.randrange(t + 1, H + 3)]})
    return cases


# ------------------------------------------------------------------------------------------
# fixtures
# ------------------------------------------------------------------------------------------
def fixture_task(task):
    """one fixture x force in a worker -> {rel, force, real-summary, reqs, pixels, ...}"""
    from psd_tools import PSDImage
    import random
    rel, force, seed = task
    out = {"rel": rel, "force": force, "error": None, "scope": None, "reqs": None}
    try:
        psd = PSDImage.open(core.REPO / "tests" / "psd_files" / rel)
        V = (0, 0, psd.width, psd.height)
        out["V"] = V
        real = fx.real_composite(psd, force=force)
    except Exception as e:  # noqa
        out["error"] = {"type": type(e).__name__, "msg": str(e)[:160], "where": "composite"}
        return out
    out["range"] = cc.in_unit_interval(real)
    try:
        xd = fx.FxDoc(psd, V, None, force)
    except cc.OutOfScope as e:
        out["scope"] = str(e)
        return out
    except Exception as e:  # noqa
        out["error"] = {"type": type(e).__name__, "msg": str(e)[:160], "where": "extraction"}
        return out
    allpx = [(x, y) for y in range(V[1], V[3]) for x in range(V[0], V[2])]
    pixels = allpx if len(allpx) <= FIXTURE_PIXELS else random.Random(seed).sample(allpx, FIXTURE_PIXELS)
    pixels, reqs = xd.requests(pixels=pixels)
    # keep only what the comparison needs: the real values at the sampled pixels
    c, s, a = real
    out["real_px"] = [(c[y, x].tolist(), float(s[y, x, 0]), float(a[y, x, 0])) for x, y in pixels]
    out["pixels"], out["reqs"], out["nch"], out["features"] = pixels, reqs, xd.nch, sorted(xd.features)
    return out


def fixtures(ctx, st):
    from psd_tools import PSDImage
    root = core.REPO / "tests" / "psd_files"
    tasks = []
    skipped = {}
    for f in sorted(glob.glob(str(root / "**" / "*.psd"), recursive=True)):
        rel = os.path.relpath(f, root)
        try:
            psd = PSDImage.open(f)
        except Exception:  # noqa  (C06)
            continue
        if len(psd) == 0:
            continue
        if psd.width * psd.height > FIXTURE_AREA:
            skipped["canvas larger than 1100x1100"] = skipped.get("canvas larger than 1100x1100", 0) + 1
            continue
        tasks.append((rel, False, ctx.rng.randrange(2 ** 31)))
        if not ctx.quick or ctx.rng.random() < 0.25:
            tasks.append((rel, True, ctx.rng.randrange(2 ** 31)))
    import multiprocessing as mp
    with mp.get_context("fork").Pool(12) as pool:
        results = pool.map(fixture_task, tasks, chunksize=2)
    reqs, spans = [], []
    for r in results:
        if r.get("reqs"):
            spans.append((len(reqs), len(r["reqs"])))
            reqs += r["reqs"]
        else:
            spans.append(None)
    answers = ctx.driver().batch(reqs) if reqs else []
    used = 0
    for r, sp in zip(results, spans):
        rel, force = r["rel"], r["force"]
        key = {"fixture": rel, "force": force}
        if r["error"]:
            if r["error"]["where"] == "composite":
                ctx.fail(f"C11/fx/exception/{r['error']['type']}/fixture/{rel}" + ("/force" if force else ""),
                         f"composite(force={force}) of fixture {rel} raises {r['error']['type']}: {r['error']['msg']}", key, r["error"],
                         "a composite")
            else:
                ctx.disagree(f"the effect-carrying tree of fixture {rel} cannot be extracted ({r['error']['type']}: {r['error']['msg']})", key)
            continue
        if r.get("range"):
            ctx.fail(f"C11/fx/range/{r['range']['what']}/fixture/{rel}", "composite of a fixture outside [0,1] or not finite", key, r["range"],
                     "finite values in [0,1]")
        if r["scope"]:
            skipped["outside the fx model: " + r["scope"]] = skipped.get("outside the fx model: " + r["scope"], 0) + 1
            continue
        used += 1
        for f in r["features"]:
            ctx.hist("fx_fixture_features", f)
        ctx.hist("fx_fixtures", rel + (" (force)" if force else ""))
        ans = answers[sp[0]:sp[0] + sp[1]]
        ctx.corr_cases += len(ans)
        ctx.count(("fx-fixture", rel, force), n=len(ans))
        worst = None
        for (x, y), a, (rc, rs, ra) in zip(r["pixels"], ans, r["real_px"]):
            if a[0] != "ok":
                worst = {"what": "model-error", "answer": a, "pixel": [x, y]}
                break
            cs, sh, al = a[1].split(" ")
            mc = [cc._f(t) for t in cs.split(",")]
            ms, ma = cc._f(sh), cc._f(al)
            if len(rc) == 1 and len(mc) > 1:
                rc = rc * len(mc)
            if abs(rs - ms) > cc.TOL_ALPHA or abs(ra - ma) > cc.TOL_ALPHA:
                worst = {"what": "shape/alpha", "pixel": [x, y], "real": [rs, ra], "model": [ms, ma]}
                break
            if ra > cc.ALPHA_MIN and ma > cc.ALPHA_MIN:
                d = max(abs(u * ra - v * ma) for u, v in zip(rc, mc))
                st["fx_corr_dc"] = max(st.get("fx_corr_dc", 0.0), d if d <= cc.TOL_COLOR else 0.0)
                if d > cc.TOL_COLOR:
                    worst = {"what": "color", "pixel": [x, y], "real": rc, "model": mc, "alpha": ra, "diff": d}
                    break
        if worst is not None:
            ctx.disagree(f"fx model != implementation on fixture {rel} (force={force}): {worst}", key)
    for reason, n in sorted(skipped.items()):
        ctx.skipped.append(f"{n} fixture run(s) not compared with the fx model: {reason}")
    ctx.extra["fx_fixture_runs_compared"] = used


def run(ctx, st):
    corpus_file = core.VERIF / "harness" / "corpus" / "C11fx.json"
    if corpus_file.exists():
        process(ctx, [case_from_json(j) for j in json.loads(corpus_file.read_text())], st, "corpus")
    mcases = matrix_cases(ctx.tier) + filter_effect_cases()
    for k in range(0, len(mcases), 600):
        process(ctx, mcases[k:k + 600], st, "matrix")
    cases = random_cases(ctx, 90 if ctx.quick else 1500)
    for k in range(0, len(cases), 600):
        process(ctx, cases[k:k + 600], st, "generated")
    fixtures(ctx, st)
    ctx.extra["fx_max_abs_diff_model_vs_impl"] = {"alpha_shape": st.get("fx_corr_da", 0.0), "premultiplied_colour": st.get("fx_corr_dc", 0.0)}
    ctx.extra["fx_max_abs_diff_impl_vs_oracle"] = {"alpha_shape": st.get("fx_spec_da", 0.0), "premultiplied_colour": st.get("fx_spec_dc", 0.0)}
    ctx.extra["fx_matrix_documents"] = len({id(c["doc"]) for c in mcases})


NOTES = [
    "proved (Props/C11Fx.lean) about Model/CompositeFx.lean, a wrapper layer over the same per-pixel state machine with fill layers (object "
    "source decided by useFill = (force or not has_pixels) and has_fill), vector masks (useVectorMask), the vector stroke composited inside "
    "_get_object by a sub-compositor seeded with (colour, alpha) whose finish() colour is taken, overlay effects (colour, pattern, gradient, "
    "in that order, each one more _apply_source with shape*shape_e, alpha*shape_e*opacity, the layer's shape / alpha after masks and layer "
    "opacity and before fill opacity), stroke effects (drawn shape a parameter; alpha = shape * effect opacity * layer opacity), adjustment "
    "layers (no-op): fx_model_extends_model (on plain trees the new model IS Model/Composite.lean, whatever force), fx_evaluator_is_model, "
    "state_in_range_fx, group_result_unclipped_fx, overlay_is_extra_source (+ overlay_sources_of_leaf), compositor_refines_spec_fx "
    "(+ _list, _clip_run, _doc: the code model with effects refines the published model extended to effects, Model/CompositeFxSpec.lean), "
    "fill_layer_is_pixel_layer, force_irrelevant (+ _doc, and force_matters_with_fill)",
    "ties regenerated from the AST on every run (Generated/CompositeFx.lean, extract_fx.py) and decided in Props/C11Fx.lean: the early exits "
    "of apply (adjustment layers second), the in-place scalings before the calls, the order and arguments of the _apply_* calls (fill opacity "
    "on the own source only; shape_mask or shape for the stroke effect), the four effect functions (effects.find key, _apply_source "
    "arguments, pastes, opacity scale 1/100), the three decisions as truth tables evaluated from their `if` tests (useFill 8 rows, "
    "useVectorMask 128 rows, strokeFxFromMask 16 rows), _get_const scales 1/255, the vector-stroke block, `_apply_clip_layers` returning "
    "`compositor._color`, FILL_TAGS",
    "what is DRAWN (create_fill, draw_vector_mask, draw_stroke, draw_*_fill, draw_stroke_effect: aggdraw / scipy / skimage) is a parameter of the "
    "model: the extraction calls the real functions and hands the model their value at the pixel",
]
