"""C03, more writer entry points (added after the seeded changes C03-r2-1 / C03-r2-3 were missed).

Everything here produces BYTES WITH THE REAL WRITER and judges them with the Lean walker plus the specification
reading of c03_extra.py (layer channels incl. Lr16/Lr32 payloads, merged image planes against the header).

* `reencoded_channel_documents`: documents of every depth (8 as control, 16 and 32: their layers live in the Lr16 /
  Lr32 block, which has its own write path), PSD and PSB, fixtures and API-created, whose layer channel data is
  replaced through `ChannelData.set_data` (same pixels with every compression; new pixels) *without touching
  ChannelInfo.length by hand*, then written by `PSD.write` (padding 1/2/4) and by `PSDImage.save`.
* `extra_channel_documents`: documents whose header declares 0, 1, 2, 3 channels more than the colour mode needs
  (API: `PSDImage.new` x mode x depth with the header widened and the merged image given the extra planes; fixtures
  with alpha / spot channels), structurally edited (group + pixel layer appended; a layer removed) and saved: the
  merged image must hold exactly `header.channels` planes (RAW size, RLE row table of channels x height entries, ZIP
  size).
"""
from __future__ import annotations

import io
import struct

import codec_common as cc
import c03_extra
from core import hx

EXPECTED = {1: 1, 3: 3, 4: 4}          # colour planes of Grayscale, RGB, CMYK (the modes `save` regenerates)


def _sniff(f):
    b = f.open("rb").read(26)
    if len(b) < 26 or b[:4] != b"8BPS":
        return None
    ver, = struct.unpack(">H", b[4:6])
    ch, h, w, d, m = struct.unpack(">HIIHH", b[12:26])
    return dict(version=ver, channels=ch, height=h, width=w, depth=d, mode=m, size=f.stat().st_size)


def _layer_infos(doc):
    lam = doc.layer_and_mask_information
    out = []
    if lam.layer_info is not None:
        out.append(lam.layer_info)
    if lam.tagged_blocks:
        for k in (b"Lr16", b"Lr32"):
            if k in lam.tagged_blocks and hasattr(lam.tagged_blocks[k].data, "layer_records"):
                out.append(lam.tagged_blocks[k].data)
    return out


def _save(psd, **kw):
    f = io.BytesIO()
    psd.save(f, **kw)
    return f.getvalue()


# ---------------------------------------------------------------------------------------------
# (A) channel data replaced through ChannelData.set_data
# ---------------------------------------------------------------------------------------------
def _api_sources(ctx):
    """-> [(label, bytes)] small layered documents of every depth made through the API"""
    out = []
    try:
        from PIL import Image
        from psd_tools import PSDImage
        from psd_tools.api.layers import Group, PixelLayer
    except Exception as e:  # noqa
        ctx.skipped.append("API sources for re-encoded channels skipped: %r" % e)
        return out
    for mode in ("RGB", "L", "CMYK"):
        for depth in (8, 16, 32):
            def build(mode=mode, depth=depth):
                p = PSDImage.new(mode, (5, 4), depth=depth)
                p.append(PixelLayer.frompil(Image.new(mode, (3, 2), 77 if mode == "L" else tuple([77, 9, 200, 30][:len(mode)])), p, "a", 1, 1))
                g = Group.new("g", parent=p)
                g.append(PixelLayer.frompil(Image.new("RGBA" if mode == "RGB" else mode, (2, 3)), p, "b"))
                return _save(p)
            try:
                out.append(("api-%s-d%d" % (mode, depth), build()))
            except Exception as e:  # noqa
                ctx.hist("api_scenario_raised", "reencode-source:%s-d%d:%s" % (mode, depth, type(e).__name__))
    return out


def reencoded_channel_documents(ctx, fx_all):
    """-> [(label, scenario, bytes, expected, meta)]"""
    out = []
    try:
        from psd_tools import PSDImage
        from psd_tools.constants import Compression
    except Exception as e:  # noqa
        ctx.skipped.append("re-encoded channel scenarios skipped: %r" % e)
        return out
    quick = ctx.quick
    sources = []
    per_depth = {8: 0, 16: 0, 32: 0}
    for f in fx_all:
        h = _sniff(f)
        if not h or h["depth"] not in per_depth:
            continue
        if h["size"] > (60000 if quick else 600000):
            continue
        cap = (2 if h["depth"] == 8 else 6) if quick else (8 if h["depth"] == 8 else 40)
        if per_depth[h["depth"]] >= cap:
            continue
        b = f.read_bytes()
        r = cc.read_doc(b)
        if r[0] != "ok" or not any(li.layer_records for li in _layer_infos(r[1])):
            continue
        per_depth[h["depth"]] += 1
        sources.append((f.name, b))
    sources += _api_sources(ctx)
    comps = list(Compression)
    for label, b0 in sources:
        for how in [c.name for c in comps] + ["new-pixels"]:
            r = cc.read_doc(b0)
            if r[0] != "ok":
                ctx.hist("reencode", "source-unreadable")
                break
            doc = r[1]
            hdr = doc.header
            edited = 0
            try:
                for li in _layer_infos(doc):
                    if not li.layer_records or not li.channel_image_data:
                        continue
                    for rec, chans in zip(li.layer_records, li.channel_image_data):
                        for (w, h), ch in zip(rec.channel_sizes, chans):
                            if w == 0 or h == 0:
                                continue
                            raw = ch.get_data(w, h, hdr.depth, hdr.version)
                            if how == "new-pixels":
                                raw = bytes((i * 37 + edited) % 251 for i in range(len(raw)))
                                if hdr.depth == 32:
                                    raw = bytes(len(raw))          # any bit pattern is a float, but keep it finite
                            else:
                                comp = Compression[how]
                                if comp == Compression.ZIP_WITH_PREDICTION and hdr.depth == 1:
                                    continue
                                if ch.compression == comp:
                                    continue
                                ch.compression = comp
                            ch.set_data(raw, w, h, hdr.depth, hdr.version)
                            edited += 1
            except Exception as e:  # noqa
                ctx.hist("reencode", "set_data-raised:%s" % type(e).__name__)
                continue
            if not edited:
                continue
            scen = "writers/reencoded-channels/d%d" % hdr.depth
            meta = {"source": label, "how": how, "channels_replaced": edited, "depth": hdr.depth, "version": hdr.version}
            for pad in ((4, 1) if quick else (4, 2, 1)):
                w = cc.write_doc(doc, "macroman", pad)
                if w[0] != "ok":
                    ctx.hist("reencode", "PSD.write-raised:%s" % w[1])
                    continue
                if w[2] != len(w[1]):
                    ctx.fail("C03/written-count/PSD/reencoded-channels",
                             "PSD.write returns a count that is not the file size after channel data was replaced",
                             dict(meta, padding=pad, scenario=scen, file=hx(w[1]) if len(w[1]) < 200000 else None),
                             {"returned": w[2], "emitted": len(w[1])}, "returned == emitted")
                out.append(("%s/%s/PSD.write/pad%d" % (label, how, pad), scen, w[1], None, dict(meta, entry="PSD.write", padding=pad)))
            try:
                out.append(("%s/%s/PSDImage.save" % (label, how), scen, _save(PSDImage(doc)), None, dict(meta, entry="PSDImage.save")))
            except Exception as e:  # noqa
                ctx.hist("reencode", "save-raised:%s" % type(e).__name__)
    return out


# ---------------------------------------------------------------------------------------------
# (B) documents with extra channels, structurally edited, saved
# ---------------------------------------------------------------------------------------------
def _edit(psd, how):
    from PIL import Image
    from psd_tools.api.layers import Group, PixelLayer
    if how == "append-group":
        g = Group.new("added group", parent=psd)
        g.append(PixelLayer.frompil(Image.new("RGBA", (3, 2), (200, 30, 60, 160)), psd, "added pixels", 1, 1))
    elif how == "append-layer":
        psd.append(PixelLayer.frompil(Image.new("L", (2, 2), 90), psd, "added", 0, 0))
    elif how == "remove-layer":
        if len(psd) < 2:
            raise LookupError("nothing to remove")
        del psd[0]
    else:
        raise ValueError(how)


def extra_channel_documents(ctx, fx_all):
    out = []
    try:
        from psd_tools import PSDImage
        from psd_tools.constants import Compression
    except Exception as e:  # noqa
        ctx.skipped.append("extra-channel scenarios skipped: %r" % e)
        return out
    quick = ctx.quick

    def attempt(label, scen, meta, fn):
        try:
            out.append((label, scen, fn(), None, meta))
        except LookupError:
            pass
        except Exception as e:  # noqa
            ctx.hist("api_scenario_raised", "%s:%s" % (scen, type(e).__name__))

    # API-created: the header widened by k channels, the merged image given the k extra planes
    for mode in ("L", "RGB", "CMYK"):
        for depth in ((8, 16) if quick else (8, 16, 32)):
            for k in (0, 1, 2, 3):
                for comp in ((Compression.RLE, Compression.RAW) if quick else tuple(Compression)):
                    if comp == Compression.ZIP_WITH_PREDICTION:
                        continue
                    for how in (("append-group",) if quick else ("append-group", "append-layer")):
                        def build(mode=mode, depth=depth, k=k, comp=comp, how=how):
                            p = PSDImage.new(mode, (7, 5), color=255 if depth == 8 else 0, depth=depth, compression=comp)
                            header = p._record.header
                            planes = p._record.image_data.get_data(header)
                            header.channels = len(planes) + k
                            planes = list(planes) + [bytes([0x80]) * len(planes[0])] * k
                            p._record.image_data.set_data(planes, header)
                            _edit(p, how)
                            return _save(p)
                        attempt("new-%s-d%d-comp%d+%d/%s" % (mode, depth, int(comp), k, how),
                                "writers/extra-channels-edit-then-save/%d-extra" % k,
                                {"mode": mode, "depth": depth, "extra_channels": k, "compression": int(comp), "edit": how}, build)
    # fixtures with alpha / spot channels
    by_extra = {0: [], 1: [], 2: [], 3: []}
    for f in fx_all:
        h = _sniff(f)
        if not h or h["mode"] not in EXPECTED or h["depth"] not in (8, 16, 32):
            continue
        k = h["channels"] - EXPECTED[h["mode"]]
        if k < 0 or h["width"] * h["height"] > (450000 if quick else 1200000):
            continue
        by_extra[min(k, 3)].append((f, h))
    for k, fs in sorted(by_extra.items()):
        cap = {0: 2, 1: 3}.get(k, 8) if quick else 40
        for f, h in fs[:cap]:
            for how in (("append-group",) if quick and k < 2 else ("append-group", "remove-layer")):
                def build(f=f, how=how):
                    p = PSDImage.open(f)
                    _edit(p, how)
                    return _save(p)
                attempt("%s/%s" % (f.name, how), "writers/extra-channels-edit-then-save/%d-extra" % k,
                        {"fixture": f.name, "mode": h["mode"], "depth": h["depth"], "channels": h["channels"],
                         "extra_channels": h["channels"] - EXPECTED[h["mode"]], "edit": how}, build)
    return out


def run(ctx, fx_all):
    """called at the end of props/C03.run"""
    import core
    try:
        _run(ctx, fx_all)
    except core.Infra:
        raise
    except Exception as e:  # noqa  (the harness's own plumbing met a reshaped source: a broken tie, never exit 2)
        import traceback
        ctx.disagree("writer entry-point scenarios stopped on the current source: %s" % type(e).__name__,
                     {"error": repr(e)[:300], "where": traceback.format_exc()[-400:]})


def _run(ctx, fx_all):
    extra = reencoded_channel_documents(ctx, fx_all)
    extra += extra_channel_documents(ctx, fx_all)
    ans = cc.pbatch([("psd.walk", hx(j[2])) for j in extra])
    for (label, scen, b, exp, meta), a in zip(extra, ans):
        ctx.corr_cases += 1
        ctx.count((scen, label, len(b)), nontrivial=True)
        ctx.hist("scenario", scen)
        c03_extra.judge(ctx, label, scen, b, exp, meta, a)
    ctx.rule += (" Added (harness/c03_writers.py): documents of depth 8/16/32 (fixtures and API-created, PSD and PSB) whose layer "
                 "channels are replaced through ChannelData.set_data (each compression; new pixels) and written by PSD.write x "
                 "padding and PSDImage.save; documents declaring 0..3 channels more than the colour mode needs (PSDImage.new x mode "
                 "x depth x compression with a widened header; fixtures with alpha / spot channels) structurally edited then saved: "
                 "merged image planes against the header.")
