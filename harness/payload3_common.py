"""C01 (payload classes, third batch): image-resource payloads, adjustments, vector data, filter effects - the classes
of lean/PsdVerif/Model/Payload3*.lean vs the real classes.

* `regenerate(ctx)` : rewrites Generated/Payload3.lean from the working tree, returns the property module to build
                      (called from the `ctx.prove([...])` list of C01.py)
* `run(ctx)`        : per class, correspondence (Python `write` vs model `enc` byte for byte incl. the returned count and
                      the object state after the call; Python `read` canonicalised vs model `dec` incl. the cursor;
                      exception classes on truncated / mutated encodings) and the Python-only search oracle, on the
                      instances harvested from the fixtures and from tests/*/*.dat (quick: a seeded sample), on
                      hand-listed boundary instances and on seeded generated ones.

The engine is the one of payload_common.run_spec with the driver commands `pl3.enc` / `pl3.dec`
(lean/Driver/Payload3.lean); the token form of a value is described there.
"""
from __future__ import annotations

import collections
import contextlib
import copy
import importlib
import struct
import time

import core
import skel
from core import hx
from payload_common import (NotRep, Spec, py_write, py_read, mutations, _short, t_nat, t_int, t_bytes, t_str, t_opt, t_list,
                            has_pair, bits_of, float_of, desc_block_tokens, desc_block2_tokens, gen_desc_block, desc_excluded,
                            color_tokens, gen_colors, distinct_instances, harvest_by_class)


# ---------------------------------------------------------------------------------------------
# regeneration (before the build)
# ---------------------------------------------------------------------------------------------
def regenerate(ctx):
    import extract_payload3
    ctx.extra["payload3_generated_tables"] = ctx.regenerate(extract_payload3.gen_payload3)
    return ["PsdVerif.Props.C01Payload3"]


def _IR():
    return importlib.import_module("psd_tools.psd.image_resources")


def _ADJ():
    return importlib.import_module("psd_tools.psd.adjustments")


def _VEC():
    return importlib.import_module("psd_tools.psd.vector")


def _FE():
    return importlib.import_module("psd_tools.psd.filter_effects")


def _C():
    return importlib.import_module("psd_tools.constants")


# ---------------------------------------------------------------------------------------------
# token form of `struct` rows
# ---------------------------------------------------------------------------------------------
def fv(x):
    """one argument of struct.pack: `0 <int>` | `1 <hex>`"""
    if isinstance(x, bool):
        return ["0", "1" if x else "0"]
    if isinstance(x, int):
        return ["0", str(int(x))]
    if isinstance(x, (bytes, bytearray)):
        return ["1", hx(bytes(x))]
    raise NotRep("not an int / bytes: %r" % type(x).__name__)


def row(*vals):
    out = [str(len(vals))]
    for v in vals:
        out += fv(v)
    return out


def f32(x):
    """the 32-bit pattern `struct.pack('>f', x)` stores, for the values of the on-disk type"""
    if isinstance(x, bool) or not isinstance(x, (int, float)):
        raise NotRep("not a number: %r" % type(x).__name__)
    try:
        b = struct.pack(">f", x)
    except (OverflowError, struct.error):
        raise NotRep("not a float32 value (a width clause)")
    y = struct.unpack(">f", b)[0]
    if y != x or (x == 0 and struct.pack(">d", y) != struct.pack(">d", float(x))):
        raise NotRep("not a float32 value (a width clause; NaN patterns are not generated)")
    return struct.unpack(">I", b)[0]


def f64(x):
    return bits_of(x)


def f32_of(bits):
    return struct.unpack(">f", struct.pack(">I", bits))[0]


def fixed(x, one):
    """the integer `int(x * one)` the writer stores for a fixed-point attribute; representable iff the reader's
    `float(n) / one` gives the attribute back (multiples of 1/one: a width clause)"""
    if isinstance(x, bool) or not isinstance(x, (int, float)):
        raise NotRep("not a number: %r" % type(x).__name__)
    try:
        n = int(x * one)
    except (OverflowError, ValueError):
        raise NotRep("fixed-point attribute is not finite")
    if float(n) / one != x:
        raise NotRep("fixed-point attribute is not a multiple of 1/%d (a width clause; the conversion is outside the model)" % one)
    return n


def is_bool(x):
    return isinstance(x, bool)


def ustr_bad(*ss):
    for s in ss:
        if not isinstance(s, str):
            raise NotRep("not a str")
    return "adjacent-surrogate-pair (C19)" if any(has_pair(s) for s in ss) else None


def mac(s):
    if not isinstance(s, str):
        raise NotRep("pascal string is not a str")
    try:
        return hx(s.encode("macroman"))
    except UnicodeError:
        raise NotRep("pascal string not encodable (C19)")


STRINGS = ["", "a", "Layer 1", "éあ", "\U0001F600x", "\ud800", "a\x00"]


# ---------------------------------------------------------------------------------------------
# the engine (payload_common.run_spec with the pl3 commands)
# ---------------------------------------------------------------------------------------------
class Spec3(Spec):
    at_end = False
    unit = 7

    def contexts(self):
        return [(1, 1, None)]

    def write_kw(self, v, pad):
        return {"padding": pad}

    def read_kw(self, v, rpad):
        return {}

    def inner_classes(self, x):
        """names of the modelled classes exercised inside this instance (records of a path, ...): counted as cases of theirs"""
        return ()


def run_spec3(ctx, spec, harvested, seen_cls, fail_cls, excluded_log):
    import codec_common as cc
    rng, quick = ctx.rng, ctx.quick
    K = spec.K()
    nm = spec.name
    pynm = spec.pyname or nm
    cases = [("fixture", x) for x in harvested] + list(spec.instances(rng, quick))
    live, reqs = [], []
    for origin, x in cases:
        for (v, pad, rpad) in spec.contexts():
            try:
                toks = spec.tokens(x)
            except (NotRep, skel.NotSkeleton) as e:
                ctx.hist("payload_not_representable", f"{nm}: {str(e)[:70]}")
                break
            w = py_write(x, **spec.write_kw(v, pad))
            try:
                after = spec.tokens(x) if w[0] == "ok" else None
            except (NotRep, skel.NotSkeleton):
                after = None
            mpad, mrpad = spec.model_pads(pad, rpad)
            live.append([origin, x, v, pad, rpad, toks, w, after, mpad, mrpad])
            reqs.append(("pl3.enc", nm, v, mpad, toks))
    dec_reqs, dec_cases = [], []
    for c, a in zip(live, cc.pbatch(reqs)):
        origin, x, v, pad, rpad, toks, w, after, mpad, mrpad = c
        ctx.corr_cases += 1
        ctx.count(("pl3-enc", nm, v, pad, toks[:3000]), nontrivial=True)
        ctx.hist("payload_class_x_origin", f"{nm}/{origin}")
        seen_cls[pynm] += 1
        for inner_nm in getattr(spec, "inner_classes", lambda _x: ())(x):
            seen_cls[inner_nm] += 1
        if a and a[0] in ("bad-request", "unknown-class"):
            ctx.disagree(f"{nm}: the model driver rejects the request", {"value": _short(toks), "answer": a[:1]})
            continue
        if w[0] == "ok":
            if a[0] != "ok" or a[1] != hx(w[1]):
                ctx.disagree(f"{nm}: write() bytes != model enc", {"value": _short(toks), "padding": pad,
                                                                  "model": a[:2] if a[0] != "ok" else _short(a[1], 200), "py": hx(w[1])[:200]})
            elif int(a[2]) != w[2]:
                ctx.disagree(f"{nm}: count returned by write != model count", {"value": _short(toks), "py": w[2], "model": a[2]})
            if after != toks:
                ctx.disagree(f"{nm}: write() changed the object (the model says it does not)", {"value": _short(toks), "after": _short(after)})
            why = spec.excluded(x, pad, rpad)
            iswf = (a[3] == "1") if a[0] == "ok" else (why is None)
            if iswf != (why is None):
                ctx.disagree(f"{nm}: model WF disagrees with the harness's reading of the clauses",
                             {"value": _short(toks), "model_wf": iswf, "harness": why})
            pre = bytes(rng.randrange(256) for _ in range(rng.choice([0, 0, 1, 3])))
            post = b"" if spec.at_end else bytes(rng.randrange(256) for _ in range(rng.choice([0, 0, 2, 9])))
            dec_cases.append(c + [iswf, why, pre, post])
            dec_reqs.append(("pl3.dec", nm, v, mrpad, hx(pre + w[1] + post), len(pre)))
        else:
            ctx.hist("payload_writer_rejects", f"{nm}:{w[1]}")
            if a[0] != "err" or a[1] != w[1]:
                ctx.disagree(f"{nm}: exception class of write != model enc", {"value": _short(toks), "py": w[1], "model": a[:2]})
    for c, a in zip(dec_cases, cc.pbatch(dec_reqs)):
        origin, x, v, pad, rpad, toks, w, after, mpad, mrpad, iswf, why, pre, post = c
        ctx.corr_cases += 1
        rkw = spec.read_kw(v, rpad)
        r = py_read(K, pre + w[1] + post, len(pre), **rkw)
        if r[0] == "ok":
            try:
                rt = spec.tokens(r[1])
            except (NotRep, skel.NotSkeleton) as e:
                ctx.disagree(f"{nm}: re-read value is not representable in the model", {"value": _short(toks), "why": str(e)})
                rt = None                      # the Python-only oracle below still runs (it counts this as "re-read differs")
            if rt is not None and (a[0] != "ok" or a[1] != rt or int(a[2]) != r[2]):
                ctx.disagree(f"{nm}: read() structure / cursor != model dec",
                             {"value": _short(toks), "py": _short(rt), "model": _short(a[1]) if len(a) > 1 else a,
                              "py_pos": r[2], "model_pos": a[2] if len(a) > 2 else None, "padding": pad})
        else:
            ctx.hist("payload_reader_rejects_own_output", f"{nm}:{r[1]}")
            if a[0] != "err" or a[1] != r[1]:
                ctx.disagree(f"{nm}: exception class of read != model dec", {"value": _short(toks), "py": r[1], "model": a[:2]})
        # ---- the property itself on the real code (Python only)
        ctx.count(("pl3-oracle", nm, v, pad, toks[:3000]), nontrivial=True)
        r0 = py_read(K, w[1], 0, **rkw) if (pre or post) else r
        ok, obs = False, None
        if r0[0] == "ok":
            try:
                rt0 = spec.tokens(r0[1])
            except (NotRep, skel.NotSkeleton):
                rt0 = None
            w2 = py_write(r0[1], **spec.write_kw(v, pad))
            same = rt0 == toks
            ok = same and w2[0] == "ok" and w2[1] == w[1]
            obs = {"reread_equal": same, "rewrite_identical": w2[0] == "ok" and w2[1] == w[1], "reread": _short(rt0 or "?")}
        else:
            obs = {"read": r0[1]}
        if ok:
            ctx.hist("payload_oracle", f"{nm}: round-trips" if why is None else f"{nm}: excluded-by-WF-but-round-trips")
        elif why is not None:
            excluded_log[f"{nm}: {why}"] += 1
            ctx.hist("payload_oracle", f"{nm}: excluded-by-WF:{why}")
            if spec.known(why):
                ctx.fail(spec.known(why), f"{pynm}: {why}",
                         {"class": f"{K.__module__}.{K.__name__}", "kwargs": spec.write_kw(v, pad), "bytes": hx(w[1]), "repr": _short(toks, 1500)},
                         obs, "equal structure (token form) and identical second tobytes()")
        else:
            fail_cls[pynm] += 1
            kind = "read-raises" if r0[0] != "ok" else ("reread-differs" if not obs["reread_equal"] else "rewrite-differs")
            ctx.fail(f"C01/payload/{pynm}/{kind}",
                     f"{pynm}.frombytes(x.tobytes()) is not x / does not re-write identically ({origin} instance)",
                     {"class": f"{K.__module__}.{K.__name__}", "kwargs": spec.write_kw(v, pad), "bytes": hx(w[1]), "repr": _short(toks, 1500)},
                     obs, "equal structure (token form) and identical second tobytes()")
    # ---- error paths: truncated / mutated encodings (outcome class; structure and cursor when accepted)
    pool = [c for c in dec_cases if len(c[6][1]) <= 3000]
    rng.shuffle(pool)
    pool = pool[: (6 if quick else 300)]
    mreqs, mexp = [], []
    for c in pool:
        origin, x, v, pad, rpad, toks, w, after, mpad, mrpad = c[:10]
        for how, bb in mutations(rng, w[1], 4 if quick else 10, offsets=spec.offsets):
            r = py_read(K, bb, 0, **spec.read_kw(v, rpad))
            mreqs.append(("pl3.dec", nm, v, mrpad, hx(bb), 0))
            mexp.append((how, bb, r))
    for (how, bb, r), a in zip(mexp, cc.pbatch(mreqs)):
        ctx.corr_cases += 1
        ctx.count(("pl3-mut", nm, bb), nontrivial=True)
        ctx.hist("payload_mutation_outcome", f"{nm}/{how}:{r[1] if r[0] == 'err' else 'accepted'}")
        if r[0] == "ok":
            try:
                rt = spec.tokens(r[1])
            except (NotRep, skel.NotSkeleton) as e:
                ctx.hist("payload_not_representable", f"{nm} (mutated): {str(e)[:60]}")
                continue
            if a[0] != "ok" or a[1] != rt or int(a[2]) != r[2]:
                ctx.disagree(f"{nm} (mutated bytes): read() structure / cursor != model dec",
                             {"bytes": hx(bb)[:400], "py": _short(rt), "model": _short(a[1]) if len(a) > 1 else a,
                              "py_pos": r[2], "model_pos": a[2] if len(a) > 2 else None})
        elif a[0] != "err" or a[1] != r[1]:
            ctx.disagree(f"{nm} (mutated bytes): exception class of read != model dec",
                         {"bytes": hx(bb)[:400], "py": r[1], "model": a[:2], "mutation": how})
    return len(live), len(mexp)


# ---------------------------------------------------------------------------------------------
# unit 7: image-resource payloads
# ---------------------------------------------------------------------------------------------
def ints(rng, w, n, signed=False):
    m = 256 ** w
    lo, hi = (-(m // 2), m // 2 - 1) if signed else (0, m - 1)
    pool = [lo, hi, 0, 1, lo + 1, hi - 1]
    return [rng.choice(pool) if rng.random() < 0.5 else rng.randint(lo, hi) for _ in range(n)]


class RowSpec(Spec3):
    """a class whose value is a flat row of attributes: `fields(x)` -> the arguments of its write_fmt calls in order"""

    def __init__(self, name, getK, fields, make, bad=(), pyname=None, model=None, excluded=None, offsets=(0, 1, 2, 3, 4, 7, 8)):
        self.name = model or name
        self.pyname = name if model else pyname
        self._getK, self._fields, self._make, self._bad, self._excl, self.offsets = getK, fields, make, bad, excluded, offsets

    def K(self):
        return self._getK()

    def tokens(self, x):
        return " ".join(row(*self._fields(x)))

    def excluded(self, x, pad=None, rpad=None):
        return self._excl(x) if self._excl else None

    def instances(self, rng, quick):
        out = []
        for i in range(6 if quick else 80):
            out.append(("generated", self._make(rng, i)))
        for b in self._bad:
            try:
                out.append(b(rng))
            except Exception:  # noqa  (the constructor's validator rejects the point: nothing to write)
                pass
        return out


class ListSpec(Spec3):
    """a ListElement of plain items: item -> tokens"""
    at_end = True

    def __init__(self, name, getK, item, gen, bad=(), excluded=None, offsets=(0, 1, 2, 3, 4, 5, 8)):
        self.name, self._getK, self._item, self._gen, self._bad, self._excl, self.offsets = name, getK, item, gen, bad, excluded, offsets

    def K(self):
        return self._getK()

    def tokens(self, x):
        return " ".join(t_list(list(x), self._item))

    def excluded(self, x, pad=None, rpad=None):
        return self._excl(x) if self._excl else None

    def instances(self, rng, quick):
        K = self.K()
        out = [("boundary", K([]))]
        for n in ([1, 2, 5] if quick else [1, 2, 3, 5, 8, 40] * 8):
            out.append(("generated", K([self._gen(rng) for _ in range(n)])))
        for b in self._bad:
            out.append(("breaking", K([b])))
        return out


def halftone_fields(x):
    if not is_bool(x.use_accurate) or not is_bool(x.use_printer):
        raise NotRep("flag is not a bool")
    return [fixed(x.freq, 0x10000), x.unit, fixed(x.angle, 0x10000), x.shape, x.use_accurate, x.use_printer]


def gen_halftone(rng):
    H = _IR().HalftoneScreen
    return H(rng.choice([0, 1, 2 ** 32 - 1, rng.randrange(2 ** 32)]) / 0x10000, rng.choice([0, 1, 65535]),
             rng.choice([0, -1, 2 ** 31 - 1, -2 ** 31, rng.randrange(-2 ** 31, 2 ** 31)]) / 0x10000, rng.choice([0, 5, 65535]),
             rng.random() < 0.5, rng.random() < 0.5)


def alpha_channel_fields(x):
    return [x.color_space, x.c1, x.c2, x.c3, x.c4, x.opacity, x.mode]


def gen_alpha_channel(rng, mode=None):
    IR, C = _IR(), _C()
    return IR.AlphaChannel(*ints(rng, 2, 6), mode if mode is not None else rng.choice(list(C.AlphaChannelMode)))


def transfer_tokens(t):
    return [*row(*list(t.curve)), *row(t.override)]


def gen_transfer(rng, n=13):
    return _IR().TransferFunction(ints(rng, 2, n), rng.choice([0, 1, True, False, 65535]))


def url_tokens(u):
    return [*row(u.number, u.id), *t_str(u.name)]


class PairSpec(Spec3):
    """head row + list / tail: tokens given by a function"""

    def __init__(self, name, getK, toks, gen, excluded=None, at_end=False, offsets=(0, 1, 3, 4, 7, 8, 12), pads=None, write_kw=None,
                 inner=None):
        self.name, self._getK, self._toks, self._gen, self._excl, self.at_end, self.offsets = name, getK, toks, gen, excluded, at_end, offsets
        self._pads, self._wkw, self._inner = pads, write_kw, inner

    def inner_classes(self, x):
        return self._inner(x) if self._inner else ()

    def K(self):
        return self._getK()

    def tokens(self, x):
        return " ".join(self._toks(x))

    def contexts(self):
        return self._pads or [(1, 1, None)]

    def write_kw(self, v, pad):
        return self._wkw(v, pad) if self._wkw else {"padding": pad}

    def excluded(self, x, pad=None, rpad=None):
        return self._excl(x) if self._excl else None

    def instances(self, rng, quick):
        return list(self._gen(rng, quick))


def gen_display_info(rng, quick):
    IR = _IR()
    K = IR.DisplayInfo
    out = [("boundary", K(1, [])), ("boundary", K(2 ** 32 - 1, [gen_alpha_channel(rng, m) for m in _C().AlphaChannelMode]))]
    for _ in range(3 if quick else 60):
        out.append(("generated", K(rng.choice([0, 1, 7]), [gen_alpha_channel(rng) for _ in range(rng.choice([1, 2, 5]))])))
    bad = gen_alpha_channel(rng)
    bad.mode = 7
    out.append(("excluded", K(1, [bad])))
    out.append(("breaking", K(2 ** 32, [])))
    bad = gen_alpha_channel(rng)
    bad.c1 = 65536
    out.append(("breaking", K(1, [bad])))
    return out


def display_excluded(x):
    modes = {int(m) for m in _C().AlphaChannelMode}
    return "mode-not-an-AlphaChannelMode" if any(int(a.mode) not in modes for a in x.alpha_channels) else None


def gen_grid(rng, quick):
    K = _IR().GridGuidesInfo
    out = [("boundary", K()), ("boundary", K(2 ** 32 - 1, 0, 2 ** 32 - 1, [(0, 0), (2 ** 32 - 1, 255)]))]
    for _ in range(3 if quick else 60):
        out.append(("generated", K(*ints(rng, 4, 3), [tuple([*ints(rng, 4, 1), *ints(rng, 1, 1)]) for _ in range(rng.choice([0, 1, 3, 9]))])))
    out += [("breaking", K(1, 0, 0, [(0, 256)])), ("breaking", K(1, 0, 0, [(0,)])), ("breaking", K(2 ** 32, 0, 0, []))]
    return out


def gen_url_list(rng, quick):
    IR = _IR()
    K, U = IR.URLList, IR.URLItem
    out = [("boundary", K([])), ("boundary", K([U(0, 0, ""), U(2 ** 32 - 1, 2 ** 32 - 1, "http://x/あ")]))]
    for _ in range(3 if quick else 60):
        out.append(("generated", K([U(*ints(rng, 4, 2), rng.choice(STRINGS)) for _ in range(rng.choice([1, 2, 4]))])))
    out += [("excluded", K([U(1, 2, chr(0xD800) + chr(0xDC00))])), ("breaking", K([U(2 ** 32, 0, "")]))]
    return out


def gen_version_info(rng, quick):
    K = _IR().VersionInfo
    out = [("boundary", K()), ("boundary", K(2 ** 32 - 1, True, "psd-tools 1.9", "あ", 2 ** 32 - 1))]
    for _ in range(3 if quick else 60):
        out.append(("generated", K(*ints(rng, 4, 1), rng.random() < 0.5, rng.choice(STRINGS), rng.choice(STRINGS), *ints(rng, 4, 1))))
    out += [("excluded", K(1, True, chr(0xDBFF) + chr(0xDFFF), "", 1)), ("excluded", K(1, 2, "", "", 1)), ("breaking", K(2 ** 32, True, "", "", 1)),
            ("breaking", K(1, True, "", "", -1))]
    return out


def version_info_tokens(x):
    return [*row(x.version, x.has_composite), *t_str(x.writer), *t_str(x.reader), *row(x.file_version)]


def version_info_excluded(x):
    if not is_bool(x.has_composite) and x.has_composite not in (0, 1):
        return "has_composite-not-a-bool"
    return ustr_bad(x.writer, x.reader)


def print_flags_tokens(x):
    import attr
    vals = list(attr.astuple(x))
    return [*row(*vals[:8]), *t_opt(x.print_flags, lambda v: row(v))]


def print_flags_excluded(x):
    import attr
    vals = [v for v in attr.astuple(x) if v is not None]
    return None if all(is_bool(v) or v in (0, 1) for v in vals) else "flag-not-a-bool"


def gen_print_flags(rng, quick):
    K = _IR().PrintFlags
    out = [("boundary", K()), ("boundary", K(*([True] * 8), True)), ("boundary", K(*([True] * 8), False))]
    for _ in range(4 if quick else 60):
        out.append(("generated", K(*[rng.random() < 0.5 for _ in range(8)], rng.choice([None, True, False]))))
    out.append(("excluded", K(2, 0, 0, 0, 0, 0, 0, 0)))
    return out


def thumbnail_tokens(x):
    return [*row(x.fmt, x.width, x.height, x.row, x.total_size), *row(x.bits, x.planes), t_bytes(x.data)]


def gen_thumbnail(K):
    def go(rng, quick):
        out = [("boundary", K()), ("boundary", K(1, 2 ** 32 - 1, 0, 3, 4, 24, 1, b"\xff\xd8\xff"))]
        for _ in range(3 if quick else 60):
            out.append(("generated", K(*ints(rng, 4, 5), *ints(rng, 2, 2), bytes(rng.randrange(256) for _ in range(rng.choice([0, 1, 7, 64]))))))
        out += [("breaking", K(2 ** 32)), ("breaking", K(bits=65536))]
        return out
    return go


def slice_tokens(s):
    if not isinstance(s.data, (type(None),)) and not hasattr(s.data, "write"):
        raise NotRep("SliceV6.data is neither None nor an element")
    return [*row(s.slice_id, s.group_id, s.origin), *t_opt(s.associated_id, lambda v: row(v)), *t_str(s.name), *row(s.slice_type),
            *row(*list(s.bbox)), *t_str(s.url), *t_str(s.target), *t_str(s.message), *t_str(s.alt_tag), *row(s.cell_is_html),
            *t_str(s.cell_text), *row(s.horizontal_align, s.vertical_align), *row(s.alpha, s.red, s.green, s.blue),
            *t_opt(s.data, desc_block_tokens)]


def slice_excluded(s):
    if (s.associated_id is not None) != (s.origin == 1):
        return "associated-id-does-not-match-origin"
    bad = ustr_bad(s.name, s.url, s.target, s.message, s.alt_tag, s.cell_text)
    if bad:
        return bad
    if not is_bool(s.cell_is_html) and s.cell_is_html not in (0, 1):
        return "cell_is_html-not-a-bool"
    if s.data is not None:
        if bytes(s.data.classID) == b"\x00\x00\x00\x00":
            return "descriptor-with-zero-classID-is-read-as-no-descriptor"
        return desc_excluded(s.data)
    return None


SLICE16_KNOWN = "C01/slices/id16-after-slice-without-data"


def slices_v6_excluded(x):
    for s in x.items:
        why = slice_excluded(s)
        if why:
            return why
    for a, b in zip(x.items, x.items[1:]):
        if a.data is None and b.slice_id == 16:
            return "slice-id-16-after-a-slice-without-descriptor"
    return ustr_bad(x.name)


def gen_slice(rng, sid=None, data=None, origin=None):
    S = _IR().SliceV6
    origin = rng.choice([0, 1, 2]) if origin is None else origin
    s = S(slice_id=rng.choice([0, 1, 15, 17, 2 ** 32 - 1]) if sid is None else sid, group_id=rng.choice([0, 1, 1000, 2 ** 32 - 1]), origin=origin,
          associated_id=(rng.choice([0, 7, 2 ** 32 - 1]) if origin == 1 else None), name=rng.choice(STRINGS), slice_type=rng.choice([0, 1, 2 ** 32 - 1]),
          bbox=ints(rng, 4, 4), url=rng.choice(STRINGS), target=rng.choice(STRINGS), message=rng.choice(STRINGS), alt_tag=rng.choice(STRINGS),
          cell_is_html=rng.random() < 0.5, cell_text=rng.choice(STRINGS), horizontal_align=rng.choice([0, 1, 2 ** 32 - 1]),
          vertical_align=rng.choice([0, 3]), alpha=rng.randrange(256), red=rng.randrange(256), green=rng.randrange(256), blue=rng.randrange(256),
          data=data)
    return s


def gen_block_nonzero(rng):
    while True:
        b = gen_desc_block(rng)
        if bytes(b.classID) != b"\x00\x00\x00\x00":
            return b


def slices_v6_tokens(x):
    return [*row(*list(x.bbox)), *t_str(x.name), *t_list(list(x.items), slice_tokens)]


def gen_slices_v6_values(rng, quick):
    IR = _IR()
    V6 = IR.SlicesV6
    out = [("boundary", V6()), ("boundary", V6([0, 0, 2 ** 32 - 1, 7], "slices", [gen_slice(rng, data=gen_block_nonzero(rng), origin=1)]))]
    for i in range(6 if quick else 150):
        items = []
        for _ in range(rng.choice([1, 2, 3, 5])):
            items.append(gen_slice(rng, data=(gen_block_nonzero(rng) if rng.random() < 0.4 else None)))
        out.append(("generated", V6(ints(rng, 4, 4), rng.choice(STRINGS), items)))
    # the id-16 points: after a slice with a descriptor (fine), after one without (excluded; most survive: the speculative
    # descriptor read fails with ValueError / IOError and is undone)
    out.append(("boundary", V6(items=[gen_slice(rng, data=gen_block_nonzero(rng)), gen_slice(rng, sid=16)])))
    for gid in (0, 1, 3, 1000):
        out.append(("excluded", V6(items=[gen_slice(rng, sid=1), S16(rng, gid), gen_slice(rng, sid=3)])))
    # ... and the one that does not: the next slice reads as a descriptor block (known finding)
    S = IR.SliceV6
    out.append(("excluded", V6(items=[S(slice_id=1), S(slice_id=16, group_id=0, origin=0, name="\x00\x00"), S(slice_id=3)])))
    bad = gen_slice(rng, origin=1)
    bad.associated_id = None
    out.append(("excluded", V6(items=[bad])))
    bad = gen_slice(rng, origin=0)
    bad.associated_id = 5
    out.append(("excluded", V6(items=[bad])))
    zero = gen_desc_block(rng)
    zero.classID = b"\x00\x00\x00\x00"
    out.append(("excluded", V6(items=[gen_slice(rng, data=zero)])))
    out.append(("breaking", V6(items=[gen_slice(rng, sid=2 ** 32)])))
    out.append(("breaking", V6(bbox=[0, 0, 0])))
    return out


def S16(rng, gid):
    s = gen_slice(rng, sid=16, origin=0)
    s.group_id = gid
    return s


class SlicesV6Spec(Spec3):
    name = "SlicesV6"
    at_end = True
    offsets = (0, 15, 16, 19, 20, 24, 28, 32, 36, 40)

    def K(self):
        return _IR().SlicesV6

    def tokens(self, x):
        return " ".join(slices_v6_tokens(x))

    def write_kw(self, v, pad):
        return {}

    def excluded(self, x, pad=None, rpad=None):
        return slices_v6_excluded(x)

    def known(self, why):
        return SLICE16_KNOWN if why == "slice-id-16-after-a-slice-without-descriptor" else None

    def instances(self, rng, quick):
        return gen_slices_v6_values(rng, quick)


class SliceV6Spec(Spec3):
    name = "SliceV6"
    at_end = True
    offsets = (0, 4, 8, 11, 12, 16, 20)

    def K(self):
        return _IR().SliceV6

    def tokens(self, x):
        return " ".join(slice_tokens(x))

    def write_kw(self, v, pad):
        return {}

    def excluded(self, x, pad=None, rpad=None):
        return slice_excluded(x)

    def instances(self, rng, quick):
        out = [("boundary", self.K()())]
        for _ in range(6 if quick else 150):
            out.append(("generated", gen_slice(rng, data=(gen_block_nonzero(rng) if rng.random() < 0.5 else None))))
        return out


class SlicesSpec(Spec3):
    name = "Slices"
    at_end = True
    offsets = (0, 3, 4, 8, 19, 20, 24)

    def K(self):
        return _IR().Slices

    def tokens(self, x):
        IR = _IR()
        if isinstance(x.data, IR.SlicesV6):
            return " ".join([t_nat(x.version), "0", *slices_v6_tokens(x.data)])
        return " ".join([t_nat(x.version), "1", *desc_block_tokens(x.data)])

    def excluded(self, x, pad=None, rpad=None):
        IR = _IR()
        if x.version not in (6, 7, 8):
            return "version-rejected-by-validator"
        if isinstance(x.data, IR.SlicesV6):
            return "version-does-not-match-data" if x.version != 6 else slices_v6_excluded(x.data)
        return "version-does-not-match-data" if x.version == 6 else desc_excluded(x.data)

    def known(self, why):
        return SLICE16_KNOWN if why == "slice-id-16-after-a-slice-without-descriptor" else None

    def instances(self, rng, quick):
        K = self.K()
        out = []
        for origin, v in gen_slices_v6_values(rng, quick)[: (8 if quick else 200)]:
            out.append((origin, K(6, v)))
        for ver in (7, 8):
            for _ in range(2 if quick else 30):
                out.append(("generated", K(ver, gen_desc_block(rng))))
        bad = K(7, gen_desc_block(rng))
        bad.version = 6
        out.append(("excluded", bad))
        bad = K(6, _IR().SlicesV6())
        bad.version = 8
        out.append(("excluded", bad))
        bad = K(6, _IR().SlicesV6())
        bad.version = 5
        out.append(("excluded", bad))
        bad = K(6, _IR().SlicesV6())
        bad.version = 2 ** 32
        out.append(("breaking", bad))
        return out


class DescResourceSpec(Spec3):
    """DescriptorBlock as written by ImageResource.write (padding=1) and read by frombytes"""
    name = "DescriptorResource"
    pyname = "DescriptorBlock"
    offsets = (0, 3, 4, 8, 12, 16)

    def K(self):
        import desc_common as dc
        return dc._D().DescriptorBlock

    def tokens(self, x):
        return " ".join(desc_block_tokens(x))

    def excluded(self, x, pad=None, rpad=None):
        return desc_excluded(x)

    def instances(self, rng, quick):
        return [("generated", gen_desc_block(rng)) for _ in range(4 if quick else 60)]


class PascalStringSpec(Spec3):
    name = "PascalString"
    at_end = True
    offsets = (0, 1, 2)

    def K(self):
        return _IR().PascalString

    def tokens(self, x):
        return mac(x.value)

    def instances(self, rng, quick):
        K = self.K()
        return [("boundary", K(s)) for s in ("", "a", "ab", "Caption é", "x" * 255)] + [("breaking", K("y" * 256))]


def unit7_specs():
    IR = _IR
    C = _C()
    i4, i2, i1 = (lambda r: ints(r, 4, 1)[0]), (lambda r: ints(r, 2, 1)[0]), (lambda r: ints(r, 1, 1)[0])
    specs = [
        ListSpec("AlphaIdentifiers", lambda: IR().AlphaIdentifiers, lambda v: row(v), i4, bad=[2 ** 32, -1]),
        ListSpec("AlphaNamesPascal", lambda: IR().AlphaNamesPascal, lambda s: [mac(s)], lambda r: r.choice(["", "Alpha 1", "é", "x" * 255]),
                 bad=["y" * 256]),
        ListSpec("AlphaNamesUnicode", lambda: IR().AlphaNamesUnicode, t_str, lambda r: r.choice(STRINGS),
                 excluded=lambda x: ustr_bad(*list(x))),
        RowSpec("AlphaChannel", lambda: IR().AlphaChannel, alpha_channel_fields, lambda r, i: gen_alpha_channel(r),
                bad=[lambda r: ("excluded", _mut(gen_alpha_channel(r), "mode", 9)), lambda r: ("breaking", _mut(gen_alpha_channel(r), "opacity", 65536))],
                excluded=lambda x: None if int(x.mode) in {int(m) for m in C.AlphaChannelMode} else "mode-not-an-AlphaChannelMode"),
        PairSpec("DisplayInfo", lambda: IR().DisplayInfo, lambda x: [*row(x.version), *t_list(list(x.alpha_channels), lambda a: row(*alpha_channel_fields(a)))],
                 gen_display_info, excluded=display_excluded, at_end=True, offsets=(0, 3, 4, 16, 17)),
        RowSpec("Byte", lambda: IR().Byte, lambda x: [x.value], lambda r, i: IR().Byte(i1(r)), bad=[lambda r: ("breaking", IR().Byte(256))]),
        PairSpec("GridGuidesInfo", lambda: IR().GridGuidesInfo,
                 lambda x: [*row(x.version, x.horizontal, x.vertical), *t_list(list(x.data), lambda it: row(*tuple(it)))], gen_grid,
                 offsets=(0, 4, 8, 12, 15, 16, 20, 21)),
        RowSpec("HalftoneScreen", lambda: IR().HalftoneScreen, halftone_fields, lambda r, i: gen_halftone(r),
                bad=[lambda r: ("breaking", _mut(gen_halftone(r), "unit", 65536)), lambda r: ("breaking", _mut(gen_halftone(r), "freq", -1.0))],
                offsets=(0, 4, 6, 10, 12, 16, 17)),
        ListSpec("HalftoneScreens", lambda: IR().HalftoneScreens, lambda h: row(*halftone_fields(h)), gen_halftone, offsets=(0, 4, 17, 18, 35)),
        RowSpec("Integer", lambda: IR().Integer, lambda x: [x.value], lambda r, i: IR().Integer(ints(r, 4, 1, signed=True)[0]),
                bad=[lambda r: ("breaking", IR().Integer(2 ** 31))]),
        ListSpec("LayerGroupEnabledIDs", lambda: IR().LayerGroupEnabledIDs, lambda v: row(v), i1, bad=[256]),
        ListSpec("LayerGroupInfo", lambda: IR().LayerGroupInfo, lambda v: row(v), i2, bad=[65536]),
        ListSpec("LayerSelectionIDs", lambda: IR().LayerSelectionIDs, lambda v: row(v), i4, bad=[2 ** 32]),
        RowSpec("ShortInteger", lambda: IR().ShortInteger, lambda x: [x.value], lambda r, i: IR().ShortInteger(i2(r)),
                bad=[lambda r: ("breaking", IR().ShortInteger(65536))]),
        PascalStringSpec(),
        RowSpec("PixelAspectRatio", lambda: IR().PixelAspectRatio, lambda x: [x.version, f64(x.value)],
                lambda r, i: IR().PixelAspectRatio(float_of(r.randrange(2 ** 64)) if i % 2 else r.choice([1.0, 0.0, 2.5]), i4(r)),
                bad=[lambda r: ("breaking", IR().PixelAspectRatio(1.0, 2 ** 32))], offsets=(0, 3, 4, 11)),
        PairSpec("PrintFlags", lambda: IR().PrintFlags, print_flags_tokens, gen_print_flags, excluded=print_flags_excluded, at_end=True,
                 offsets=(0, 7, 8)),
        RowSpec("PrintFlagsInfo", lambda: IR().PrintFlagsInfo, lambda x: [x.version, x.center_crop, x.bleed_width_value, x.bleed_width_scale],
                lambda r, i: IR().PrintFlagsInfo(i2(r), i1(r), i4(r), i2(r)), bad=[lambda r: ("breaking", IR().PrintFlagsInfo(0, 256, 0, 0))],
                offsets=(0, 2, 3, 4, 8, 9)),
        RowSpec("PrintScale", lambda: IR().PrintScale, lambda x: [x.style, f32(x.x), f32(x.y), f32(x.scale)],
                lambda r, i: IR().PrintScale(list(C.PrintScaleStyle)[i % 3], *[f32_of(r.randrange(0x7F800000)) * r.choice([1, -1]) for _ in range(3)]),
                offsets=(0, 1, 2, 6, 10, 13)),
        RowSpec("ResoulutionInfo", lambda: IR().ResoulutionInfo,
                lambda x: [x.horizontal, x.horizontal_unit, x.width_unit, x.vertical, x.vertical_unit, x.height_unit],
                lambda r, i: IR().ResoulutionInfo(i4(r), i2(r), i2(r), i4(r), i2(r), i2(r)),
                bad=[lambda r: ("breaking", IR().ResoulutionInfo(2 ** 32))], offsets=(0, 4, 6, 8, 12, 15)),
        SliceV6Spec(), SlicesV6Spec(), SlicesSpec(),
        PairSpec("ThumbnailResource", lambda: IR().ThumbnailResource, thumbnail_tokens, gen_thumbnail(IR().ThumbnailResource),
                 offsets=(0, 4, 20, 23, 24, 27, 28)),
        PairSpec("ThumbnailResourceV4", lambda: IR().ThumbnailResourceV4, thumbnail_tokens, gen_thumbnail(IR().ThumbnailResourceV4),
                 offsets=(0, 4, 20, 23, 24, 27, 28)),
        PairSpec("TransferFunction", lambda: IR().TransferFunction, transfer_tokens,
                 lambda r, q: [("generated", gen_transfer(r)) for _ in range(4 if q else 60)] + [("breaking", gen_transfer(r, 12)), ("breaking", gen_transfer(r, 14))],
                 offsets=(0, 2, 25, 26, 27)),
        ListSpec("TransferFunctions", lambda: IR().TransferFunctions, transfer_tokens, gen_transfer, offsets=(0, 26, 27, 28, 55)),
        PairSpec("URLItem", lambda: IR().URLItem, url_tokens,
                 lambda r, q: [("generated", IR().URLItem(*ints(r, 4, 2), r.choice(STRINGS))) for _ in range(4 if q else 60)],
                 excluded=lambda u: ustr_bad(u.name), offsets=(0, 4, 8, 11, 12), write_kw=lambda v, pad: {}),
        PairSpec("URLList", lambda: IR().URLList, lambda x: t_list(list(x), url_tokens), gen_url_list,
                 excluded=lambda x: ustr_bad(*[u.name for u in x]), offsets=(0, 3, 4, 8, 12, 15, 16)),
        PairSpec("VersionInfo", lambda: IR().VersionInfo, version_info_tokens, gen_version_info, excluded=version_info_excluded,
                 offsets=(0, 4, 5, 8, 9, 12)),
        DescResourceSpec(),
    ]
    return specs


def _mut(x, field, value):
    setattr(x, field, value)
    return x


UNIT7_CLASSES = ["AlphaIdentifiers", "AlphaNamesPascal", "AlphaNamesUnicode", "AlphaChannel", "DisplayInfo", "Byte", "GridGuidesInfo",
                 "HalftoneScreen", "HalftoneScreens", "Integer", "LayerGroupEnabledIDs", "LayerGroupInfo", "LayerSelectionIDs", "ShortInteger",
                 "PascalString", "PixelAspectRatio", "PrintFlags", "PrintFlagsInfo", "PrintScale", "ResoulutionInfo", "SliceV6", "SlicesV6",
                 "Slices", "ThumbnailResource", "ThumbnailResourceV4", "TransferFunction", "TransferFunctions", "URLItem", "URLList", "VersionInfo"]



# ---------------------------------------------------------------------------------------------
# unit 8: adjustments
# ---------------------------------------------------------------------------------------------
def sints(rng, w, n):
    return ints(rng, w, n, signed=True)


def gen_brightness(rng, quick):
    K = _ADJ().BrightnessContrast
    out = [("boundary", K()), ("boundary", K(65535, 65535, 65535, 255))]
    out += [("generated", K(*ints(rng, 2, 3), *ints(rng, 1, 1))) for _ in range(4 if quick else 60)]
    out += [("breaking", K(65536, 0, 0, 0)), ("breaking", K(0, 0, 0, 256)), ("breaking", K(-1, 0, 0, 0))]
    return out


def color_balance_tokens(x):
    return [*row(*tuple(x.shadows)), *row(*tuple(x.midtones)), *row(*tuple(x.highlights)), *row(x.luminosity)]


def gen_color_balance(rng, quick):
    K = _ADJ().ColorBalance
    out = [("boundary", K()), ("boundary", K((-32768, 32767, 0), (1, -1, 0), (0, 0, 0), True))]
    out += [("generated", K(tuple(sints(rng, 2, 3)), tuple(sints(rng, 2, 3)), tuple(sints(rng, 2, 3)), rng.choice([0, 1, True, False, 255])))
            for _ in range(4 if quick else 60)]
    out += [("breaking", K((0, 0), (0, 0, 0), (0, 0, 0))), ("breaking", K((0, 0, 32768), (0, 0, 0), (0, 0, 0))), ("breaking", K(luminosity=256))]
    return out


def color_lookup_tokens(x):
    import desc_common as dc
    try:
        return [dc.block_tokens(x, 2)]
    except dc.NotRep as e:
        raise NotRep(str(e))


def gen_color_lookup(rng, quick):
    K = _ADJ().ColorLookup
    out = []
    for _ in range(4 if quick else 80):
        b = gen_desc_block(rng, 2)
        out.append(("generated", K(b._items, name=b.name, classID=b.classID, version=rng.choice([0, 1, 65535]))))
    b = gen_desc_block(rng, 2)
    out.append(("breaking", K(b._items, name=b.name, classID=b.classID, version=65536)))
    return out


def channel_mixer_tokens(x):
    return [*row(x.version, x.monochrome), *row(*list(x.data)), t_bytes(x.unknown)]


def gen_channel_mixer(rng, quick):
    K = _ADJ().ChannelMixer
    out = [("boundary", K(1, 0, [0] * 5)), ("boundary", K(1, 65535, [-32768, 32767, 0, 1, -1], b"\x00\x01\x02"))]
    out += [("generated", K(1, *ints(rng, 2, 1), sints(rng, 2, 5), bytes(rng.randrange(256) for _ in range(rng.choice([0, 0, 1, 4, 20])))))
            for _ in range(4 if quick else 60)]
    bad = K(1, 0, [0] * 5)
    bad.version = 2
    out += [("excluded", bad), ("breaking", K(1, 0, [0] * 4)), ("breaking", K(1, 0, [0, 0, 0, 0, 32768])), ("breaking", K(1, 65536, [0] * 5))]
    return out


def curve_points_tokens(points):
    points = list(points)
    if len(points) > 0 and isinstance(points[0], int):
        return ["0", *row(*points)]
    return ["1", *t_list(points, lambda p: row(*tuple(p)))]


def curves_tokens(x):
    if not is_bool(x.is_map):
        raise NotRep("is_map is not a bool")
    data = list(x.data)
    if x.is_map:
        d = ["0", *t_list(data, lambda m: row(*list(m)))]
    else:
        d = ["1", *t_list(data, lambda c: t_list(list(c), lambda p: row(*tuple(p))))]

    def marker(m):
        return [t_nat(m.version), *t_list(list(m), lambda it: [*row(it.channel_id), *curve_points_tokens(it.points)])]
    return ["1" if x.is_map else "0", t_nat(x.version), t_nat(x.count_map), *d, *t_opt(x.extra, marker)]


def curves_excluded(x):
    if x.version not in (1, 4):
        return "version-not-1-or-4"
    n = bin(x.count_map).count("1") if x.version == 1 else x.count_map
    if len(x.data) != n:
        return "count-map-does-not-match-data"
    if not x.is_map and any(not (2 <= len(c) <= 19) for c in x.data):
        return "curve-point-count-outside-2..19"
    if x.extra is not None:
        if x.version != 1:
            return "extra-marker-outside-version-1"
        if x.extra.version not in (3, 4):
            return "marker-version-rejected-by-validator"
        for it in x.extra:
            flat = len(it.points) > 0 and isinstance(it.points[0], int)
            if flat != bool(x.is_map):
                return "marker-item-shape-does-not-match-is_map"
    return None


def gen_curve(rng, n=None):
    n = rng.choice([2, 3, 19]) if n is None else n
    return [tuple(ints(rng, 2, 2)) for _ in range(n)]


def gen_marker(rng, is_map, nitems=None):
    A = _ADJ()
    items = []
    for _ in range(rng.choice([0, 1, 3]) if nitems is None else nitems):
        items.append(A.CurvesExtraItem(ints(rng, 2, 1)[0], ints(rng, 1, 256) if is_map else gen_curve(rng, rng.choice([0, 1, 2, 5]))))
    return A.CurvesExtraMarker(items=items, version=rng.choice([3, 4]))


def gen_curves(rng, quick):
    A = _ADJ()
    K = A.Curves
    out = []
    for i in range(10 if quick else 200):
        is_map = i % 2 == 1
        version = [1, 4][(i // 2) % 2]
        n = rng.choice([0, 1, 2, 3])
        if version == 1:
            bits = rng.sample(range(32), n)
            count_map = sum(1 << b for b in bits)
        else:
            count_map = n
        data = [ints(rng, 1, 256) for _ in range(n)] if is_map else [gen_curve(rng) for _ in range(n)]
        extra = gen_marker(rng, is_map) if (version == 1 and rng.random() < 0.6) else None
        out.append(("generated", K(is_map, version, count_map, data, extra)))
    out.append(("boundary", K(False, 1, 2 ** 32 - 1, [gen_curve(rng, 2) for _ in range(32)], None)))
    out += [("excluded", K(False, 4, 1, [gen_curve(rng)], gen_marker(rng, False))),
            ("excluded", K(False, 1, 3, [gen_curve(rng)], None)),
            ("excluded", K(False, 1, 1, [gen_curve(rng, 1)], None)),
            ("excluded", K(False, 1, 1, [gen_curve(rng, 20)], None)),
            ("excluded", K(False, 2, 1, [gen_curve(rng)], None)),
            ("excluded", K(True, 1, 1, [ints(rng, 1, 256)], gen_marker(rng, False, 2))),
            ("excluded", K(False, 1, 1, [gen_curve(rng)], gen_marker(rng, True, 1))),
            ("breaking", K(False, 1, 2 ** 32, [], None)), ("breaking", K(True, 4, 1, [ints(rng, 1, 255)], None)),
            ("breaking", K(False, 4, 1, [[(0, 65536), (1, 1)]], None))]
    m = gen_marker(rng, False)
    m.version = 5
    out.append(("excluded", K(False, 1, 1, [gen_curve(rng)], m)))
    return out


def gradient_tokens(x):
    return [*row(x.version, x.is_reversed, x.is_dithered), t_bytes(x.method), *t_str(x.name),
            *t_list(list(x.color_stops), lambda s: row(s.location, s.midpoint, s.mode, *tuple(s.color))),
            *t_list(list(x.transparency_stops), lambda s: row(s.location, s.midpoint, s.opacity)),
            *row(x.expansion, x.interpolation, x.length, x.mode), *row(x.random_seed, x.show_transparency, x.use_vector_color),
            *row(x.roughness, x.color_model), *row(*list(x.minimum_color)), *row(*list(x.maximum_color)), "0"]


def gradient_excluded(x):
    methods = (b"Gcls", b"Lnr ", b"Perc", b"Smoo")
    if x.version not in (1, 3):
        return "version-rejected-by-validator"
    if x.version == 3 and len(x.method) != 4:
        return "4s-field-not-4-bytes"
    if x.version != 3 and x.method != b"Gcls":
        return "method-is-stored-in-version-3-only"
    if x.method not in methods or x.expansion != 2 or x.length != 32:
        return "rejected-by-validator"
    return ustr_bad(x.name)


def gen_gradient(rng, quick):
    A = _ADJ()
    K = A.GradientMap
    out = [("boundary", K(minimum_color=[0] * 4, maximum_color=[65535] * 4))]
    for i in range(8 if quick else 150):
        version = [1, 3][i % 2]
        out.append(("generated", K(
            version, *ints(rng, 1, 2), rng.choice(STRINGS), (rng.choice([b"Gcls", b"Lnr ", b"Perc", b"Smoo"]) if version == 3 else b"Gcls"),
            [A.ColorStop(*ints(rng, 4, 2), *ints(rng, 2, 1), tuple(ints(rng, 2, 4))) for _ in range(rng.choice([0, 1, 2, 5]))],
            [A.TransparencyStop(*ints(rng, 4, 2), *ints(rng, 2, 1)) for _ in range(rng.choice([0, 1, 2, 5]))],
            2, *ints(rng, 2, 1), 32, *ints(rng, 2, 1), *ints(rng, 4, 1), *ints(rng, 2, 2), *ints(rng, 4, 1), *ints(rng, 2, 1),
            ints(rng, 2, 4), ints(rng, 2, 4))))

    def mut(field, value, version=1):
        g = K(version=version, minimum_color=[0] * 4, maximum_color=[0] * 4)
        setattr(g, field, value)
        return g
    out += [("excluded", mut("method", b"Lnr ", 1)), ("excluded", mut("method", b"abcd", 3)), ("excluded", mut("expansion", 3)),
            ("excluded", mut("length", 31)), ("excluded", mut("version", 2)), ("excluded", mut("name", chr(0xD800) + chr(0xDC00))),
            ("breaking", mut("minimum_color", [0] * 3)), ("breaking", mut("roughness", 2 ** 32)), ("breaking", mut("is_reversed", 256))]
    return out


def gen_exposure(rng, quick):
    K = _ADJ().Exposure
    out = [("boundary", K()), ("boundary", K(65535, 1.5, -0.25, 1e-3 if False else 0.5))]
    out += [("generated", K(*ints(rng, 2, 1), *[f32_of(rng.randrange(0x7F800000)) * rng.choice([1, -1]) for _ in range(3)])) for _ in range(4 if quick else 60)]
    out += [("breaking", K(65536, 0.0, 0.0, 0.0))]
    return out


def hue_tokens(x):
    return [*row(x.version, x.enable), *row(*tuple(x.colorization)), *row(*tuple(x.master)),
            *t_list(list(x.items), lambda it: [*row(*tuple(it[0])), *row(*tuple(it[1]))])]


def gen_hue(rng, quick):
    K = _ADJ().HueSaturation

    def items(n=6):
        return [[tuple(sints(rng, 2, 4)), tuple(sints(rng, 2, 3))] for _ in range(n)]
    out = [("boundary", K(2, 1, (0, 0, 0), (0, 0, 0), items()))]
    out += [("generated", K(2, *ints(rng, 1, 1), tuple(sints(rng, 2, 3)), tuple(sints(rng, 2, 3)), items())) for _ in range(4 if quick else 60)]
    out += [("excluded", K()), ("excluded", K(2, 1, (0, 0, 0), (0, 0, 0), items(5))), ("excluded", K(2, 1, (0, 0, 0), (0, 0, 0), items(7))),
            ("excluded", K(3, 1, (0, 0, 0), (0, 0, 0), items())), ("breaking", K(2, 256, (0, 0, 0), (0, 0, 0), items())),
            ("breaking", K(2, 1, (0, 0), (0, 0, 0), items()))]
    return out


def levels_tokens(x):
    items = list(x)
    if len(items) < 29:
        raise NotRep("fewer than 29 records: the writer raises IndexError (outside the model)")
    return [t_nat(x.version), *t_opt(x.extra_version, lambda v: [t_nat(v)]),
            *t_list(items, lambda r: row(r.input_floor, r.input_ceiling, r.output_floor, r.output_ceiling, r.gamma))]


def levels_excluded(x):
    if x.version != 2:
        return "version-rejected-by-validator"
    if x.extra_version is None:
        return None if len(x) == 29 else "records-beyond-29-without-the-trailer"
    return None if x.extra_version == 3 else "extra-version-not-3"


def gen_levels(rng, quick):
    A = _ADJ()
    K, R = A.Levels, A.LevelRecord

    def recs(n):
        return [R(*ints(rng, 2, 5)) for _ in range(n)]
    out = [("boundary", K(recs(29), 2, None)), ("boundary", K(recs(29), 2, 3)), ("boundary", K(recs(30), 2, 3))]
    for n in ([29, 31, 33, 60] if quick else [29, 30, 31, 32, 33, 40, 60, 100] * 6):
        out.append(("generated", K(recs(n), 2, 3)))
        out.append(("generated", K(recs(29), 2, None)))
    out += [("excluded", K(recs(30), 2, None)), ("excluded", K(recs(45), 2, None)), ("excluded", K(recs(30), 2, 4)), ("excluded", K(recs(29), 2, 0)),
            ("breaking", K(recs(29), 2, 65536))]
    bad = recs(29)
    bad[3].gamma = 65536
    out.append(("breaking", K(bad, 2, None)))
    return out


def photo_tokens(x):
    if x.version == 3 and x.xyz is None:
        raise NotRep("xyz is None in version 3: the writer raises TypeError (outside the model)")
    if x.version != 3 and (x.color_space is None or x.color_components is None):
        raise NotRep("colour is None in version 2: the writer raises TypeError (outside the model)")
    xyz = row(*tuple(x.xyz)) if x.xyz is not None else ["0"]
    if x.color_space is None and x.color_components is None:
        col = ["0"]
    elif x.color_space is None or x.color_components is None:
        raise NotRep("colour space without components")
    else:
        col = row(x.color_space, *tuple(x.color_components))
    return [t_nat(x.version), *xyz, *col, *row(x.density, x.luminosity)]


def photo_excluded(x):
    if x.version not in (2, 3):
        return "version-rejected-by-validator"
    if x.version == 3:
        return None if (x.color_space is None and x.color_components is None) else "colour-is-not-stored-in-version-3"
    return None if x.xyz is None else "xyz-is-not-stored-in-version-2"


def gen_photo(rng, quick):
    K = _ADJ().PhotoFilter
    out = []
    for i in range(6 if quick else 80):
        if i % 2:
            out.append(("generated", K(3, tuple(ints(rng, 4, 3)), None, None, *ints(rng, 4, 1), *ints(rng, 1, 1))))
        else:
            out.append(("generated", K(2, None, *ints(rng, 2, 1), tuple(ints(rng, 2, 4)), *ints(rng, 4, 1), *ints(rng, 1, 1))))
    out += [("excluded", K(2, (0, 0, 0), 1, (0, 0, 0, 0), 5, 1)), ("excluded", K(3, (1, 2, 3), 1, (0, 0, 0, 0), 5, 1)),
            ("breaking", K(3, (1, 2), None, None, 5, 1)), ("breaking", K(2, None, 65536, (0, 0, 0, 0), 5, 1)), ("breaking", K(3, (1, 2, 3), None, None, 5, 256))]
    return out


def gen_selective(rng, quick):
    K = _ADJ().SelectiveColor
    out = [("boundary", K(1, 0, [(0, 0, 0, 0)] * 10))]
    out += [("generated", K(1, *ints(rng, 2, 1), [tuple(sints(rng, 2, 4)) for _ in range(10)])) for _ in range(4 if quick else 60)]
    bad = K(1, 0, [(0, 0, 0, 0)] * 10)
    bad.version = 2
    out += [("excluded", K()), ("excluded", K(1, 0, [(0, 0, 0, 0)] * 9)), ("excluded", K(1, 0, [(0, 0, 0, 0)] * 11)), ("excluded", bad),
            ("breaking", K(1, 0, [(0, 0, 0)] * 10)), ("breaking", K(1, 65536, [(0, 0, 0, 0)] * 10))]
    return out


def unit8_specs():
    A = _ADJ
    no_kw = lambda v, pad: {}
    return [
        PairSpec("BrightnessContrast", lambda: A().BrightnessContrast, lambda x: row(x.brightness, x.contrast, x.mean, x.lab_only), gen_brightness,
                 offsets=(0, 2, 4, 6, 7)),
        PairSpec("ColorBalance", lambda: A().ColorBalance, color_balance_tokens, gen_color_balance, offsets=(0, 6, 12, 18, 19)),
        PairSpec("ColorLookup", lambda: A().ColorLookup, color_lookup_tokens, gen_color_lookup, excluded=lambda x: desc_excluded(x),
                 pads=[(1, 1, None), (1, 4, None)], offsets=(0, 1, 2, 5, 6, 10, 14)),
        PairSpec("ChannelMixer", lambda: A().ChannelMixer, channel_mixer_tokens, gen_channel_mixer,
                 excluded=lambda x: None if x.version == 1 else "version-rejected-by-validator", at_end=True, offsets=(0, 2, 4, 13, 14)),
        PairSpec("Curves", lambda: A().Curves, curves_tokens, gen_curves, excluded=curves_excluded, at_end=True,
                 offsets=(0, 1, 3, 6, 7, 9, 11, 13, 17)),
        PairSpec("GradientMap", lambda: A().GradientMap, gradient_tokens, gen_gradient, excluded=gradient_excluded,
                 offsets=(0, 2, 4, 8, 12, 14, 16)),
        PairSpec("ColorStop", lambda: A().ColorStop, lambda s: row(s.location, s.midpoint, s.mode, *tuple(s.color)),
                 lambda r, q: [("generated", A().ColorStop(*ints(r, 4, 2), *ints(r, 2, 1), tuple(ints(r, 2, 4)))) for _ in range(4 if q else 60)]
                 + [("breaking", A().ColorStop(0, 0, 0, (0, 0, 0)))], write_kw=no_kw, offsets=(0, 4, 8, 10, 18, 19)),
        PairSpec("TransparencyStop", lambda: A().TransparencyStop, lambda s: row(s.location, s.midpoint, s.opacity),
                 lambda r, q: [("generated", A().TransparencyStop(*ints(r, 4, 2), *ints(r, 2, 1))) for _ in range(4 if q else 60)]
                 + [("breaking", A().TransparencyStop(0, 0, 65536))], write_kw=no_kw, offsets=(0, 4, 8, 9)),
        PairSpec("Exposure", lambda: A().Exposure, lambda x: row(x.version, f32(x.exposure), f32(x.offset), f32(x.gamma)), gen_exposure,
                 pads=[(1, 1, None), (1, 4, None)], offsets=(0, 2, 6, 10, 13)),
        PairSpec("HueSaturation", lambda: A().HueSaturation, hue_tokens, gen_hue,
                 excluded=lambda x: ("version-not-2" if x.version != 2 else (None if len(x.items) == 6 else "not-six-items")),
                 offsets=(0, 2, 3, 4, 10, 16, 24, 30)),
        PairSpec("Levels", lambda: A().Levels, levels_tokens, gen_levels, excluded=levels_excluded, at_end=True,
                 offsets=(0, 2, 12, 290, 291, 292, 296, 298, 300)),
        PairSpec("LevelRecord", lambda: A().LevelRecord, lambda r: row(r.input_floor, r.input_ceiling, r.output_floor, r.output_ceiling, r.gamma),
                 lambda r, q: [("generated", A().LevelRecord(*ints(r, 2, 5))) for _ in range(4 if q else 60)] + [("breaking", A().LevelRecord(65536))],
                 write_kw=no_kw, offsets=(0, 2, 9)),
        PairSpec("PhotoFilter", lambda: A().PhotoFilter, photo_tokens, gen_photo, excluded=photo_excluded, offsets=(0, 2, 4, 12, 14, 17, 18)),
        PairSpec("SelectiveColor", lambda: A().SelectiveColor, lambda x: [*row(x.version, x.method), *t_list(list(x.data), lambda p: row(*tuple(p)))],
                 gen_selective, excluded=lambda x: ("version-rejected-by-validator" if x.version != 1 else (None if len(x.data) == 10 else "not-ten-plates")),
                 offsets=(0, 2, 4, 12, 83)),
    ]


UNIT8_CLASSES = ["BrightnessContrast", "ColorBalance", "ColorLookup", "ChannelMixer", "Curves", "CurvesExtraMarker", "CurvesExtraItem",
                 "GradientMap", "ColorStop", "TransparencyStop", "Exposure", "HueSaturation", "Levels", "LevelRecord", "PhotoFilter",
                 "SelectiveColor"]



# ---------------------------------------------------------------------------------------------
# unit 9: vector data
# ---------------------------------------------------------------------------------------------
FP = 0x01000000


def path_item_tokens(it):
    nm = type(it).__name__
    if nm == "PathFillRule":
        return ["0"]
    if nm == "InitialFillRule":
        return ["1", *row(it.value)]
    if nm == "ClipboardRecord":
        return ["2", *row(*[fixed(v, FP) for v in (it.top, it.left, it.bottom, it.right, it.resolution)])]
    sel = getattr(type(it), "selector", None)
    if sel is None:
        raise NotRep("path record of class %s has no selector (not registered)" % nm)
    if nm in ("ClosedKnotLinked", "ClosedKnotUnlinked", "OpenKnotLinked", "OpenKnotUnlinked"):
        vals = tuple(it.preceding) + tuple(it.anchor) + tuple(it.leaving)
        return ["3", t_nat(sel), *row(*[fixed(v, FP) for v in vals])]
    if nm in ("ClosedPath", "OpenPath"):
        return ["4", t_nat(sel), *row(it.operation, it._unknown1, it._unknown2, it.index, it._unknown3), *t_list(list(it), path_item_tokens)]
    raise NotRep("not a path record: " + nm)


def path_record_classes(items):
    """the record classes (and their bases Subpath / Knot) that occur in a path, at any depth: each is exercised by the case"""
    out = set()
    for it in items:
        nm = type(it).__name__
        out.add(nm)
        if nm in ("ClosedPath", "OpenPath"):
            out.add("Subpath")
            out |= path_record_classes(list(it))
        elif nm in ("ClosedKnotLinked", "ClosedKnotUnlinked", "OpenKnotLinked", "OpenKnotUnlinked"):
            out.add("Knot")
    return out


def gen_knot(rng, K=None):
    V = _VEC()
    K = K or rng.choice([V.ClosedKnotLinked, V.ClosedKnotUnlinked, V.OpenKnotLinked, V.OpenKnotUnlinked])
    pt = lambda: tuple(v / FP for v in sints(rng, 4, 2))
    return K(pt(), pt(), pt())


def gen_subpath(rng, n=None, nested=False):
    V = _VEC()
    K = rng.choice([V.ClosedPath, V.OpenPath])
    items = [gen_knot(rng) for _ in range(rng.choice([0, 1, 3, 4]) if n is None else n)]
    if nested:
        items.insert(rng.randrange(len(items) + 1), gen_subpath(rng, 1))
        items.append(V.PathFillRule())
    return K(items, operation=sints(rng, 2, 1)[0], unknown1=ints(rng, 2, 1)[0], unknown2=ints(rng, 4, 1)[0], index=ints(rng, 4, 1)[0],
             unknown3=bytes(rng.randrange(256) for _ in range(10)))


def gen_path_items(rng, n=None):
    V = _VEC()
    out = []
    for _ in range(rng.choice([0, 1, 2, 4]) if n is None else n):
        c = rng.random()
        if c < 0.15:
            out.append(V.PathFillRule())
        elif c < 0.3:
            out.append(V.InitialFillRule(ints(rng, 2, 1)[0]))
        elif c < 0.4:
            out.append(V.ClipboardRecord(*[v / FP for v in sints(rng, 4, 5)]))
        elif c < 0.5:
            out.append(gen_knot(rng))
        else:
            out.append(gen_subpath(rng, nested=rng.random() < 0.15))
    return out


def gen_paths(rng, quick):
    V = _VEC()
    K = V.Path
    out = [("boundary", K([])), ("boundary", K([V.PathFillRule(), V.InitialFillRule(1), gen_subpath(rng, 4)])),
           ("boundary", K([gen_subpath(rng, 2, nested=True)]))]
    out += [("generated", K(gen_path_items(rng))) for _ in range(8 if quick else 150)]
    bad = gen_subpath(rng, 1)
    bad._unknown3 = b"\x01\x02"
    out += [("excluded", K([bad])), ("breaking", K([V.InitialFillRule(65536)])), ("breaking", K([V.ClipboardRecord(128.0, 0, 0, 0, 0)]))]
    bad = gen_subpath(rng, 1)
    bad.operation = 32768
    out.append(("breaking", K([bad])))
    return out


def path_excluded(items):
    for it in items:
        if type(it).__name__ in ("ClosedPath", "OpenPath"):
            if len(it._unknown3) != 10:
                return "10s-field-not-10-bytes"
            why = path_excluded(list(it))
            if why:
                return why
    return None


def vms_tokens(x):
    return [*row(x.version, x.flags), *t_list(list(x.path), path_item_tokens)]


def gen_vms(rng, quick):
    V = _VEC()
    K = V.VectorMaskSetting
    out = [("boundary", K(3, 0, V.Path([]))), ("boundary", K(3, 2 ** 32 - 1, V.Path([V.PathFillRule(), V.InitialFillRule(0), gen_subpath(rng, 3)])))]
    out += [("generated", K(3, rng.choice([0, 1, 2, 4, 7]), V.Path(gen_path_items(rng)))) for _ in range(6 if quick else 100)]
    out += [("excluded", K(2, 0, V.Path([]))), ("breaking", K(3, 2 ** 32, V.Path([])))]
    return out


def vscs_tokens(x):
    import desc_common as dc
    try:
        return [t_bytes(x.key), dc.block_tokens(x, 1)]
    except dc.NotRep as e:
        raise NotRep(str(e))


def gen_vscs(rng, quick):
    K = _VEC().VectorStrokeContentSetting
    out = []
    for _ in range(6 if quick else 100):
        b = gen_desc_block(rng)
        out.append(("generated", K(b._items, name=b.name, classID=b.classID, key=rng.choice([b"\x00\x00\x00\x00", b"vscg", b"SoCo"]),
                                   version=rng.choice([0, 1, 16, 2 ** 32 - 1]))))
    b = gen_desc_block(rng)
    out.append(("excluded", K(b._items, name=b.name, classID=b.classID, key=b"ab", version=1)))
    out.append(("breaking", K(b._items, name=b.name, classID=b.classID, key=b"vscg", version=2 ** 32)))
    return out


def unit9_specs():
    V = _VEC
    return [
        PairSpec("Path", lambda: V().Path, lambda x: t_list(list(x), path_item_tokens), gen_paths, excluded=lambda x: path_excluded(list(x)),
                 at_end=True, pads=[(1, 4, None), (1, 1, None)], offsets=(0, 1, 2, 4, 25, 26, 27, 28, 52),
                 inner=lambda x: path_record_classes(list(x))),
        PairSpec("VectorMaskSetting", lambda: V().VectorMaskSetting, vms_tokens, gen_vms,
                 excluded=lambda x: ("version-not-3" if x.version != 3 else path_excluded(list(x.path))), at_end=True,
                 offsets=(0, 3, 4, 7, 8, 9, 10, 33, 34), inner=lambda x: path_record_classes(list(x.path)) | {"Path"}),
        PairSpec("VectorStrokeContentSetting", lambda: V().VectorStrokeContentSetting, vscs_tokens, gen_vscs,
                 excluded=lambda x: ("4s-field-not-4-bytes" if len(x.key) != 4 else desc_excluded(x)),
                 pads=[(1, 4, None), (1, 1, None)], offsets=(0, 3, 4, 7, 8, 12, 16)),
    ]


UNIT9_CLASSES = ["Path", "Subpath", "Knot", "ClosedPath", "OpenPath", "ClosedKnotLinked", "ClosedKnotUnlinked", "OpenKnotLinked",
                 "OpenKnotUnlinked", "PathFillRule", "ClipboardRecord", "InitialFillRule", "VectorMaskSetting", "VectorStrokeContentSetting"]


# ---------------------------------------------------------------------------------------------
# unit 10: filter effects
# ---------------------------------------------------------------------------------------------
def fe_channel_tokens(c):
    if c.compression is None:
        if c.data not in (b"", None):
            raise NotRep("channel data without a compression (not stored)")
        return [t_nat(c.is_written), "0"]
    return [t_nat(c.is_written), "1", t_nat(c.compression), t_bytes(c.data)]


def fe_channel_excluded(c):
    return "content-in-a-channel-that-is-not-written" if (c.is_written == 0 and c.compression is not None) else None


def fe_extra_tokens(e):
    return [t_nat(e.is_written), *row(*list(e.rectangle)), t_nat(e.compression), t_bytes(e.data)]


def fe_extra_excluded(e):
    if e.is_written == 0 and (list(e.rectangle) != [0, 0, 0, 0] or e.compression != 0 or e.data != b""):
        return "content-in-an-extra-that-is-not-written"
    return None


def fe_tokens(x):
    if not isinstance(x.uuid, str):
        raise NotRep("uuid is not a str")
    try:
        uuid = hx(x.uuid.encode("ascii"))
    except UnicodeError:
        raise NotRep("uuid is not ASCII")
    if x.rectangle is None or x.channels is None:
        raise NotRep("a field the writer dereferences is None (TypeError, outside the model)")
    return [uuid, *row(x.version), *row(*tuple(x.rectangle)), *row(x.depth, x.max_channels), *t_list(list(x.channels), fe_channel_tokens),
            *t_opt(x.extra, fe_extra_tokens)]


def fe_excluded(x):
    if x.version > 1:
        return "version-above-1"
    if len(x.channels) != x.max_channels + 2:
        return "max_channels-does-not-match-channels"
    for c in x.channels:
        if fe_channel_excluded(c):
            return fe_channel_excluded(c)
    return fe_extra_excluded(x.extra) if x.extra is not None else None


def gen_fe_channel(rng):
    F = _FE()
    c = rng.random()
    if c < 0.2:
        return F.FilterEffectChannel(0)
    if c < 0.35:
        return F.FilterEffectChannel(rng.choice([1, 2 ** 32 - 1]))
    return F.FilterEffectChannel(rng.choice([1, 2, 2 ** 32 - 1]), rng.choice([0, 1, 65535]), bytes(rng.randrange(256) for _ in range(rng.choice([0, 1, 5, 40]))))


def gen_fe_extra(rng):
    F = _FE()
    if rng.random() < 0.3:
        return F.FilterEffectExtra(0)
    return F.FilterEffectExtra(rng.choice([1, 255]), sints(rng, 4, 4), rng.choice([0, 1, 65535]), bytes(rng.randrange(256) for _ in range(rng.choice([0, 3, 30]))))


def gen_fe(rng, nch=None):
    F = _FE()
    n = rng.choice([0, 1, 3]) if nch is None else nch
    return F.FilterEffect(rng.choice(["", "5a96c404-ab9c-1177-97ef-96ca454b82b7", "u" * 255]), rng.choice([0, 1]), tuple(sints(rng, 4, 4)),
                          rng.choice([8, 16, 2 ** 32 - 1]), n, [gen_fe_channel(rng) for _ in range(n + 2)],
                          gen_fe_extra(rng) if rng.random() < 0.6 else None)


def gen_fes(rng, quick):
    F = _FE()
    K = F.FilterEffects
    out = [("boundary", K([], version=1)), ("boundary", K([gen_fe(rng, 0)], version=3))]
    out += [("generated", K([gen_fe(rng) for _ in range(rng.choice([1, 2, 3]))], version=rng.choice([1, 2, 3]))) for _ in range(6 if quick else 120)]
    bad = gen_fe(rng, 1)
    bad.channels = bad.channels[:2]
    out.append(("excluded", K([bad], version=1)))
    bad = gen_fe(rng, 1)
    bad.version = 2
    out.append(("excluded", K([bad], version=1)))
    out.append(("excluded", K([], version=4)))
    out.append(("excluded", K([], version=0)))
    bad = gen_fe(rng, 0)
    bad.channels = [F.FilterEffectChannel(0, 1, b"x"), F.FilterEffectChannel(0)]
    out.append(("excluded", K([bad], version=1)))
    bad = gen_fe(rng, 0)
    bad.extra = F.FilterEffectExtra(0, [1, 2, 3, 4], 0, b"")
    out.append(("excluded", K([bad], version=1)))
    bad = gen_fe(rng, 0)
    bad.depth = 2 ** 32
    out.append(("breaking", K([bad], version=1)))
    bad = gen_fe(rng, 0)
    bad.uuid = "u" * 256
    out.append(("breaking", K([bad], version=1)))
    return out


def fes_excluded(x):
    if x.version not in (1, 2, 3):
        return "version-not-1-2-3"
    for it in x:
        why = fe_excluded(it)
        if why:
            return why
    return None


def unit10_specs():
    F = _FE
    no_kw = lambda v, pad: {}
    return [
        PairSpec("FilterEffectChannel", lambda: F().FilterEffectChannel, fe_channel_tokens,
                 lambda r, q: [("generated", gen_fe_channel(r)) for _ in range(8 if q else 100)]
                 + [("excluded", F().FilterEffectChannel(0, 1, b"ab")), ("breaking", F().FilterEffectChannel(2 ** 32)), ("breaking", F().FilterEffectChannel(1, 65536, b""))],
                 excluded=fe_channel_excluded, offsets=(0, 3, 4, 11, 12, 13, 14)),
        PairSpec("FilterEffectExtra", lambda: F().FilterEffectExtra, fe_extra_tokens,
                 lambda r, q: [("generated", gen_fe_extra(r)) for _ in range(8 if q else 100)]
                 + [("excluded", F().FilterEffectExtra(0, [1, 0, 0, 0])), ("breaking", F().FilterEffectExtra(256)), ("breaking", F().FilterEffectExtra(1, [0, 0, 0]))],
                 excluded=fe_extra_excluded, write_kw=no_kw, offsets=(0, 1, 16, 17, 24, 25, 26)),
        PairSpec("FilterEffect", lambda: F().FilterEffect, fe_tokens,
                 lambda r, q: [("generated", gen_fe(r)) for _ in range(8 if q else 100)], excluded=fe_excluded, at_end=True,
                 offsets=(0, 1, 4, 5, 12, 13, 28, 36, 37)),
        PairSpec("FilterEffects", lambda: F().FilterEffects, lambda x: [*row(x.version), *t_list(list(x), fe_tokens)], gen_fes,
                 excluded=fes_excluded, at_end=True, offsets=(0, 3, 4, 11, 12, 13, 16, 17)),
    ]


UNIT10_CLASSES = ["FilterEffects", "FilterEffect", "FilterEffectChannel", "FilterEffectExtra"]



# ---------------------------------------------------------------------------------------------
# unit 7 (continued): the typed image resource and documents with typed resources
# ---------------------------------------------------------------------------------------------
_RES_SPECS = None


def res_specs():
    """registered class name -> Spec whose `tokens` gives the model's value tokens"""
    global _RES_SPECS
    if _RES_SPECS is None:
        import payload_common as pc
        d = {}
        for sp in unit7_specs():
            d[sp.pyname or sp.name] = sp
        d["Color"] = pc.ColorSpec()
        d["StringElement"] = pc.StringSpec()
        _RES_SPECS = d
    return _RES_SPECS


def res_payload_tokens(data):
    if isinstance(data, (bytes, bytearray)):
        return ["0", hx(bytes(data))]
    nm = type(data).__name__
    sp = res_specs().get(nm)
    if sp is None or type(data) is not sp.K():
        raise NotRep("resource payload of class %s is not in the typed model" % nm)
    return ["1", nm, sp.tokens(data)]


def t_tres(r, encoding="macroman"):
    if not isinstance(r.name, str):
        raise NotRep("resource name is not a str")
    try:
        name = r.name.encode(encoding)
    except UnicodeError:
        raise NotRep("resource name not encodable (C19)")
    return [skel._b(r.signature), t_nat(skel.keyv(r.key)), hx(name), *res_payload_tokens(r.data)]


def tres_excluded(r):
    IR = _IR()
    if r.signature not in (b"8BIM", b"MeSa", b"AgHg", b"PHUT", b"DCSR"):
        return "signature-rejected-by-validator"
    K = IR.TYPES.get(skel.keyv(r.key))
    if isinstance(r.data, (bytes, bytearray)):
        return None if K is None else "raw-bytes-under-a-registered-id"
    if K is None or type(r.data) is not K:
        return "payload-class-does-not-match-the-id"
    sp = res_specs()[K.__name__]
    return sp.excluded(r.data, 1, None)


class TypedResourceSpec(Spec3):
    name = "ImageResource"
    offsets = (0, 3, 4, 5, 6, 7, 8, 11, 12, 16)

    def K(self):
        return _IR().ImageResource

    def tokens(self, x):
        return " ".join(t_tres(x))

    def write_kw(self, v, pad):
        return {"encoding": "macroman"}

    def read_kw(self, v, rpad):
        return {"encoding": "macroman"}

    def excluded(self, x, pad=None, rpad=None):
        return tres_excluded(x)

    def known(self, why):
        return SLICE16_KNOWN if why == "slice-id-16-after-a-slice-without-descriptor" else None

    def too_big(self, x, quick):
        d = getattr(x.data, "data", None)
        return quick and isinstance(d, (bytes, bytearray)) and len(d) > 20000

    def instances(self, rng, quick):
        IR, C = _IR(), _C()
        R = IR.ImageResource
        by_class = collections.defaultdict(list)
        for k, K in IR.TYPES.items():
            by_class[K.__name__].append(skel.keyv(k))
        out = []
        names = ["", "a", "ab", "Résumé", "x" * 255]
        for nm, keys in sorted(by_class.items()):
            sp = res_specs()[nm]
            vals = [x for o, x in sp.instances(rng, True) if o in ("generated", "boundary")]
            rng.shuffle(vals)
            for i, key in enumerate(keys):
                for x in vals[: (1 if quick else 6)]:
                    out.append(("generated", R(signature=rng.choice([b"8BIM", b"8BIM", b"MeSa", b"AgHg", b"PHUT", b"DCSR"]), key=key,
                                               name=rng.choice(names), data=copy.deepcopy(x))))
        for key in (1000, 1001, 2000, 2998, 4000, 4999, 65535, 0):
            out.append(("boundary", R(key=key, name=rng.choice(names), data=bytes(rng.randrange(256) for _ in range(rng.choice([0, 1, 2, 7]))))))
        out += [("excluded", R(key=int(C.Resource.VERSION_INFO), data=b"\x00\x00\x00\x01")),
                ("excluded", R(key=int(C.Resource.SLICES), data=IR.Integer(30))),
                ("excluded", R(key=4000, data=IR.Integer(30))),
                ("breaking", R(key=65536, data=b"")), ("breaking", R(key=1000, name="y" * 256, data=b"")),
                ("breaking", R(key=int(C.Resource.GLOBAL_ANGLE), data=IR.Integer(2 ** 31)))]
        bad = R(key=1000, data=b"ab")
        bad.signature = b"XXXX"
        out.append(("excluded", bad))
        return out


@contextlib.contextmanager
def typed_resources_only():
    """parse with every image-resource payload typed and, of the tagged blocks, only LayerInfoBlock typed (the typed
    document of the model: Model/Payload3Typed.lean on top of Model/PayloadLayerInfo.lean)"""
    import payload_common as pc
    TB = pc._TB()
    saved = dict(TB.TYPES)
    keep = {k: v for k, v in saved.items() if getattr(v, "__name__", "") == "LayerInfoBlock"}
    TB.TYPES.clear()
    TB.TYPES.update(keep)
    try:
        yield
    finally:
        TB.TYPES.clear()
        TB.TYPES.update(saved)


def t_res_psd(p, encoding):
    import payload_common as pc
    v = p.header.version
    lam = p.layer_and_mask_information
    items = []
    for k in p.image_resources:
        r = p.image_resources[k]
        if skel.keyv(k) != skel.keyv(r.key):
            raise skel.NotSkeleton("dict key differs from resource key")
        items.append(r)
    return [*skel.t_header(p.header), skel._b(p.color_mode_data.value), *t_list(items, lambda r: t_tres(r, encoding)),
            *skel._opt(lam.layer_info, lambda li: skel.t_layerinfo(li, encoding, v)),
            *skel._opt(lam.global_layer_mask_info, skel.t_glm),
            *skel._opt(lam.tagged_blocks, lambda tbs: skel._list(skel.tagged_items(tbs), lambda t: pc.t_tblock(t, v, 4))),
            *skel.t_image(p.image_data)]


def typed_documents(ctx, fail_cls):
    """whole documents with typed resources: the fixtures (quick: a seeded sample of the small ones), re-written with
    layer-info padding 4 (thorough: 1, 2, 4): PSD.write vs model enc, PSD.read vs model read, the Python oracle"""
    import codec_common as cc
    rng, quick = ctx.rng, ctx.quick
    files = [f for f in cc.fixtures() if (not quick or f.stat().st_size <= 30000)]
    if quick:
        files = rng.sample(files, min(10, len(files)))
    live, reqs = [], []
    for f in files:
        b = f.read_bytes()
        with typed_resources_only():
            r = cc.read_doc(b)
        if r[0] != "ok":
            continue
        for pad in ((4,) if quick else (1, 2, 4)):
            doc = copy.deepcopy(r[1])
            try:
                before = skel.tokens(t_res_psd(doc, "macroman"))
            except (NotRep, skel.NotSkeleton) as e:
                ctx.hist("payload_not_representable", "typed document: " + str(e)[:70])
                break
            except Exception as e:  # noqa
                ctx.hist("payload_not_representable", "typed document: payload write failed: " + type(e).__name__)
                break
            w = cc.write_doc(doc, "macroman", pad)
            try:
                after = skel.tokens(t_res_psd(doc, "macroman")) if w[0] == "ok" else None
            except Exception:  # noqa
                after = None
            live.append((f.name, doc, pad, before, w, after))
            reqs.append(("pl3.enc", "ResPSD", 0, pad, before))
    dreq, dlive = [], []
    for c, a in zip(live, cc.pbatch(reqs)):
        name, doc, pad, before, w, after = c
        ctx.corr_cases += 1
        ctx.count(("pl3-doc-enc", pad, before[:4000]), nontrivial=True)
        ctx.hist("payload_class_x_origin", "PSD[typed resources]/fixture")
        if w[0] == "ok":
            if a[0] != "ok" or a[1] != hx(w[1]) or int(a[2]) != w[2]:
                ctx.disagree("typed document: PSD.write bytes / count != model enc", {"file": name, "pad": pad, "model": a[:1]})
            elif a[4] != after:
                ctx.disagree("typed document: object state after write != model refresh", {"file": name})
            iswf = a[0] == "ok" and a[3] == "1"
            dreq.append(("pl3.dec", "ResPSD", 0, pad, hx(w[1]), 0))
            dlive.append(c + (iswf,))
        else:
            ctx.hist("payload_writer_rejects", f"PSD[typed resources]:{w[1]}")
            if a[0] != "err" or a[1] != w[1]:
                ctx.disagree("typed document: exception class of PSD.write != model", {"py": w[1], "model": a[:2], "file": name})
    for c, a in zip(dlive, cc.pbatch(dreq)):
        name, doc, pad, before, w, after, iswf = c
        ctx.corr_cases += 1
        with typed_resources_only():
            r = cc.read_doc(w[1], "macroman")
        ok, obs = False, None
        if r[0] == "ok":
            try:
                rt = skel.tokens(t_res_psd(r[1], "macroman"))
            except (NotRep, skel.NotSkeleton) as e:
                ctx.disagree("typed document: re-read document is not representable", {"why": str(e), "file": name})
                continue
            if a[0] != "ok" or a[1] != rt or int(a[2]) != r[2]:
                ctx.disagree("typed document: PSD.read structure / cursor != model read", {"file": name, "model": a[:1]})
            w2 = cc.write_doc(r[1], "macroman", pad)
            same = rt == after
            ok = same and w2[0] == "ok" and w2[1] == w[1]
            obs = {"reread_equal": same, "rewrite_identical": w2[0] == "ok" and w2[1] == w[1]}
        else:
            if a[0] != "err" or a[1] != r[1]:
                ctx.disagree("typed document: exception class of PSD.read != model read", {"py": r[1], "model": a[:2], "file": name})
            obs = {"read": r[1]}
        ctx.count(("pl3-doc-oracle", pad, before[:4000]), nontrivial=True)
        if ok:
            ctx.hist("payload_oracle", "PSD[typed resources]: round-trips" if iswf else "PSD[typed resources]: not-WF-but-round-trips")
        elif iswf:
            fail_cls["ImageResource"] += 1
            ctx.fail("C01/payload/typed-resources-document/not-round-trip",
                     f"a document with typed image resources does not survive write -> read ({name})",
                     {"file_name": name, "encoding": "macroman", "padding": pad, "file": hx(w[1])}, obs,
                     "PSD.read(PSD.write(d)) == d (token form, as the writer left it) and identical re-write")
        else:
            ctx.hist("payload_oracle", "PSD[typed resources]: excluded-by-WF")
    ctx.extra["payload3_typed_documents"] = len(live)


def dat_instances():
    """instances parsed from the payload files of the repo's own tests (tests/image_resources, tests/tagged_blocks)"""
    out = collections.defaultdict(list)
    root = core.REPO / "tests"
    for K, rel, kw in ((_IR().Slices, "image_resources/slices_0.dat", {}), (_ADJ().Curves, "tagged_blocks/curves.dat", {}),
                       (_ADJ().Curves, "tagged_blocks/curves_2.dat", {}), (_FE().FilterEffects, "tagged_blocks/filter_effects_1.dat", {}),
                       (_FE().FilterEffects, "tagged_blocks/filter_effects_2.dat", {})):
        try:
            out[K].append(K.frombytes((root / rel).read_bytes(), **kw))
        except Exception:  # noqa
            pass
    return out


# ---------------------------------------------------------------------------------------------
# the check
# ---------------------------------------------------------------------------------------------
MODEL_CLASSES = list(UNIT7_CLASSES) + ["ImageResource"] + UNIT8_CLASSES + UNIT9_CLASSES + UNIT10_CLASSES


def run_units3(ctx, specs, sink, seen_cls, fail_cls, excluded_log, label):
    ncases = nmut = 0
    for spec in specs:
        K = spec.K()
        xs = [x for x in sink.get(K, []) if type(x) is K and not spec.too_big(x, ctx.quick)]
        harvested = distinct_instances(xs, spec.tokens, 8 if ctx.quick else None, ctx.rng)
        ctx.hist("payload_harvest_distinct", spec.name, len(harvested))
        a, b = run_spec3(ctx, spec, [copy.deepcopy(x) for x in harvested], seen_cls, fail_cls, excluded_log)
        ncases += a
        nmut += b
    ctx.extra[f"payload3_{label}_cases"] = {"writer/reader cases": ncases, "mutations": nmut}


def unit7_witnesses(ctx):
    """the points of Props/C01Payload3.lean replayed on the real code"""
    IR = _IR()
    S, V6 = IR.SliceV6, IR.SlicesV6
    # repaired by fa560d5: the speculative descriptor read ran out of data (IOError was not caught)
    x = V6(items=[S(slice_id=1), S(slice_id=16, group_id=1000), S(slice_id=3)])
    w = py_write(x)
    r = py_read(V6, w[1]) if w[0] == "ok" else ("err", "write")
    if not (w[0] == "ok" and r[0] == "ok" and r[1] == x):
        ctx.disagree("slices_id16_recovered_after_fix does not replay on the real code", {"write": w[:1], "read": r[:2] if r[0] == "err" else "differs"})
    # the ambiguity that stays: the next slice is a well-formed descriptor block
    x = V6(items=[S(slice_id=1), S(slice_id=16, group_id=0, origin=0, name="\x00\x00"), S(slice_id=3)])
    w = py_write(x)
    r = py_read(V6, w[1]) if w[0] == "ok" else ("err", "write")
    if not (w[0] == "ok" and r == ("err", "IOError")):
        ctx.disagree("witness slices_id16_misparse does not replay on the real code", {"write": w[:1], "read": r[:2]})


def run(ctx):
    """A change of the source is never an infrastructure error: when the harness can no longer drive the classes as
    modelled, the correspondence is broken, which is what gets recorded."""
    try:
        _run(ctx)
    except core.Infra:
        raise
    except Exception as e:  # noqa
        import traceback
        tb = traceback.extract_tb(e.__traceback__)
        ctx.disagree("payload3 check aborted: the harness could not drive the payload classes as modelled (%s: %s)"
                     % (type(e).__name__, str(e)[:200]),
                     {"traceback_tail": [f"{fr.filename.rsplit('/', 1)[-1]}:{fr.lineno} {fr.name}" for fr in tb[-5:]]})
        ctx.notes.append("payload3 correspondence did not complete (see the disagreement)")


def _run(ctx):
    import codec_common as cc
    t0 = time.time()
    seen_cls, fail_cls, excluded_log = collections.Counter(), collections.Counter(), collections.Counter()
    sink = harvest_by_class(cc.fixtures())
    for K, xs in dat_instances().items():
        sink.setdefault(K, []).extend(xs)
    run_units3(ctx, unit7_specs(), sink, seen_cls, fail_cls, excluded_log, "unit7")
    unit7_witnesses(ctx)
    run_units3(ctx, [TypedResourceSpec()], sink, seen_cls, fail_cls, excluded_log, "typed_resource")
    typed_documents(ctx, fail_cls)
    run_units3(ctx, unit8_specs(), sink, seen_cls, fail_cls, excluded_log, "unit8")
    seen_cls["CurvesExtraMarker"] += seen_cls.get("Curves", 0)
    seen_cls["CurvesExtraItem"] += seen_cls.get("Curves", 0)
    run_units3(ctx, unit9_specs(), sink, seen_cls, fail_cls, excluded_log, "unit9")
    run_units3(ctx, unit10_specs(), sink, seen_cls, fail_cls, excluded_log, "unit10")
    ctx.extra["payload3_points_excluded_by_WF (information; format-excluded, see notes)"] = dict(excluded_log)

    cov = ctx.model_coverage if isinstance(ctx.model_coverage, dict) else {}
    opaque = cov.get("opaque: searched, not proved")
    if isinstance(opaque, dict):
        for nm in MODEL_CLASSES:
            opaque.pop(nm, None)
    none_seen = cov.get("opaque_classes_with_no_fixture_or_variant_instance")
    if isinstance(none_seen, list):
        cov["opaque_classes_with_no_fixture_or_variant_instance"] = [n for n in none_seen if n not in MODEL_CLASSES]
    cov["modelled_and_proved (payload classes, third batch: Props/C01Payload3.lean)"] = {
        nm: {"cases": seen_cls.get(nm, 0), "failures": fail_cls.get(nm, 0)} for nm in MODEL_CLASSES}
    cov["payload3_classes_with_no_case"] = sorted(nm for nm in MODEL_CLASSES if seen_cls.get(nm, 0) == 0)
    ctx.model_coverage = cov
    ctx.trusted_base += [
        "Model/Payload3*.lean: hand transliteration of the image-resource payloads, the adjustment payloads, vector data and filter "
        "effects (struct formats as data, PCodec combinators); tied by this run's correspondence check (write vs enc byte for byte incl. the "
        "returned count and the object state, read vs dec token for token incl. the cursor, exception classes on truncated / mutated bytes) and "
        "by the regenerated tables of Generated/Payload3.lean (registries, enums, validator options, utils calls, conditions, asserts, caught "
        "exceptions, base classes; the struct formats of the models are parsed from the format strings of the source)",
        "harness/payload3_common.py: conversion of the real objects to the model's token form, incl. float -> 32/64-bit pattern and "
        "fixed-point attribute -> stored integer (16.16, 8.24); harness/extract_payload3.py",
    ]
    ctx.notes += [
        "Third batch (Props/C01Payload3.lean) modelled and proved: unit 7 every class of image_resources.TYPES (" + ", ".join(UNIT7_CLASSES) +
        " + Color, StringElement, DescriptorBlock as resource payloads); unit 8 the adjustment payloads (" + ", ".join(UNIT8_CLASSES) +
        "; BlackAndWhite / Vibrance / SolidColor / gradient and pattern fills are DescriptorBlock, Posterize / Threshold ShortIntegerElement, "
        "Invert EmptyElement); unit 9 vector data (" + ", ".join(UNIT9_CLASSES) + "; VectorStrokeSetting = DescriptorBlock, VectorOriginationData "
        "= DescriptorBlock2); unit 10 filter effects (" + ", ".join(UNIT10_CLASSES) + "). For each: <class>_roundtrip | _roundtrip_at_end, "
        "_rewrite_identical, _written_is_length, tagged_block_<class> / image_resource_<class>; ties <unit>_registry_tied (every registered class is "
        "modelled), _calls_tied, _conditions_tied (if / while tests, asserts, caught exception classes, bases), _formats_tied (parseFmt of the "
        "source's format strings = the model's formats), unit7_enums_tied, unit8_validators_tied, unit9_selectors_tied, unit9_fixed_point_tied.",
        "The typed image resource (Model/Payload3Typed.lean): ImageResource.read with the payload dispatch TYPES[key].frombytes(raw_data) and "
        "ImageResource.write with data.write(f, padding=1) are modelled (class decided by the resource id through the regenerated registry: "
        "key_class_tied); typed_image_resource_roundtrip / _written_is_length, typed_resource_is_skeleton_resource, "
        "typed_image_resources_roundtrip (the section), psd_roundtrip_resources / psd_rewrite_identical_resources (a whole document whose image "
        "resources are objects of their classes and whose document-level tagged blocks are typed as in psd_roundtrip_deep), "
        "resources_refine_deep. Correspondence: typed resources generated for every registered id x class instance and harvested from the "
        "fixtures; whole fixture documents parsed with typed resources (quick: a seeded sample of 10 below 30 kB, padding 4; thorough: all, "
        "padding 1/2/4) through PSD.write / PSD.read vs the model.",
        "Finding of unit 7, repaired (repo commit fa560d5): the proof of slices_v6_roundtrip_at_end forced 'a slice without descriptor is not "
        "followed by a slice whose id is 16' (SlicesV6.chainOK). On the real code SlicesV6(items=[SliceV6(slice_id=1), SliceV6(slice_id=16, "
        "group_id=1000), SliceV6(slice_id=3)]) was written and then failed to load: SliceV6.read undid its speculative DescriptorBlock.read on "
        "ValueError only, the read ran out of data (IOError). The reader now recovers from IOError too (witnesses "
        "slices_id16_speculative_read_ioerror, slices_id16_recovered_after_fix, replayed by this run). What stays excluded by chainOK and does "
        "not survive is the point where the next slice happens to form a descriptor block (witness slices_id16_misparse; known finding "
        + SLICE16_KNOWN + "): the format has no marker there.",
        "Third batch, format-excluded points ((iii) clauses, each with a Lean witness and replayed as 'excluded' instances): SliceV6 associated id "
        "exactly for origin 1, a descriptor whose classID is four zero bytes is read as no descriptor (the reader's own rule); Slices version 6 <-> "
        "SlicesV6; Levels records beyond 29 only with the trailer, extra_version 3; HueSaturation six items, SelectiveColor ten plates; PhotoFilter / "
        "GradientMap / Curves fields that the version does not store; Curves count field vs data, 2..19 points, marker item shape = is_map; "
        "FilterEffect max_channels + 2 channels, unwritten channel / extra without content. Outside the models (not generated): writers that index "
        "or unpack a missing value (Levels with fewer than 29 records: IndexError; None where a tuple is unpacked: TypeError), attribute values that "
        "are not values of the on-disk type (doubles that are not float32 values for `f` fields, fixed-point attributes that are not multiples of "
        "2^-16 / 2^-24: width clauses; the float conversions themselves are outside the model).",
    ]
    ctx.assumptions[:] = [a.replace("the payload classes listed under model_coverage as opaque (vector data, adjustments, filter effects, engine "
                                    "data, image-resource payloads, ...) are opaque bytes in the model",
                                    "the payload classes listed under model_coverage as opaque (engine data, ...) are opaque bytes in the model")
                          for a in ctx.assumptions]
    ctx.notes[:] = [n.replace("Stated in DESIGN, not proved here: codec laws of the remaining payload classes (vector data, adjustments, "
                              "filter effects, engine data, image-resource payloads); see model_coverage.",
                              "Stated in DESIGN, not proved here: codec laws of engine data (C18) and the element-typed composition of image "
                              "resources / adjustment blocks into whole documents; see model_coverage.") for n in ctx.notes]
    ctx.rule += (
        " Third batch: for every modelled class of image resources, adjustments, vector data and filter effects, the distinct instances of the "
        "parsed fixtures and of the tests' payload files (quick: a seeded sample of 8 per class; thorough: all), hand-listed boundary instances "
        "(every optional branch, 0 / max of each width, every enum member, the excluded points, values that do not fit) and seeded generated ones "
        "(rows over the whole on-disk domain of each field, list lengths 0..40, nested subpaths, every version x optional-trailer pattern): one "
        "writer case (bytes, returned count, object unchanged, WF), one reader case (structure and cursor, random bytes before - and after unless "
        "the reader probes what follows), the Python-only oracle, and 4-10 truncations / overwrites / flips / deletions of up to 300 encodings per "
        "class as reader cases.")
    ctx.extra["payload3_phase_seconds"] = round(time.time() - t0, 1)
    if ctx.tier == "thorough":
        prev = ctx.extra.get("leanchecker")
        ctx.recheck(["PsdVerif.Props.C01Payload3"])
        mine = ctx.extra.get("leanchecker")
        if isinstance(prev, dict) and isinstance(mine, dict):
            ctx.extra["leanchecker"] = {"modules": prev.get("modules", []) + mine.get("modules", []),
                                        "ok": bool(prev.get("ok")) and bool(mine.get("ok")),
                                        "tail": (prev.get("tail", "") + mine.get("tail", ""))[-400:]}
