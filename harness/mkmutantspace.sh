#!/bin/sh
# usage: harness/mkmutantspace.sh <id>  -> /tmp/m/<id>/repo : scratch worktree of /repo for a seeded-change author (nothing from /verif)
set -e
n="$1"; base=${MBASE:-/tmp/m}/$n
mkdir -p "$base/out"
git -C /repo worktree add -q --detach "$base/repo" HEAD
cp /repo/src/psd_tools/compression/_rle*.so "$base/repo/src/psd_tools/compression/" 2>/dev/null || true
echo "$base"
