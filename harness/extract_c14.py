"""C14 extractor: which public mutator invalidates which cached boxes -> Generated/FreshTable.lean.

Built on the abstract interpreter of extract_c15.py (`_Api`, `_Flat`: helpers and other mutators inlined by name,
`self` / parameters substituted textually, `if` tests collected as numbered guards, a changed source never raises).
What differs is WHAT is tracked. The inputs of a cached / derived box:

    children lists      `<o>._layers.<list mutation>`, `<o>._layers[...] = / del`, `<o>._layers = `
                        (remove / pop / clear / __delitem__ / del -> `shrink`, everything else -> `relist`)
    back pointers       `<o>._parent = `, `<o>._psd = `
    visibility          `<o>._record.flags.visible = `
    record rectangle    `<o>._record.left / top / right / bottom = `
    the cache itself    `<o>._bbox = None` -> reset (not when restricted to `isinstance(<o>, ShapeLayer)`: the model's caches
                        are those of containers);   `<o>._bbox = <anything else>` outside a `bbox` getter -> store
    the dirty flag      `<doc of o>._updated_layers = True` -> dirty;  any other value -> store
    the invalidation    `<o>._invalidate_bbox()` -> inval (NOT inlined: how far it climbs is read off its body once,
                        see `climb_of`)
    reads               a load of `bbox / width / height / size / left / top / right / bottom / offset` on an API object
                        between an invalidation and a later mutation of the same segment (it may fill a cache); a
                        message formatted with an API object (`"…".format(self)`: `repr` of a group reads its box)

A loop `for x in <o>.descendants()` / `for x in <o>` / `for x in <o>._layers[:]` whose body only acts on `x` is not a
segment of its own: its effects are emitted once with the scope `descendants` / `children` of <o> (tests of the form
`isinstance(x, GroupMixin)` around a reset are dropped: only containers carry a cache in the model; so is
`isinstance(<o>, GroupMixin)` around a sweep below <o>: a non-container has nothing below it; the per-layer test
around `x._psd = ` is dropped: the assignment is idempotent and `_psd` is not an input of any box).
An assignment through a property (`self.left, self.top = value`) inlines the setter.
"""
from __future__ import annotations

import ast
import re

from extract_c15 import API, _Api, _Flat, _lstr, _norm, _owner, _psd_guard, _segments, _subst

SHRINK = {"_layers.remove", "_layers.pop", "_layers.clear", "_layers.__delitem__", "_layers[]del"}
READS = {"bbox", "width", "height", "size", "left", "top", "right", "bottom", "offset"}
RECT = {"left", "top", "right", "bottom"}
SETTERS = {"visible", "left", "top", "offset"}
EACH = "EACH"
MINE = ("mut", "mut14", "inval", "reset", "dirty", "store14", "other")


def _is_none(v):
    return isinstance(v, ast.Constant) and v.value is None


class _Flat14(_Flat):
    COUNTED = MINE

    def __init__(self, api):
        super().__init__(api)
        self._ctx = (0, [], set())

    @staticmethod
    def _has_raw(fn):
        for n in ast.walk(fn):
            if not isinstance(n, ast.Attribute):
                continue
            if n.attr in ("_layers", "_invalidate_bbox"):
                return True
            if isinstance(n.ctx, (ast.Store, ast.Del)) and n.attr in (
                    {"_bbox", "_parent", "_psd", "_updated_layers"} | RECT | SETTERS):
                return True
        return False

    def compute(self, owner, guards, depth, stack):
        return                                                       # the clipping pass: not an input of a box (C15)

    def block(self, cls, fn, stmts, env, guards, depth, stack, layerish):
        saved = self._ctx
        self._ctx = (depth, stack, layerish)
        try:
            super().block(cls, fn, stmts, env, guards, depth, stack, layerish)
        finally:
            self._ctx = saved

    # ---- loops that sweep over the children / descendants of an object ------------------------------------
    @staticmethod
    def _scope_of(src):
        m = re.fullmatch(r"(.+)\.descendants\((?:include_clip=True|True)?\)", src)
        if m and re.fullmatch(r"[A-Za-z_][\w\.\[\]]*", m.group(1)):
            return m.group(1), "descendants"
        m = re.fullmatch(r"(?:list\(|reversed\()?([A-Za-z_][\w\.\[\]]*?)\._layers(?:\[:\])?\)?", src)
        if m:
            return m.group(1), "children"
        if src in ("self", "list(self)", "reversed(self)"):
            return "self", "children"
        return None

    def loop_hook(self, cls, fn, st, env, guards, depth, stack, layerish):
        if not (isinstance(st, ast.For) and isinstance(st.target, ast.Name)) or st.orelse:
            return False
        sc = self._scope_of(_norm(_subst(st.iter, env)))
        if sc is None:
            return False
        owner, scope = sc
        var = st.target.id
        saved, gid0 = self.events, self.gid
        self.events = []
        env2 = {k: v for k, v in env.items() if k != var}
        env2[var] = EACH
        self.block(cls, fn, st.body, env2, list(guards), depth, stack, set(layerish) | {var})
        got, self.events = self.events, saved
        if not got:
            return True                                              # nothing happens inside
        if not all(e[0] in ("mut14", "reset", "read") and e[1] == EACH for e in got):
            self.gid = gid0
            return False                                             # a real loop: a segment of its own
        each_isinst = re.compile(r"g\d+:isinstance\(%s, .*\)" % EACH)
        own_isinst = re.compile(r"g\d+:isinstance\(%s, \(?GroupMixin.*\)" % re.escape(owner))
        for e in got:
            gs = list(e[4]) if e[0] == "mut14" else list(e[-1])
            if e[0] == "reset":
                gs = [g for g in gs if not each_isinst.fullmatch(g) and not own_isinst.fullmatch(g)]
                self.emit("reset", owner, scope, gs)
            elif e[0] == "mut14":
                what, rhs = e[2], e[3]
                if what == "psd":
                    gs = [g for g in gs if EACH not in g]
                if what == "parent" and rhs != owner:
                    what = "other"
                self.emit("mut14", owner, what, rhs, gs, scope)
            # a read of the loop variable's own box inside a sweep: harmless for the boxes above, dropped
        return True

    # ---- stores -------------------------------------------------------------------------------------------
    def store(self, cls, fn, t, st, env, guards):
        if isinstance(t, (ast.Tuple, ast.List)):
            for e in t.elts:
                self.store(cls, fn, e, st, env, guards)
            return
        if isinstance(t, ast.Subscript):
            base = t.value
            if (isinstance(base, ast.Attribute) and base.attr == "_layers") or \
                    (isinstance(base, ast.Name) and base.id in env and env[base.id].endswith("._layers")):
                super().store(cls, fn, t, st, env, guards)
            return
        if not isinstance(t, ast.Attribute):
            return
        base = _norm(_subst(t.value, env))
        a = t.attr
        val = getattr(st, "value", None)
        own_init = fn.name == "__init__" and base == "self"
        if a == "_layers":
            super().store(cls, fn, t, st, env, guards)
        elif a == "_bbox":
            if own_init or (val is not None and _is_none(val) and False):
                return
            if val is not None and _is_none(val):
                if any(re.fullmatch(r"g\d+:isinstance\(%s, ShapeLayer\)" % re.escape(base), g) for g in guards):
                    return                                           # a shape layer's own box: not in the model (leaves)
                self.emit("reset", _owner(base), "self", list(guards))
            elif fn.name == "bbox":
                return                                               # the getter fills the cache
            else:
                self.emit("store14", _owner(base), "_bbox = " + (ast.unparse(val)[:60] if val is not None else "?"), list(guards))
        elif a in ("_parent", "_psd"):
            if own_init:
                return
            rhs = _norm(_subst(val, env)) if val is not None else "?"
            if rhs.startswith("doc(") and rhs.endswith(")"):
                rhs = rhs[4:-1]
            self.emit("mut14", _owner(base), a[1:], rhs, list(guards), "self")
        elif a == "_updated_layers":
            if own_init:
                return
            owner = base[4:-1] if base.startswith("doc(") and base.endswith(")") else _owner(base)
            gs = [g for g in guards if not _psd_guard(g, owner)]
            if isinstance(val, ast.Constant) and val.value is True and isinstance(st, ast.Assign):
                self.emit("dirty", owner, gs)
            else:
                self.emit("store14", owner, "_updated_layers = " + (ast.unparse(val)[:40] if val is not None else "?"), gs)
        elif a == "visible" and base.endswith("._record.flags"):
            self.emit("mut14", _owner(base), "visible", "?", list(guards), "self")
        elif a in RECT and base.endswith("._record"):
            self.emit("mut14", _owner(base), "rect", a, list(guards), "self")
        elif a in SETTERS and "_record" not in base:
            self._inline_setter(cls, fn, t, base, a, env, guards)

    def _inline_setter(self, cls, fn, t, base, attr, env, guards):
        depth, stack, layerish = self._ctx
        raw = ast.unparse(t.value)
        if not (self._layerish_expr(raw, layerish) or base == EACH):
            return                                                   # not an API object (a mask, a record …)
        cands = self.api.by_name.get((attr, "setter"), [])
        target = self.api.resolve(cls, attr, "setter") if raw in ("self", "cls") else None
        targets = [target] if target else [c for c in cands if c == "Layer"] or cands
        done = False
        for tg in targets:
            key = (tg, attr + ".setter")
            if key in stack or depth >= 12:
                continue
            callee = self.api.methods[(tg, attr, "setter")]
            params = [a.arg for a in callee.args.args]
            cenv = {params[0]: base} if params else {}
            saved = self.events
            self.events = []
            self.flatten(tg, callee, cenv, guards, depth + 1, stack + [key], {params[0]} if params else set())
            got, self.events = self.events, saved
            if any(e[0] in MINE for e in got):
                self.events += got
                done = True
                break
        if not done and not cands:
            self.emit("other", "assignment to %s.%s in %s.%s: no such setter" % (base, attr, cls, fn.name))

    # ---- calls and reads ----------------------------------------------------------------------------------
    def exprs(self, cls, fn, node, env, guards, depth, stack, layerish):
        for n in ast.walk(node):
            if isinstance(n, ast.Attribute) and isinstance(n.ctx, ast.Load) and n.attr in READS:
                raw = ast.unparse(n.value)
                base = _norm(_subst(n.value, env))
                if "_record" in base or "mask" in base:
                    continue
                if self._layerish_expr(raw, layerish) or base == EACH:
                    self.emit("read", _owner(base), n.attr, list(guards))
            if isinstance(n, ast.Call) and isinstance(n.func, ast.Attribute) and n.func.attr == "format":
                # a message formatted with an API object: `Layer.__repr__` reads `width`, hence the box of a group
                for a in n.args:
                    raw = ast.unparse(a)
                    if isinstance(a, (ast.Name, ast.Attribute)) and self._layerish_expr(raw, layerish):
                        self.emit("read", _owner(_norm(_subst(a, env))), "repr", list(guards))
        super().exprs(cls, fn, node, env, guards, depth, stack, layerish)

    def call(self, cls, fn, c, env, guards, depth, stack, layerish, in_comp):
        f = c.func
        if isinstance(f, ast.Attribute) and f.attr == "_invalidate_bbox":
            recv = _norm(_subst(f.value, env))
            if in_comp:
                self.emit("other", "%s._invalidate_bbox() inside a comprehension, in %s.%s" % (recv, cls, fn.name))
            else:
                self.emit("inval", recv, list(guards))
            return
        super().call(cls, fn, c, env, guards, depth, stack, layerish, in_comp)


# ---------------------------------------------------------------------------------------------------------
# `Layer._invalidate_bbox` / `PSDImage._invalidate_bbox`: how far does the climb go?
# ---------------------------------------------------------------------------------------------------------
_CLIMB_TO_ROOT = """node: Any = self
seen: set[int] = set()
while node is not None and id(node) not in seen:
    seen.add(id(node))
    if isinstance(node, (GroupMixin, ShapeLayer)):
        node._bbox = None
    node = node.parent if isinstance(node.parent, GroupMixin) else None"""
_DOC_INVALIDATE = "self._bbox = None"


def _body_src(fn):
    body = [s for s in fn.body if not (isinstance(s, ast.Expr) and isinstance(s.value, ast.Constant))]
    return "\n".join(ast.unparse(s) for s in body)


def climb_of(api):
    """-> (Climb constructor, source of Layer._invalidate_bbox, source of PSDImage._invalidate_bbox)"""
    lf = api.methods.get(("Layer", "_invalidate_bbox", "method"))
    df = api.methods.get(("PSDImage", "_invalidate_bbox", "method"))
    lsrc = _body_src(lf) if lf is not None else "?"
    dsrc = _body_src(df) if df is not None else "?"
    if lf is None:
        return "other", lsrc, dsrc
    if df is not None and dsrc != _DOC_INVALIDATE:
        return "other", lsrc, dsrc
    if lsrc == _CLIMB_TO_ROOT:
        return "toRoot", lsrc, dsrc
    loops = [n for n in ast.walk(lf) if isinstance(n, ast.While)]
    if len(loops) == 1:
        loop = loops[0]
        # the loop as above with an early exit on an empty cache
        early = [n for n in ast.walk(loop) if isinstance(n, ast.If) and re.search(r"\._bbox is None", ast.unparse(n.test))
                 and any(isinstance(b, (ast.Break, ast.Return)) for b in n.body)]
        stripped = _strip_ifs(lf, early)
        if early and stripped == _CLIMB_TO_ROOT:
            return "stopAtEmpty", lsrc, dsrc
        if lsrc == _CLIMB_TO_ROOT.replace("isinstance(node.parent, GroupMixin)", "isinstance(node.parent, (Group, Artboard))"):
            return "belowDoc", lsrc, dsrc
    if not loops and not any(isinstance(n, ast.Call) and isinstance(n.func, ast.Attribute) and n.func.attr == "_invalidate_bbox"
                             for n in ast.walk(lf)):
        stores = [n for n in ast.walk(lf) if isinstance(n, ast.Assign)]
        if len(stores) == 1 and ast.unparse(stores[0]) == "self._bbox = None":
            return "selfOnly", lsrc, dsrc
    return "other", lsrc, dsrc


def _strip_ifs(fn, ifs):
    import copy
    ids = {(n.lineno, n.col_offset) for n in ifs}

    class R(ast.NodeTransformer):
        def visit_If(self, n):
            if (n.lineno, n.col_offset) in ids:
                return None
            return self.generic_visit(n)

    return _body_src(R().visit(copy.deepcopy(fn)))


# ---------------------------------------------------------------------------------------------------------
def _to_effects(events):
    """events of one segment -> list of effect tuples in the vocabulary of Model/FreshState.lean"""
    out = []
    for e in events:
        k = e[0]
        if k == "mut":                                               # from the base class: a `_layers` mutation
            if not e[2].startswith("_layers"):
                continue
            out.append(("mutate", e[1], "self", "shrink" if e[2] in SHRINK else "relist", e[2], list(e[3])))
        elif k == "mut14":
            _, owner, what, rhs, gs, scope = e
            inp = what if what in ("psd", "parent", "visible", "rect") else "other"
            if inp == "parent" and scope != "children":
                inp = "other"                                        # a single back pointer redirected by hand
            if inp == "psd" and scope != "descendants":
                inp = "other"
            out.append(("mutate", owner, scope, inp, "%s=%s" % (what, rhs), list(gs)))
        elif k == "inval":
            out.append(("inval", e[1], list(e[2])))
        elif k == "reset":
            out.append(("reset", e[1], e[2], list(e[3])))
        elif k == "dirty":
            out.append(("dirty", e[1], list(e[2])))
        elif k == "read":
            out.append(("read", e[1], e[2], list(e[3])))
        elif k == "store14":
            out.append(("store", e[1], e[2], list(e[3])))
        elif k == "other":
            out.append(("other", e[1]))
    # consecutive rectangle fields of the same object under the same tests are one mutation
    merged = []
    for e in out:
        if merged and e[0] == "mutate" and e[3] == "rect" and merged[-1][0] == "mutate" and merged[-1][3] == "rect" \
                and merged[-1][1] == e[1] and merged[-1][5] == e[5]:
            merged[-1] = merged[-1][:4] + (merged[-1][4] + "," + e[4],) + (e[5],)
        else:
            merged.append(e)
    # a read matters only between an invalidation and a later mutation
    keep = []
    for i, e in enumerate(merged):
        if e[0] == "read" and e[2] != "repr":
            before = any(x[0] in ("inval", "reset") for x in merged[:i])
            after = any(x[0] == "mutate" for x in merged[i + 1:])
            if not (before and after):
                continue
            if keep and keep[-1][0] == "read" and keep[-1][1] == e[1] and keep[-1][3] == e[3]:
                continue                                             # several reads of the same object: one
        keep.append(e)
    return keep


def read_table():
    api = _Api()
    fl = _Flat14(api)
    fl.compute_effectful()
    rows = []
    for (cls, name, kind), fn in sorted(api.methods.items(), key=lambda kv: (kv[0][0], kv[1].lineno)):
        if name.startswith("_") and not (name.startswith("__") and name.endswith("__")):
            continue
        if name in ("__init__", "__new__"):
            continue
        fl.events, fl.gid = [], 0
        fl.flatten(cls, fn, {}, [], 0, [(cls, name)], {"self", "cls"})
        if any(e[0] in MINE and not (e[0] == "mut" and not str(e[2]).startswith("_layers")) for e in fl.events):
            label = "%s.%s" % (cls, name) + ("" if kind == "method" else "." + kind)
            segs = [s for s in (_to_effects(seg) for seg in _segments(fl.events)) if s]
            if segs:
                rows.append((label, segs))
    climb, lsrc, dsrc = climb_of(api)
    return {"rows": rows, "climb": climb, "layer_invalidate": lsrc, "doc_invalidate": dsrc}


def _lean_eff(e):
    strs = lambda xs: "[" + ", ".join(_lstr(x) for x in xs) + "]"
    if e[0] == "mutate":
        return ".mutate %s .%s .%s %s %s" % (_lstr(e[1]), e[2], e[3], _lstr(e[4]), strs(e[5]))
    if e[0] == "inval":
        return ".inval %s %s" % (_lstr(e[1]), strs(e[2]))
    if e[0] == "reset":
        return ".reset %s .%s %s" % (_lstr(e[1]), e[2], strs(e[3]))
    if e[0] == "dirty":
        return ".dirty %s %s" % (_lstr(e[1]), strs(e[2]))
    if e[0] == "read":
        return ".read %s %s %s" % (_lstr(e[1]), _lstr(e[2]), strs(e[3]))
    if e[0] == "store":
        return ".store %s %s %s" % (_lstr(e[1]), _lstr(e[2]), strs(e[3]))
    return ".other %s" % _lstr(e[1])


def gen_fresh_table(ctx):
    try:
        info = read_table()
    except Exception as e:  # noqa: a source the reader cannot digest is a broken tie, never an infrastructure error
        info = {"rows": [("<extractor>", [[("other", "extract_c14.read_table failed: %s: %s" % (type(e).__name__, e))]])],
                "climb": "other", "layer_invalidate": "?", "doc_invalidate": "?"}
        ctx.notes.append("extract_c14.read_table could not read the current source (%s): sentinel table written" % type(e).__name__)
    effs = lambda es: "[" + ", ".join(_lean_eff(e) for e in es) + "]"
    rows = ",\n".join("    ⟨%s, [%s]⟩" % (_lstr(n), ",\n      ".join(effs(s) for s in segs)) for n, segs in info["rows"])
    src = f"""import PsdVerif.Model.FreshState
namespace PsdVerif.Generated.FreshTable
open PsdVerif.FreshState

/-- Every public method / setter of the API classes whose flattened body changes an input of a cached box (children
    lists, `_parent`, `_psd`, visibility flag, record rectangle), assigns `_bbox` or the dirty flag, or calls
    `_invalidate_bbox`: its straight-line segments, each a list of effects in source order (harness/extract_c14.py). -/
def table : Table :=
  {{ climb := .{info["climb"]},
    rows := [
{rows}] }}

/-- `Layer._invalidate_bbox` without its docstring -/
def layerInvalidateSrc : String := {_lstr(info["layer_invalidate"])}
/-- `PSDImage._invalidate_bbox` without its docstring -/
def docInvalidateSrc : String := {_lstr(info["doc_invalidate"])}

end PsdVerif.Generated.FreshTable
"""
    ctx.write_generated("FreshTable", src)
    return info


if __name__ == "__main__":
    import json
    import sys
    info = read_table()
    print("climb:", info["climb"])
    for n, segs in info["rows"]:
        print(n)
        for s in segs:
            print("   ", [e[:5] if e[0] == "mutate" else e for e in s])
