"""C09 (save / reopen) extractor: where the rebuilt layer records are stored and where the reader takes
them from -> Generated/Reopen.lean.

Read from the AST of the current working tree on every run:
  * psd/__init__.py `PSD._get_layer_info`: the keys of the `for key in (...)` loop (the tagged blocks the
    reader prefers, in order) and the final `return` (the fallback);
    `PSD._iter_layers`: the expression bound to `layer_info`;
  * api/psd_image.py `PSDImage._init`: what the record loop iterates over;
    `PSDImage._update_record`: the guard of the early return, the call that rebuilds the lists, the
    expression bound to `layer_info` before the lists are stored, the attributes stored, the creation of an
    absent `layer_info`; `PSDImage.save`: its first statement;
    `_build_record_tree`: the classes tested by `isinstance`, and the sequence of calls on `layer_records`
    / `channel_image_data` inside the loop (bounding record, recursive call, own record).
Anything that is no longer found is written as the sentinel `<not found>`: the file is always written, the
tying theorems of Props/C09Reopen.lean (`storage_tied`, `build_record_tree_tied`, `stored_where_read`) then
fail, which is a broken tie (VIOLATION), never an infrastructure error.
"""
from __future__ import annotations

import ast

from core import REPO
from extract import lean_str

API = REPO / "src" / "psd_tools" / "api" / "psd_image.py"
PSD = REPO / "src" / "psd_tools" / "psd" / "__init__.py"
MISSING = "<not found>"


def _func(tree, name, cls=None):
    for n in ast.walk(tree):
        if cls is not None:
            if isinstance(n, ast.ClassDef) and n.name == cls:
                for m in n.body:
                    if isinstance(m, ast.FunctionDef) and m.name == name:
                        return m
        elif isinstance(n, ast.FunctionDef) and n.name == name:
            return n
    return None


def _assigned(fn, var):
    """source text of the value of the LAST plain assignment `var = ...` directly in `fn` (any depth)"""
    out = None
    for n in ast.walk(fn):
        if isinstance(n, ast.Assign) and len(n.targets) == 1 and isinstance(n.targets[0], ast.Name) \
                and n.targets[0].id == var:
            out = ast.unparse(n.value)
    return out


def _tags(node):
    out = []
    for n in ast.walk(node):
        if isinstance(n, ast.Attribute) and isinstance(n.value, ast.Name) and n.value.id == "Tag":
            out.append((n.lineno, n.col_offset, n.attr))
    return [a for _, _, a in sorted(out)]


def read_reader():
    info = {"reader_keys": [MISSING], "reader_fallback": MISSING, "iter_source": MISSING, "reader_reads": [MISSING]}
    tree = ast.parse(PSD.read_text())
    g = _func(tree, "_get_layer_info", "PSD")
    if g is not None:
        # every attribute chain rooted at `self` that the accessor reads (longest chains only): what the choice of the
        # place can depend on (the model's `readerSlot` depends on the presence of the two blocks, on nothing else)
        chains = set()
        for n in ast.walk(g):
            if isinstance(n, ast.Attribute):
                root = n
                while isinstance(root, ast.Attribute):
                    root = root.value
                if isinstance(root, ast.Name) and root.id == "self":
                    chains.add(ast.unparse(n))
        info["reader_reads"] = sorted(c for c in chains if not any(o != c and o.startswith(c + ".") for o in chains))
        loops = [n for n in ast.walk(g) if isinstance(n, ast.For)]
        if len(loops) == 1:
            body_returns = [n for n in ast.walk(loops[0]) if isinstance(n, ast.Return)]
            # `if key in tagged_blocks: return tagged_blocks.get_data(key)`
            if len(body_returns) == 1 and "get_data" in ast.unparse(body_returns[0]):
                info["reader_keys"] = _tags(loops[0].iter)
        rets = [n for n in g.body if isinstance(n, ast.Return)]
        if rets and rets[-1] is g.body[-1] and rets[-1].value is not None:
            info["reader_fallback"] = ast.unparse(rets[-1].value)
    it = _func(tree, "_iter_layers", "PSD")
    if it is not None:
        info["iter_source"] = _assigned(it, "layer_info") or MISSING
    return info


def _calls_on(stmts, var, prefix=""):
    """`var.method(arg)` expression statements in source order; `if isinstance(...)` bodies prefixed `group:`;
    an assignment from a recursive call is reported as `recurse(arg)`"""
    out = []
    for st in stmts:
        if isinstance(st, ast.If):
            out += _calls_on(st.body, var, prefix + "group:")
            if st.orelse:
                out += _calls_on(st.orelse, var, prefix + "else:")
            continue
        if isinstance(st, ast.Assign) and isinstance(st.value, ast.Call) and \
                isinstance(st.value.func, ast.Name) and st.value.func.id == "_build_record_tree":
            out.append(prefix + "recurse(%s)" % ", ".join(ast.unparse(a) for a in st.value.args))
            continue
        if isinstance(st, ast.Expr) and isinstance(st.value, ast.Call) and isinstance(st.value.func, ast.Attribute) \
                and isinstance(st.value.func.value, ast.Name) and st.value.func.value.id == var:
            out.append(prefix + "%s(%s)" % (st.value.func.attr, ", ".join(ast.unparse(a) for a in st.value.args)))
    return out


def read_writer():
    info = {"init_source": MISSING, "rebuild_guard": MISSING, "rebuild_call": MISSING, "writer_target": MISSING,
            "writer_stores": [(MISSING, MISSING)], "creates_layer_info": False, "save_first": MISSING,
            "group_classes": [MISSING], "loop_over": MISSING, "record_steps": [MISSING], "channel_steps": [MISSING],
            "returns": MISSING}
    tree = ast.parse(API.read_text())
    ini = _func(tree, "_init", "PSDImage")
    if ini is not None:
        loops = [n for n in ini.body if isinstance(n, ast.For)]
        if loops:
            info["init_source"] = ast.unparse(loops[0].iter)
    up = _func(tree, "_update_record", "PSDImage")
    if up is not None:
        body = [st for st in up.body if not (isinstance(st, ast.Expr) and isinstance(st.value, ast.Constant))]
        if body and isinstance(body[0], ast.If) and any(isinstance(n, ast.Return) for n in body[0].body):
            info["rebuild_guard"] = ast.unparse(body[0].test)
        for st in body:
            if isinstance(st, ast.Assign) and isinstance(st.value, ast.Call) and \
                    "_build_record_tree" in ast.unparse(st.value.func):
                info["rebuild_call"] = ast.unparse(st.value)
        info["writer_target"] = _assigned(up, "layer_info") or MISSING
        stores = []
        for st in body:
            if isinstance(st, ast.Assign) and len(st.targets) == 1 and isinstance(st.targets[0], ast.Attribute) \
                    and isinstance(st.targets[0].value, ast.Name) and st.targets[0].value.id == "layer_info":
                stores.append((st.targets[0].attr, ast.unparse(st.value)))
        if stores:
            info["writer_stores"] = stores
        for st in body[1:]:
            if isinstance(st, ast.If) and ast.unparse(st.test) == "not self._record.layer_and_mask_information.layer_info":
                if any(ast.unparse(b) == "self._record.layer_and_mask_information.layer_info = LayerInfo()" for b in st.body):
                    info["creates_layer_info"] = True
    sv = _func(tree, "save", "PSDImage")
    if sv is not None:
        body = [st for st in sv.body if not (isinstance(st, ast.Expr) and isinstance(st.value, ast.Constant))]
        if body:
            info["save_first"] = ast.unparse(body[0])
    br = _func(tree, "_build_record_tree")
    if br is not None:
        loops = [n for n in br.body if isinstance(n, ast.For)]
        if len(loops) == 1:
            lp = loops[0]
            info["loop_over"] = "for %s in %s" % (ast.unparse(lp.target), ast.unparse(lp.iter))
            tests = [st.test for st in lp.body if isinstance(st, ast.If)]
            if len(tests) == 1 and isinstance(tests[0], ast.Call) and ast.unparse(tests[0].func) == "isinstance":
                c = tests[0].args[1]
                info["group_classes"] = [ast.unparse(e) for e in (c.elts if isinstance(c, ast.Tuple) else [c])]
            info["record_steps"] = _calls_on(lp.body, "layer_records") or [MISSING]
            info["channel_steps"] = _calls_on(lp.body, "channel_image_data") or [MISSING]
        rets = [n for n in br.body if isinstance(n, ast.Return)]
        if rets and rets[-1].value is not None:
            info["returns"] = ast.unparse(rets[-1].value)
    return info


def _strs(xs):
    return "[" + ", ".join(lean_str(x) for x in xs) + "]"


def gen_reopen(ctx):
    r = read_reader()
    w = read_writer()
    via_reader = w["writer_target"].endswith("._get_layer_info()") and r["iter_source"].endswith("._get_layer_info()")
    stores = ", ".join("(%s, %s)" % (lean_str(a), lean_str(b)) for a, b in w["writer_stores"])
    src = f"""
namespace PsdVerif.Generated.Reopen

/-- `PSD._get_layer_info`: keys of the `for key in (...)` loop; the data of the first one present is returned -/
def readerKeys : List String := {_strs(r["reader_keys"])}
/-- … else its final `return` -/
def readerFallback : String := {lean_str(r["reader_fallback"])}
/-- `PSD._get_layer_info`: every attribute chain rooted at `self` it reads (maximal ones, sorted) -/
def readerReads : List String := {_strs(r["reader_reads"])}
/-- `PSD._iter_layers`: the expression bound to `layer_info` -/
def iterSource : String := {lean_str(r["iter_source"])}
/-- `PSDImage._init`: what the record loop iterates over -/
def initSource : String := {lean_str(w["init_source"])}
/-- `PSDImage.save`: its first statement -/
def saveFirst : String := {lean_str(w["save_first"])}
/-- `_update_record`: guard of the early return (nothing is rebuilt), the call that rebuilds the lists -/
def rebuildGuard : String := {lean_str(w["rebuild_guard"])}
def rebuildCall : String := {lean_str(w["rebuild_call"])}
/-- `_update_record`: `if not ….layer_info: ….layer_info = LayerInfo()` is present -/
def createsLayerInfo : Bool := {"true" if w["creates_layer_info"] else "false"}
/-- `_update_record`: the expression bound to `layer_info` before the rebuilt lists are stored … -/
def writerTarget : String := {lean_str(w["writer_target"])}
/-- … and the attributes of it that are assigned -/
def writerStores : List (String × String) := [{stores}]
/-- writer and reader go through the same accessor (`_get_layer_info`) -/
def writerViaReader : Bool := {"true" if via_reader else "false"}

/-- `_build_record_tree`: the loop, the classes of the `isinstance` test, the calls on `layer_records` and
on `channel_image_data` in source order (`group:` = inside the `isinstance` branch), the value returned -/
def loopOver : String := {lean_str(w["loop_over"])}
def groupClasses : List String := {_strs(w["group_classes"])}
def recordSteps : List String := {_strs(w["record_steps"])}
def channelSteps : List String := {_strs(w["channel_steps"])}
def returns : String := {lean_str(w["returns"])}

end PsdVerif.Generated.Reopen
"""
    ctx.write_generated("Reopen", src)
    missing = [k for k, v in list(r.items()) + list(w.items())
               if v == MISSING or v == [MISSING] or v == [(MISSING, MISSING)]]
    if missing:
        ctx.notes.append("extract_c09: not found in the current source: %s (Generated/Reopen.lean carries the sentinel; "
                         "the tying theorems of Props/C09Reopen.lean fail)" % ", ".join(missing))
    return {"reader": r, "writer": w}
