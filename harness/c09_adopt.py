"""C09, cross-document half: a layer adopted by another document (other file version PSD / PSB, other depth,
other colour mode) is still a readable layer there, shows the same pixels where the two documents store planes in the
same layout (mode and depth), and both documents survive save + reopen with the pixels they show in memory.

Worlds (`treeops.build_adopt`): a source document - a fixture (every small fixture with raster layers: masks, effects
blocks, planes with mixed compression as Photoshop writes them) or an API-built one whose layers use one compression or
another one for the transparency plane - and a target document of the chosen mode / depth / version.
Histories: every adopting operation on every raster layer / group with raster layers (move_to_group, append, insert,
extend, item and slice assignment, group_layers), in both directions, there and back, + random walks.
Oracles (none uses the model):
  readable    every raster layer listed below a document decodes (numpy: colour, shape, mask planes)
  kept        a raster layer that lies in a document whose mode and depth are those of the document it was made for
              shows the pixels it showed before the history (visible content: colour where the layer is not transparent,
              8-bit precision, one unit of rounding)
  reopen      after save + open both documents have the same tree (C09.save_signature) and every raster layer decodes to
              exactly the pixels it has in memory
"""
from __future__ import annotations

import io
import os

import numpy as np

import core
import treeops as T
from psd_tools.constants import Resource as T_RESOURCE  # noqa: E402

SMALL = 140000          # fixtures up to this size are sources
MIXED_FIRST = ["transparency/clip-opacity.psd", "effects/stroke-effects.psd", "vector-mask2.psd", "mask_parameters.psd"]
CMAP = {0: "raw", 1: "rle", 2: "zip", 3: "zipp"}


# ------------------------------------------------------------------------------------------
# worlds
# ------------------------------------------------------------------------------------------
def fixture_sources():
    """small fixtures with at least one raster layer, the ones whose layers mix compressions first"""
    out = []
    for root, _, files in os.walk(T.FIX):
        for f in files:
            p = os.path.join(root, f)
            if f.lower().endswith((".psd", ".psb")) and os.path.getsize(p) <= SMALL:
                out.append(os.path.relpath(p, T.FIX))
    out.sort()
    return out


_RASTER: dict = {}


def raster_info(rel):
    """(mode, depth, version, number of raster layers, mixed compression?) of a fixture; None when it cannot be a source"""
    if rel not in _RASTER:
        info = None
        try:
            psd = T.PSDImage.open(str(T.FIX / rel))
            px = [l for l in psd.descendants() if isinstance(l, T.PixelLayer)]
            if px and psd.pil_mode in ("L", "LA", "RGB", "RGBA", "CMYK"):
                mixed = any(len({int(c.compression) for c in l._channels}) > 1 for l in px)
                info = (psd.pil_mode, psd.depth, psd.version, len(px), mixed)
        except Exception:  # noqa
            info = None
        _RASTER[rel] = info
    return _RASTER[rel]


def worlds(rng, quick):
    """[(recipe, boundary?)]: boundary worlds are always explored, the others are a seeded sample in the quick tier"""
    always, rest = [], []
    fixtures = [f for f in fixture_sources() if raster_info(f)]
    for f in fixtures:
        mode, depth, version, n, mixed = raster_info(f)
        r = ("adopt", "f:" + f, "=:=:%d" % (3 - version))         # the other file version, same layout
        (always if mixed or f in MIXED_FIRST else rest).append(r)
        rest.append(("adopt", "f:" + f, "=:=:%d" % version))      # same version (planes taken over)
        if depth == 8:
            rest.append(("adopt", "f:" + f, "=:16:%d" % (3 - version)))
    # API-built sources: mode x depth x version x compression (+ another compression for the transparency plane)
    singles = ["raw", "rle", "zip", "zipp"]
    pairs = [a + "+" + b for a in singles for b in singles if a != b]
    for mode in ("RGB", "L", "CMYK"):
        for depth in (8, 16, 32):
            for version in (1, 2):
                for comp in singles + pairs:
                    r = ("adopt", "n:%s:%d:%d:%s" % (mode, depth, version, comp), "=:=:%d" % (3 - version))
                    edge = (mode, depth) == ("RGB", 8) and comp in ("raw+rle", "rle+raw", "raw", "rle") or \
                        (comp == "raw+rle" and depth == 8)
                    (always if edge else rest).append(r)
    # other layouts: the conversion path proper
    for (m1, d1, m2, d2) in (("RGB", 8, "L", 8), ("L", 8, "RGB", 16), ("RGB", 16, "RGB", 8), ("CMYK", 8, "RGB", 8),
                             ("RGB", 8, "CMYK", 8), ("RGB", 32, "RGB", 16), ("L", 16, "L", 32)):
        for v1, v2 in ((1, 2), (2, 1), (1, 1)):
            rest.append(("adopt", "n:%s:%d:%d:%s" % (m1, d1, v1, "raw+rle" if v1 != v2 else "rle"), "%s:%d:%d" % (m2, d2, v2)))
    if quick:
        rest = rng.sample(rest, 14)
    else:
        rest = rng.sample(rest, min(len(rest), 250))
    return [(r, True) for r in always] + [(r, False) for r in rest]


def directed(w, rng, quick):
    """adopting histories of the world: every way a raster layer / a group above raster layers gets into the other
    document"""
    docs = w.docs()
    A, B = docs[0], docs[1]
    att = T.attached(w)
    sh = T.Shadow(w)
    b1, gb = B + 1, B + 2
    raster = [i for i in w.layers() if isinstance(w.objs[i], T.PixelLayer) and i in att and i < B]
    groups = [g for g in w.groups() if g in att and g < B and any(
        isinstance(l, T.PixelLayer) for l in T.walk_layers(w.objs[g]))]
    hs = []
    if raster:
        x = raster[0]
        hs.append([("move", x, B)])
        hs.append([("move", y, B) for y in raster[:6]])                             # all of them, one by one
        hs.append([("move", x, gb)])
        px = sh.container_of(x)
        hs.append([("remove", px, x), ("append", gb, x)])
        hs.append([("remove", px, x), ("insert", B, 0, x)])
        hs.append([("remove", px, x), ("setitem", B, 0, x)])
        hs.append([("remove", px, x), ("setslice", B, 0, 0, (x,))])
        hs.append([("move", x, B), ("move", x, A)])                                  # there and back
        hs.append([("grouplayers", (x,), B)])
        if len(raster) > 1:
            y = raster[-1]
            py = sh.container_of(y)
            hs.append([("remove", px, x), ("remove", py, y), ("extend", gb, (x, y))] if (px, x) != (py, y) else [])
            hs.append([("move", y, B)])
    for g in groups[:2]:
        hs.append([("move", g, B)])
        hs.append([("move", g, gb), ("move", g, A)])
    hs.append([("move", b1, A)])                                                     # the other direction
    hs.append([("move", b1, A), ("move", b1, gb)])
    hs.append([("move", gb, A), ("move", b1, gb)])
    hs = [h for h in hs if h]
    if quick and len(hs) > 7:
        hs = hs[:3] + rng.sample(hs[3:], 4)
    return hs


# ------------------------------------------------------------------------------------------
# pixels
# ------------------------------------------------------------------------------------------
def planes(layer):
    """('ok', colour, shape, mask) as arrays (None where the layer has no such plane) | ('err', class)"""
    try:
        # (numpy("mask") of a layer without a mask raises AttributeError in the library: asked only where there is one)
        return ("ok", layer.numpy("color"), layer.numpy("shape"), layer.numpy("mask") if layer.has_mask() else None)
    except RecursionError:
        return ("err", "RecursionError")
    except Exception as e:  # noqa
        return ("err", core.err_class(e))


def visible(p):
    """visible content at 8-bit precision: shape plane and colour where the shape is not zero"""
    if p[0] != "ok" or p[1] is None:
        return None
    c = np.asarray(p[1], dtype=np.float64)
    s = np.ones(c.shape[:2] + (1,)) if p[2] is None else np.asarray(p[2], dtype=np.float64).reshape(c.shape[:2] + (1,))
    c8, s8 = np.round(np.clip(c, 0, 1) * 255), np.round(np.clip(s, 0, 1) * 255)
    return np.where(s8 > 0, c8, 0), s8


def same_visible(a, b, tol=1):
    if a is None or b is None:
        return a is None and b is None
    return a[0].shape == b[0].shape and a[1].shape == b[1].shape and \
        float(np.abs(a[0] - b[0]).max(initial=0)) <= tol and float(np.abs(a[1] - b[1]).max(initial=0)) <= tol


def same_planes(a, b):
    if a[0] != "ok" or b[0] != "ok":
        return a == b
    for x, y in zip(a[1:], b[1:]):
        if (x is None) != (y is None):
            return False
        if x is not None and (x.shape != y.shape or x.tobytes() != y.tobytes()):
            return False
    return True


def layout(psd):
    return "%s-%s%d" % ("PSB" if psd.version == 2 else "PSD", psd.pil_mode, psd.depth)


def features(layer):
    """what a rendering of the layer shows beside its own pixels, in a fixed order"""
    f = []
    try:
        if not layer.visible:
            f.append("hidden-layer")
        if layer.opacity != 255:
            f.append("opacity-below-255")
        if layer.has_mask() or layer.has_vector_mask():
            f.append("mask")
        if layer.has_effects() or any(k in layer.tagged_blocks for k in (T.Tag.OBJECT_BASED_EFFECTS_LAYER_INFO,
                                                                         T.Tag.EFFECTS_LAYER)):
            f.append("effects")
        if layer.clipping_layer or layer.has_clip_layers():
            f.append("clipping")
    except Exception:  # noqa
        f.append("unreadable-attributes")
    return f


def has_icc(psd):
    try:
        return T_RESOURCE.ICC_PROFILE in psd.image_resources
    except Exception:  # noqa
        return False


def compressions(layer):
    cs = [CMAP.get(int(c.compression), str(int(c.compression))) for c in layer._channels]
    return "+".join(dict.fromkeys(cs))


class Snapshot:
    """what every raster layer of a fresh world shows, and what it is"""

    def __init__(self, w):
        self.at = {}
        for i in w.layers():
            l = w.objs[i]
            if isinstance(l, T.PixelLayer) and l._psd is not None:
                p = planes(l)
                self.at[i] = {"visible": visible(p), "readable": p[0] == "ok", "layout": layout(l._psd),
                              "home": (l._psd.pil_mode, l._psd.depth), "features": features(l),
                              "compressions": compressions(l), "name": l.name}


def _states(t):
    """[{id: (kind, parent, document, visible flag)}]: before the history, then after every operation"""
    first = {}
    for n in t.init.split(";")[1:]:
        f = n.split(" ")
        first[int(f[0])] = (f[1], f[2], f[3], f[4] == "1")
    out = [first]
    for d in t.dumps:
        st = {}
        for i, n in d.items():
            f = n.split(" ")
            st[i] = (f[1], f[3], f[4], f[5] == "1")
        out.append(st)
    return out


def _shown(st, i):
    """is_visible() of layer i in state st: own flag, every ancestor's flag, and the chain ends in a document"""
    n = 0
    while n < 200:
        k, par, _, vis = st.get(i, ("l", "_", "_", False))
        if k == "d":
            return True
        if not vis or par == "_" or int(par) not in st:
            return False
        i, n = int(par), n + 1
    return False


def journey(t, i):
    """the adoptions of layer i during the history: [(step, document before, document after, shown before?)]"""
    sts = _states(t)
    out = []
    for k in range(1, len(sts)):
        a, b = sts[k - 1].get(i), sts[k].get(i)
        if a and b and a[2] != b[2] and b[2] != "_":
            op = t.ops[k - 1]
            out.append((k - 1, a[2], b[2], _shown(sts[k - 1], i) and op[0] != "grouplayers"))
    return out


def features_at(t, i, step):
    """features of layer i just before operation `step` of the history (the moment of an adoption): the history is
    replayed on a fresh world up to that step; attributes set by earlier operations (clipping flags, hidden
    ancestors, opacity ...) count, those of the final state alone do not"""
    try:
        w2 = T.build(tuple(t.world.recipe))
        for op in t.ops[:step]:
            T.apply_real(w2, op)
        return features(w2.objs[i])
    except Exception:  # noqa
        return []


def pixel_problems(t, snap):
    """readable + kept on the final world of trace t; returns [(signature, what, layer id)]"""
    out = []
    w = t.world
    att = T.attached(w)
    for i, before in snap.at.items():
        l = w.objs[i]
        if i not in att or l._psd is None or not before["readable"]:
            continue
        now = planes(l)
        here = layout(l._psd)
        moved = "%s-to-%s" % (before["layout"].split("-")[0], here.split("-")[0])
        if now[0] != "ok":
            out.append(("C09/adopt-pixels/unreadable/%s/%s" % (moved, before["compressions"]),
                        "raster layer %d %r (planes %s, made for a %s document) cannot be decoded in the %s document that "
                        "lists it now: numpy() raises %s" % (i, before["name"], before["compressions"], before["layout"],
                                                             here, now[1]), i))
            continue
        trip = journey(t, i)
        docs = {str(d): w.objs[d] for d in w.docs()}
        visited = [docs[x] for _, a, b, _ in trip for x in (a, b) if x in docs]
        if any((p.pil_mode, p.depth) != before["home"] for p in visited + [l._psd]):
            continue                      # another layout on the way: a conversion (readable / reopen only)
        converted = [s for s in trip if docs[s[1]].version != docs[s[2]].version] if all(
            s[1] in docs and s[2] in docs for s in trip) else trip
        v = visible(now)
        if not same_visible(before["visible"], v, tol=max(1, len(converted))):
            feats = (["invisible-at-adoption"] if any(not s[3] for s in converted) else []) + \
                list(dict.fromkeys(before["features"] + features(l) + [f for s_ in converted for f in features_at(t, i, s_[0])])) + (["depth32"] if l._psd.depth == 32 else []) + \
                (["icc-profile"] if any(has_icc(p) for p in visited) else [])
            feats = [f for f in feats if f != "hidden-layer"]
            if feats and converted:
                # the conversion renders the layer (composite()): everything a rendering shows beside the layer's own
                # pixels is burnt into them
                sig = "C09/adopt-pixels/rendered-into-pixels/%s" % feats[0]
            else:
                sig = "C09/adopt-pixels/changed/%s/%s" % (moved, before["compressions"])
            out.append((sig, "raster layer %d %r (planes %s%s) shows other pixels after the history than before it although "
                        "the document that lists it now (%s) stores planes like the one it was made for (%s): %s"
                        % (i, before["name"], before["compressions"],
                           "; " + ", ".join(feats) if feats else "", here, before["layout"],
                           _difference(before["visible"], v)), i))
    return out


def _difference(a, b):
    if a is None or b is None:
        return "no pixels %s" % ("before" if a is None else "after")
    if a[0].shape != b[0].shape:
        return "shape %s before, %s after" % (a[0].shape, b[0].shape)
    return "colour differs by up to %d, transparency by up to %d (of 255) in %d of %d pixels" % (
        int(np.abs(a[0] - b[0]).max(initial=0)), int(np.abs(a[1] - b[1]).max(initial=0)),
        int(((np.abs(a[0] - b[0]).max(axis=2) > 1) | (np.abs(a[1] - b[1]).max(axis=2) > 1)).sum()),
        a[1].shape[0] * a[1].shape[1])


def reopen_problems(w, d, C09):
    """save + open document d: tree (C09's oracle) and pixels of every raster layer, in tree order"""
    psd = w.objs[d]
    r = T.save_reopen(psd)
    f = C09.save_signature(w, d, r)
    if f:
        return [f], r
    try:
        q = T.PSDImage.open(io.BytesIO(r[3]))
    except Exception as e:  # noqa
        return [("C09/save-raises/open-%s/%s" % (core.err_class(e), C09.doc_label(psd)), "reopen raises", )], r
    out = []
    for l, m in zip(T.walk_layers(psd), T.walk_layers(q)):
        if not isinstance(l, T.PixelLayer):
            continue
        a, b = planes(l), planes(m)
        if a[0] != "ok":
            continue                      # reported by `readable`
        if not same_planes(a, b):
            out.append(("C09/save-reopen/pixels/%s" % layout(psd),
                        "document %d (%s): raster layer %r decodes to other pixels after save + open (%s) than in memory"
                        % (d, layout(psd), l.name, b[1] if b[0] != "ok" else _difference(visible(a), visible(b)))))
            break
    return out, r


def check_history(recipe, ops, C09, snap=None):
    """run one history on a fresh world and evaluate the three oracles; returns (trace, [(signature, what, document)])"""
    t = T.run_history(tuple(recipe), list(ops), check_fresh=False, check_inv=False)
    w = t.world
    if t.stopped is not None or t.out_of_model is not None or len(T.guarded(tuple(recipe), list(ops))) != len(ops):
        return t, []
    snap = snap or Snapshot(T.build(tuple(recipe)))
    found = pixel_problems(t, snap)
    probs = [(s, what, None) for s, what, _ in found]
    broken = {w.idof(w.objs[i]._psd) for s, _, i in found if "/unreadable/" in s}
    for d in w.docs():
        if d in broken:
            continue                      # a layer that cannot be decoded: save() cannot render the document either
        ps, _ = reopen_problems(w, d, C09)
        probs += [(p[0], p[1], d) for p in ps]
    return t, probs


def run_block(ctx, C09):
    """the block of C09.run(): returns (traces for the model correspondence of the caller, traces of worlds with
    canvas-dependent leaves: nested-list replay and oracles only)"""
    rng = ctx.rng
    traces, others, fails = [], [], []
    W = worlds(rng, ctx.quick)
    n_hist = 0
    for recipe, boundary in W:
        try:
            w0 = T.build(recipe)
        except core.Infra:
            raise
        except Exception as e:  # noqa
            # the builder uses the public API (+ ChannelData for per-plane compression): a source that no longer lets
            # it build a world differs from the one the check was written for
            ctx.hist("adopt_worlds", "cannot-build-%s" % core.err_class(e))
            ctx.disagree("adopt: the world cannot be built (%s)" % core.err_class(e), {"recipe": list(recipe)})
            continue
        snap = Snapshot(w0)
        # the model keeps the box of a shape / fill leaf constant (treeops.ASSUME); the real box follows the canvas of the
        # document, and here the two documents have different canvases: such worlds are not compared with the model
        # (nested-list replay, pixels and save / reopen are)
        canvas_leaves = any(isinstance(w0.objs[i], (T.ShapeLayer, T.FillLayer)) for i in w0.layers())
        hs = directed(w0, rng, not boundary)
        if ctx.quick and boundary and len(hs) > 9:
            hs = hs[:5] + rng.sample(hs[5:], 4)
        for _ in range(1 if ctx.quick else 3):
            hs.append(T.guarded(recipe, T.random_walk(recipe, rng, rng.randrange(2, 8 if ctx.quick else 20),
                                                      p_unguarded=0.0, p_attr=0.1)))
        ctx.hist("adopt_worlds", "%s -> %s" % (recipe[1].split(":")[0] + ":" + (recipe[1].split(":", 1)[1] if recipe[1][0] == "n" else "fixture"), recipe[2]))
        for h in hs:
            t, probs = check_history(recipe, h, C09, snap)
            if canvas_leaves:
                others.append(t)
            else:
                traces.append(t)
            n_hist += 1
            ctx.hist("adopt_outcome", "stopped" if (t.stopped is not None or t.out_of_model is not None) else
                     ("ok" if not probs else "problem"))
            for sig, what, d in probs:
                fails.append((sig, what, {"recipe": list(recipe), "ops": T.ops_to_json(t.ops), "document": d}))
    seen = set()
    for sig, what, case in fails:
        ctx.hist("problems_seen", sig)
        if sig in seen:
            for f in ctx.failures:
                if f["signature"] == sig:
                    f["count"] = f.get("count", 1) + 1
            continue
        seen.add(sig)
        ops = T.ops_from_json(case["ops"])

        def test(sub, case=case, sig=sig):
            _, ps = check_history(case["recipe"], sub, C09)
            return any(p[0] == sig for p in ps)
        try:
            if len(ops) > 1:
                ops = core.ddmin(ops, test)
            _, ps = check_history(case["recipe"], ops, C09)
            again = [p for p in ps if p[0] == sig]
            if again:
                case, what = dict(case, ops=T.ops_to_json(ops), document=again[0][2]), again[0][1]
        except core.Infra:
            raise
        except Exception:  # noqa
            pass
        ctx.fail(sig, what, case, observed=what,
                 expected="an adopted raster layer decodes in its new document, shows the pixels it showed before when "
                          "the two documents store planes alike (mode, depth), and both documents reopen with the tree "
                          "and the pixels they have in memory")
    ctx.extra["adopt_worlds"] = len(W)
    ctx.extra["adopt_histories"] = n_hist
    return traces, others


def replay(ctx, data, C09):
    inp = data.get("input") or {}
    t, probs = check_history(inp["recipe"], T.ops_from_json(inp["ops"]), C09)
    for sig, what, d in probs:
        print("  ", sig, ":", what[:400])
    return 0
