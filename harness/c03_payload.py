"""C03, payload interiors: the specification walkers of lean/PsdVerif/Model/WalkerPayload.lean (written from the Adobe text,
not from psd-tools' readers) driven over real bytes.

  (a) validation of the walkers: every Photoshop-written fixture goes through `walkp.deep` (skeleton walker, then the payload
      walker of every tagged block at every Lr16/Lr32 nesting level and of every image resource). A rejection there means my
      transcription of the specification is wrong (ctx.disagree) - deviations are recorded in the Lean file, not papered over.
      The evidence for the recorded deviations (D1..D8) is re-counted on the fixtures every run.
  (b) search: the same walk over what the library writes - every file any other part of this check produces (generated
      documents, re-saved fixtures, API documents, payload-gen documents, typed documents, c03_writers documents) is offered
      to `deep_check`; the payload of every generated payload-gen instance also goes through its walker standalone.
      A rejection of library-written bytes is a concrete failing input (ctx.fail).

An interior length that is untruthful without moving the end of the payload (a count one too small with the surplus taken for
filler, a string count in characters) is what the walkers' exact-landing rule is for: every declared length opens a
sub-stream that has to be consumed (up to the recorded filler)."""
from __future__ import annotations

import io
import time

import codec_common as cc
import core

LAYER_INFO_KEYS = (b"Lr16", b"Lr32", b"Layr")


def slug(s):
    return "".join(c if c.isalnum() else "-" for c in str(s).lower()).strip("-")[:60]


def parse_deep(a):
    """-> ('ok', end, n_skeleton, n_payload, regions) | ('err', sect, pos, reason)"""
    if a[0] == "ok":
        regs = []
        for t in (a[4].split() if len(a) > 4 else []):
            o, l, k = t.split(":", 2)
            regs.append((int(o), int(l), k))
        return ("ok", int(a[1]), int(a[2]), int(a[3]), regs)
    if a[0] == "walk-err":
        return ("err", a[1], int(a[2]), a[3])
    return ("err", "driver", 0, " ".join(a)[:80])


SKELETON_SECTS = {"header", "color-mode-data", "image-resources", "image-resource", "layer-and-mask", "layer-info",
                  "layer-record", "layer-mask-data", "layer-blending-ranges", "layer-name", "layer-tagged-blocks",
                  "global-layer-mask", "global-tagged-blocks", "channel-image-data", "image-data"}

_seen: set = set()
_stats = {"files": 0, "payload_regions": 0, "rejected": 0, "seconds": 0.0}


def context_of(b: bytes, pos: int):
    """which block / resource holds offset `pos` (Python reading of the skeleton regions, for the report only)"""
    try:
        a = cc.pbatch([("psd.walk", b.hex())])[0]
        if a[0] != "ok":
            return None
        best = None
        for t in a[3].split():
            o, l, k = t.split(":", 2)
            o, l = int(o), int(l)
            if k in ("tagged-block", "image-resource") and o <= pos <= o + l and (best is None or pos < o + l):
                if k == "tagged-block":
                    best = {"container": k, "key": b[o + 4:o + 8].decode("latin1"), "offset": o, "length": l}
                else:
                    best = {"container": k, "id": int.from_bytes(b[o + 4:o + 6], "big"), "offset": o, "length": l}
        return best
    except Exception:  # noqa
        return None


def registered_container(where):
    """does psd-tools write this payload itself (a registered class), or are the bytes the caller's?"""
    try:
        from psd_tools.psd import image_resources as IR, tagged_blocks as TB
        if not where:
            return True
        if where["container"] == "image-resource":
            return any(getattr(k, "value", k) == where["id"] for k in IR.TYPES)
        return any(getattr(k, "value", k) == where["key"].encode("latin1") for k in TB.TYPES)
    except Exception:  # noqa
        return True


def deep_check(ctx, items, original=False, known=None):
    """items: [(label, scenario, bytes)] of files the skeleton walker accepts (others are skipped: the skeleton check owns
    them). original=True: Photoshop-written (a rejection is a wrong transcription, not a finding)."""
    t0 = time.time()
    todo = []
    for label, scen, b in items:
        if not b or len(b) > (30_000_000 if original else 3_000_000):
            continue
        h = hash(b)
        if (h, original) in _seen:
            continue
        _seen.add((h, original))
        todo.append((label, scen, b))
    answers = cc.pbatch([("walkp.deep", b.hex()) for _, _, b in todo]) if todo else []
    for (label, scen, b), a in zip(todo, answers):
        r = parse_deep(a)
        ctx.corr_cases += 1
        _stats["files"] += 1
        if r[0] == "ok":
            _stats["payload_regions"] += r[3]
            ctx.hist("payload_walker", ("fixture:" if original else "written:") + "accepts")
            for _, _, k in r[4]:
                ctx.hist("payload_regions", k)
            continue
        _, sect, pos, reason = r
        if sect in SKELETON_SECTS:
            sk = cc.pbatch([("psd.walk", b.hex())])[0]
            if not (sk[0] == "ok" and int(sk[2]) == len(b)):
                # the skeleton walker fell off: reported (or known) by the skeleton check
                ctx.hist("payload_walker", "skeleton-falls-off (owned by the skeleton check)")
                continue
        _stats["rejected"] += 1
        where = context_of(b, pos)
        if original:
            ctx.hist("payload_walker", "fixture:rejects")
            ctx.disagree("a payload walker rejects a Photoshop-written fixture (my transcription of the specification is wrong "
                         "or a deviation is not recorded)", {"file": label, "section": sect, "pos": pos, "reason": reason, "where": where})
            continue
        if sect == "path" and path_shape_is_the_callers(b, where):
            # the library's `Subpath` takes any records as items and `Path` takes knots at top level; a generator that builds
            # such an object graph (a subpath inside a subpath, a fill rule among the knots, a bare knot) gets it written
            # faithfully - the count announces the ITEMS of the object, which the format only describes when they are knots.
            # The shape is the caller's, as with raw caller bytes (quick tier seed 42 / thorough seed 31 reported two such)
            ctx.hist("payload_walker", "written:path object graph the format does not describe, built by the caller (skipped)")
            continue
        if not registered_container(where) or callers_raw_bytes(b, pos):
            # an id / key psd-tools has no class for: the bytes are the caller's (a generator's blob), not the library's
            ctx.hist("payload_walker", "written:raw payload of an unregistered key / id supplied by the caller (skipped)")
            continue
        ctx.hist("payload_walker", "written:rejects:" + sect)
        keypart = slug((where or {}).get("key", (where or {}).get("id", "")))
        if reason.startswith("odd tagged block length") and not original:
            # the known finding of the skeleton check, met in the records of an Lr16 / Lr32 / Layr block
            sig = "C03/tagged-block/odd-length-in-layer-record"
        else:
            sig = (known(label, scen, b, sect, reason, where) if known else None) or \
                "C03/payload/%s/%s/%s" % (slug(sect), keypart or "x", slug(reason))
        ctx.fail(sig, "a payload walker falls off bytes written by psd-tools: an interior length or count does not delimit what "
                      "it announces",
                 {"scenario": scen, "label": label, "file": b.hex() if len(b) < 200000 else None, "entry": "walkp.deep"},
                 {"section": sect, "pos": pos, "reason": reason, "where": where},
                 "every declared length / count inside the payload lands where the enclosing length says")
    _stats["seconds"] += time.time() - t0


# ------------------------------------------------------------------------------------------------ standalone payloads

def root_request(root, data: bytes):
    """driver request for the payload `data` of a harvested root (tagged block / image resource)"""
    key = root.key
    if root.kind == "resource":
        return ("walkp.resource", int(getattr(key, "value", key)), data.hex() if data else "-")
    kb = getattr(key, "value", key)
    return ("walkp.block", root.version, kb.hex(), data.hex() if data else "-")


def payload_of_container(root, cont: bytes):
    """the bytes inside the length field of a written tagged block / image resource"""
    if root.kind == "resource":
        nl = cont[6]
        q = 7 + nl + ((1 + nl) % 2)
        n = int.from_bytes(cont[q:q + 4], "big")
        return cont[q + 4:q + 4 + n]
    key = cont[4:8]
    w = 8 if (root.version == 2 and key in BIG_CODE()) else 4
    n = int.from_bytes(cont[8:8 + w], "big")
    return cont[8 + w:8 + w + n]


def BIG_CODE():
    """the width the *library* uses for the length field of a key (its own table: the bytes are the library's)"""
    try:
        from psd_tools.psd.tagged_blocks import TaggedBlock
        return set(getattr(k, "value", k) for k in TaggedBlock._BIG_KEYS)
    except Exception:  # noqa
        return BIG


def fixture_payloads(ctx, fx_all):
    """(a) every tagged block / image resource payload of every fixture, as Photoshop wrote it, standalone through
    walkp.block / walkp.resource (the deep walk does the same in place; this one counts per key and gives a coverage table)"""
    import c03_extra  # noqa: F401
    reqs, meta = [], []
    blobs = [(f, f.read_bytes()) for f in fx_all if f.stat().st_size <= 30_000_000]
    walks = cc.pbatch([("psd.walk", b.hex()) for _, b in blobs]) if blobs else []
    for (f, b), a in zip(blobs, walks):
        if a[0] != "ok":
            continue
        version = int(a[1].split()[0])
        for t in a[3].split():
            o, l, k = t.split(":", 2)
            o, l = int(o), int(l)
            if k == "tagged-block":
                key = b[o + 4:o + 8]
                w = 8 if (version == 2 and key in BIG) else 4
                n = int.from_bytes(b[o + 8:o + 8 + w], "big")
                reqs.append(("walkp.block", version, key.hex(), b[o + 8 + w:o + 8 + w + n].hex() or "-"))
                meta.append((f.name, "block", key.decode("latin1"), o))
            elif k == "image-resource":
                rid = int.from_bytes(b[o + 4:o + 6], "big")
                nl = b[o + 6]
                q = o + 7 + nl + ((1 + nl) % 2)
                n = int.from_bytes(b[q:q + 4], "big")
                reqs.append(("walkp.resource", rid, b[q + 4:q + 4 + n].hex() or "-"))
                meta.append((f.name, "resource", str(rid), o))
    return reqs, meta


BIG = {b"LMsk", b"Lr16", b"Lr32", b"Layr", b"Mt16", b"Mt32", b"Mtrn", b"Alph", b"FMsk", b"lnk2", b"FEid", b"FXid", b"PxSD",
       b"cinf", b"lnkE", b"pths"}


def run_fixtures(ctx, fx_all):
    t0 = time.time()
    fx = [f for f in fx_all if f.stat().st_size <= (100_000 if ctx.quick else 30_000_000)]
    # in place, every level
    deep_check(ctx, [(f.name, "fixture-original", f.read_bytes()) for f in fx], original=True)
    # standalone, with the per-key table (quick tier: the small fixtures only)
    reqs, meta = fixture_payloads(ctx, [f for f in fx if not ctx.quick or f.stat().st_size <= 30_000])
    answers = cc.pbatch(reqs) if reqs else []
    table: dict = {}
    for (fname, kind, key, off), a in zip(meta, answers):
        e = table.setdefault(kind + ":" + key, {"payloads": 0, "walked": 0, "rejected": 0, "regions": 0})
        e["payloads"] += 1
        if a[0] == "none":
            continue
        ctx.corr_cases += 1
        if a[0] == "ok":
            e["walked"] += 1
            e["regions"] += int(a[1])
        else:
            e["rejected"] += 1
            ctx.disagree("a payload walker rejects a Photoshop-written payload (my transcription of the specification is wrong "
                         "or a deviation is not recorded)",
                         {"file": fname, "container": kind, "key": key, "block_offset": off, "answer": a[:4]})
    ctx.extra["payload_walkers_on_fixtures"] = {
        "fixtures": len(fx), "payloads": len(reqs),
        "walked (a walker exists for the key / id)": sum(e["walked"] for e in table.values()),
        "rejected": sum(e["rejected"] for e in table.values()),
        "by key (payloads, walked, regions)": {k: [e["payloads"], e["walked"], e["regions"]] for k, e in sorted(table.items()) if e["walked"]},
        "keys without a walker (no interior length or count, fixed layout, or free text)": sorted(k for k, e in table.items() if not e["walked"] and not e["rejected"]),
        "seconds": round(time.time() - t0, 1)}


# ------------------------------------------------------------------------------------------------ library-written payloads

def run_generated(ctx):
    """(b) the payload-gen instances: inside whole documents (walkp.deep) and - for instances that are themselves the data of a
    tagged block / image resource - standalone through the walker of their key"""
    import payload_gen as pg
    try:
        gen, stats, secs, nfx = pg._setup(ctx, pg._variants_c01())
    except Exception as e:  # noqa
        ctx.disagree("payload generator could not be built on the current source: %s" % type(e).__name__, {"error": repr(e)[:300]})
        return
    t0 = time.time()
    limit = 20000 if ctx.quick else 200000
    docs, seen, standalone = [], set(), []
    for K, bases, cases in gen:
        for c in cases:
            r = c.res
            if not r.written_ok or c.occ is None or c.occ.setter is None or len(r.data) > limit:
                continue
            # instances the library itself reads back as what was written: an object whose count attribute contradicts its
            # own list (layer_count = 5 with one record) is not a value the format can hold - the library's reader rejects
            # or re-reads it differently, and C01 owns that
            # ... except a variant that only changes the length of the content of a str / bytes attribute: every length such
            # an attribute has on disk is derived by the writer, the object cannot contradict itself
            try:
                strvar = ("+" not in c.field and isinstance(getattr(c.x, c.field, None), (str, bytes))
                          and isinstance(getattr(c.base, c.field, None), (str, bytes)) and c.group == "length")
            except Exception:  # noqa
                strvar = False
            if (r.verdict != "ok" and not strvar) or pg.format_excluded(c):
                ctx.hist("payload_walker", "instance-not-round-tripping (skipped)")
                continue
            d = pg.container_document(c)
            if d is not None and d[0] not in seen:
                seen.add(d[0])
                docs.append((c, d[0]))
            # the instance is the root object itself: the payload is what its container writes inside its length field
            if c.occ.x is c.occ.root.obj:
                try:
                    rc = pg.container_eval(c)
                    data = payload_of_container(c.occ.root, rc.data) if rc is not None and rc.written_ok else None
                    if data is not None:
                        standalone.append((c, root_request(c.occ.root, data), data))
                except Exception:  # noqa
                    pass
    # documents: base document first (a problem of the fixture's own instance is not the variant's)
    base_ok: dict = {}
    items = []
    for c, b in docs:
        items.append(("payload-gen:" + c.label, "payload-gen/" + c.occ.root.kind, b))
    cases_by_label = {("payload-gen:" + c.label): c for c, _ in docs}

    def known(label, scen, b, sect, reason, where):
        c = cases_by_label.get(label)
        if c is None:
            return None
        return "C03/payload/%s/%s/%s" % (c.K.__name__, slug(sect), slug(reason))

    deep_check(ctx, items, known=known)
    answers = cc.pbatch([r for _, r, _ in standalone]) if standalone else []
    nwalk = 0
    for (c, req, data), a in zip(standalone, answers):
        if a[0] == "none":
            continue
        nwalk += 1
        ctx.corr_cases += 1
        ctx.hist("payload_walker_standalone", a[0])
        if a[0] != "ok":
            ctx.fail("C03/payload/%s/%s/%s" % (c.K.__name__, slug(a[1]), slug(a[3])),
                     "the payload walker of the key falls off the bytes %s.write() emitted" % c.K.__name__,
                     pg._input(c, data, {"entry": req[0], "key": str(c.occ.root.key), "version": c.occ.root.version}),
                     {"section": a[1], "pos": a[2], "reason": a[3]},
                     "every declared length / count inside the payload lands where the enclosing length says")
    ctx.extra["payload_walkers_on_generated"] = {"documents": len(docs), "standalone_payloads_walked": nwalk,
                                                 "seconds": round(time.time() - t0, 1)}


def run_typed_documents(ctx):
    """(b) whole typed documents of typeddoc_common (every registered class in records, at document level and inside
    Lr16 / Lr32 nests), PSD and PSB, written by PSD.write"""
    import random
    t0 = time.time()
    try:
        import gen_c01
        import payload_common as pc
        import typeddoc_common as td
        rng = random.Random("c03-payload-typed:%d" % ctx.seed)
        sink = pc.harvest_by_class([f for f in cc.fixtures() if f.stat().st_size <= (200000 if ctx.quick else 10 ** 9)])
        g = gen_c01.Gen(rng, None)
        pool = td.Pool(rng, ctx.quick, sink)

        class _Ctx:             # generated_documents draws from ctx.rng only
            pass
        c2 = _Ctx()
        c2.rng = rng
        cases = td.generated_documents(c2, g, pool, 24 if ctx.quick else 240)
    except Exception as e:  # noqa
        ctx.disagree("typed documents of typeddoc_common could not be built on the current source: %s" % type(e).__name__,
                     {"error": repr(e)[:300]})
        return
    items = []
    for k, case in enumerate(cases):
        try:
            doc, enc, pad = case["doc"], case["enc"], case["pad"]
            w = cc.write_doc(doc, enc, pad)
            if w[0] == "ok":
                items.append(("typed#%d" % k, "typed-document/v%d/pad%d" % (doc.header.version, pad), w[1]))
        except Exception:  # noqa
            continue
    deep_check(ctx, items)
    ctx.extra["payload_walkers_on_typed_documents"] = {"documents": len(items), "seconds": round(time.time() - t0, 1)}


def finish(ctx):
    ctx.extra["payload_walkers"] = {k: (round(v, 1) if isinstance(v, float) else v) for k, v in _stats.items()}


# ------------------------------------------------------------------------------------------------ recording every walked file

RAW_BLOCKS: set = set()


def path_shape_is_the_callers(b: bytes, where):
    """the path payload at `where`, read back by the library, is an object graph the format does not describe: a subpath
    whose items are not all knots, or a knot outside a subpath"""
    try:
        from psd_tools.psd import vector as V
        off, ln = int(where["offset"]), int(where["length"])
        raw = b[off:off + ln]
        path = None
        for skip in ((12, 16, 0) if raw[:4] in (b"8BIM", b"8B64") else (0,)):     # the block header: signature, key, 4- or 8-byte length
            try:
                path = V.VectorMaskSetting.frombytes(raw[skip:]).path if where.get("key") in ("vmsk", "vsms") else V.Path.frombytes(raw[skip:])
                break
            except Exception:  # noqa
                continue
        if path is None:
            return False

        def odd(items, top):
            for it in items:
                if isinstance(it, V.Subpath):
                    if not top or any(not isinstance(x, V.Knot) for x in it):
                        return True
                elif isinstance(it, V.Knot) and top:
                    return True
            return False
        return odd(list(path), True)
    except Exception:  # noqa
        return False


def callers_raw_bytes(b: bytes, pos: int):
    """is offset `pos` of the file inside a block the library wrote from the caller's raw bytes?"""
    for blob in RAW_BLOCKS:
        if len(blob) < 12:
            continue
        i = b.find(blob)
        while i >= 0:
            if i <= pos <= i + len(blob):      # a read that finds nothing left fails *at* the end of the blob
                return True
            i = b.find(blob, i + 1)
    return False


class Recorder:
    """while installed, every file any part of the check hands to the skeleton walker (`psd.walk` through codec_common.pbatch)
    and that the walker accepts is remembered: those are the files the payload walkers then go through - whatever writer
    entry point produced them"""

    def __init__(self):
        self.files: dict = {}
        self._orig = None
        self._patched = []
        self.enabled = True

    def _wrap_raw(self, K):
        """remember the bytes of every tagged block / image resource whose data is the caller's `bytes` (no class wrote it):
        a walker problem inside such a block is the caller's, not the library's"""
        orig = K.write

        def write(self_, fp, *a, **kw):
            raw = not hasattr(self_.data, "write")
            start = fp.tell() if raw else None
            n = orig(self_, fp, *a, **kw)
            if raw:
                try:
                    end = fp.tell()
                    if end - start <= 70000:
                        fp.seek(start)
                        RAW_BLOCKS.add(fp.read(end - start))
                        fp.seek(end)
                except Exception:  # noqa
                    pass
            return n
        K.write = write
        self._patched.append((K, orig))

    def install(self):
        self._orig = cc.pbatch
        rec = self

        def pbatch(reqs, *a, **kw):
            ans = rec._orig(reqs, *a, **kw)
            try:
                for r, x in zip(reqs, ans):
                    if rec.enabled and r and r[0] == "psd.walk" and x and x[0] == "ok" and len(r[1]) <= 6_000_000:
                        rec.files.setdefault(r[1], len(rec.files))
            except Exception:  # noqa
                pass
            return ans
        cc.pbatch = pbatch
        try:
            from psd_tools.psd import image_resources as IR, tagged_blocks as TB
            self._wrap_raw(TB.TaggedBlock)
            self._wrap_raw(IR.ImageResource)
        except Exception as e:  # noqa
            self.broken = repr(e)[:200]
        return self

    def remove(self):
        if self._orig is not None:
            cc.pbatch = self._orig
            self._orig = None
        for K, orig in self._patched:
            K.write = orig
        self._patched = []


def run(ctx, fx_all, recorder):
    """called at the end of props/C03.run"""
    try:
        if getattr(recorder, "broken", None):
            ctx.disagree("TaggedBlock.write / ImageResource.write cannot be wrapped on the current source", {"error": recorder.broken})
        originals = set()
        for f in fx_all:
            try:
                if f.stat().st_size <= 3_000_000:
                    originals.add(f.read_bytes().hex())
            except Exception:  # noqa
                pass
        run_fixtures(ctx, fx_all)
        items = [("walked#%d" % k, "every-file-the-skeleton-walker-accepted", bytes.fromhex(h))
                 for h, k in recorder.files.items() if h not in originals]
        deep_check(ctx, items)
        ctx.extra["payload_walkers_files_from_other_phases"] = len(items)
        run_generated(ctx)
        run_typed_documents(ctx)
        finish(ctx)
        recorder.remove()
    except core.Infra:
        raise
    except Exception as e:  # noqa  (the harness's own plumbing met a reshaped source: a broken tie, never exit 2)
        import traceback
        ctx.disagree("payload walker scenarios stopped on the current source: %s" % type(e).__name__,
                     {"error": repr(e)[:300], "where": traceback.format_exc()[-400:]})
