"""The translator half of the tie: /repo source -> lean/PsdVerif/Generated/*.lean.

Table-shaped facts are never typed by hand into the model; they are read from
the current working tree (AST or live module) on every run and the property
theorems that mention them are re-checked by `lake build`.
"""
from __future__ import annotations

import ast
import re
from pathlib import Path

from core import REPO, Infra

SRC = REPO / "src" / "psd_tools"


def _const_eval(node):
    """Evaluate a constant integer expression (literals, >>, <<, +, -, *, //, |, &)."""
    return eval(compile(ast.Expression(node), "<const>", "eval"), {"__builtins__": {}})


def find_assign(tree: ast.AST, name: str):
    for node in ast.walk(tree):
        if isinstance(node, ast.Assign) and len(node.targets) == 1:
            t = node.targets[0]
            if isinstance(t, ast.Name) and t.id == name:
                return node.value
    return None


def lean_nat_list(xs):
    return "[" + ", ".join(str(int(x)) for x in xs) + "]"


def lean_str(s: str) -> str:
    return '"' + s.replace("\\", "\\\\").replace('"', '\\"') + '"'


def gen_rle(ctx):
    """MAX_LEN of both RLE implementations."""
    py = ast.parse((SRC / "compression" / "rle.py").read_text())
    v = find_assign(py, "MAX_LEN")
    if v is None:
        # the source no longer has the constant: the tie is broken, not the infrastructure.
        # 0 makes `maxLen_tied` fail, and the correspondence/search then decide.
        ctx.notes.append("rle.py: MAX_LEN not found (generated as 0)")
        max_py = 0
    else:
        try:
            max_py = int(_const_eval(v))
        except Exception:  # noqa
            ctx.notes.append("rle.py: MAX_LEN is not a constant expression (generated as 0)")
            max_py = 0
    pyx = (SRC / "compression" / "_rle.pyx").read_text()
    m = re.search(r"cdef\s+unsigned char\s+MAX_LEN\s*=\s*(.+)", pyx)
    if not m:
        ctx.notes.append("_rle.pyx: MAX_LEN not found (generated as 0)")
        max_pyx = 0
    else:
        try:
            max_pyx = int(_const_eval(ast.parse(m.group(1).strip(), mode="eval").body)) & 0xFF
        except Exception:  # noqa
            ctx.notes.append("_rle.pyx: MAX_LEN is not a constant expression (generated as 0)")
            max_pyx = 0
    sel = selection_shape(ctx)
    import extract_c04
    state = extract_c04.module_state([SRC / "compression" / "rle.py"])
    ctx.write_generated(
        "Rle",
        "namespace PsdVerif.Generated.Rle\n"
        f"/-- `MAX_LEN` in compression/rle.py -/\ndef maxLenPy : Nat := {max_py}\n"
        f"/-- `MAX_LEN` in compression/_rle.pyx (unsigned char) -/\ndef maxLenPyx : Nat := {max_pyx}\n"
        "/-- The statement of compression/__init__.py that binds `rle_impl`, from the AST: number of such\n"
        "statements, modules the `try` body imports as `rle_impl`, exception classes caught, modules the handler\n"
        "imports as `rle_impl`, statements of body / handler that are not that import, `else`/`finally` statements,\n"
        "and the names the handler READS that no earlier module-level statement (nor the handler itself, nor\n"
        "builtins) binds - a NameError in exactly the configuration in which the fallback runs. -/\n"
        f"def selStatements : Nat := {sel['statements']}\n"
        f"def selTryImports : List String := [{', '.join(lean_str(x) for x in sel['try_imports'])}]\n"
        f"def selCatches : List String := [{', '.join(lean_str(x) for x in sel['catches'])}]\n"
        f"def selHandlerImports : List String := [{', '.join(lean_str(x) for x in sel['handler_imports'])}]\n"
        f"def selOtherStatements : Nat := {sel['other']}\n"
        f"def selUnboundInHandler : List String := [{', '.join(lean_str(x) for x in sel['unbound'])}]\n"
        "/-- everything in rle.py through which one call could influence a later one (`global` declarations,\n"
        "module-level mutable objects read by a function, memoising decorators, mutable defaults) -/\n"
        f"def rleModuleState : List String := [{', '.join(lean_str(x) for x in state)}]\n"
        "end PsdVerif.Generated.Rle\n",
    )
    return {"maxLenPy": max_py, "maxLenPyx": max_pyx, "selection": sel, "module_state": state}


def _bound_names(stmt):
    """names a module-level statement binds (assignments, imports, defs, with/for targets), recursively"""
    out = set()
    for n in ast.walk(stmt):
        if isinstance(n, (ast.Import, ast.ImportFrom)):
            for a in n.names:
                out.add((a.asname or a.name).split(".")[0])
        elif isinstance(n, (ast.FunctionDef, ast.AsyncFunctionDef, ast.ClassDef)):
            out.add(n.name)
        elif isinstance(n, ast.Name) and isinstance(n.ctx, ast.Store):
            out.add(n.id)
        elif isinstance(n, ast.ExceptHandler) and n.name:
            out.add(n.name)
    return out


def _binds_rle_impl(stmt):
    return any(isinstance(n, ast.ImportFrom) and any((a.asname or a.name) == "rle_impl" for a in n.names)
               or isinstance(n, ast.Import) and any((a.asname or "") == "rle_impl" for a in n.names)
               or isinstance(n, ast.Name) and isinstance(n.ctx, ast.Store) and n.id == "rle_impl"
               for n in ast.walk(stmt))


def _impl_import(stmt):
    """`from . import X as rle_impl` -> X, else None"""
    if isinstance(stmt, ast.ImportFrom) and len(stmt.names) == 1 and stmt.names[0].asname == "rle_impl":
        return (stmt.module + "." if stmt.module else "") + stmt.names[0].name
    return None


def selection_shape(ctx):
    """The implementation selection of psd_tools/compression/__init__.py as a table (see Generated/Rle.lean)."""
    import builtins
    sel = dict(statements=0, try_imports=[], catches=[], handler_imports=[], other=0, unbound=[])
    try:
        tree = ast.parse((SRC / "compression" / "__init__.py").read_text())
    except Exception as e:  # noqa
        ctx.notes.append("compression/__init__.py cannot be parsed: %s" % e)
        return sel
    before = set(dir(builtins)) | {"__name__", "__file__", "__doc__", "__package__", "__spec__", "__path__", "__loader__"}
    for stmt in tree.body:
        if _binds_rle_impl(stmt):
            sel["statements"] += 1
            if isinstance(stmt, ast.Try):
                for s in stmt.body:
                    m = _impl_import(s)
                    if m is not None:
                        sel["try_imports"].append(m)
                    else:
                        sel["other"] += 1
                sel["other"] += len(stmt.orelse) + len(stmt.finalbody)
                for h in stmt.handlers:
                    t = h.type
                    names = [ast.unparse(x) for x in (t.elts if isinstance(t, ast.Tuple) else [t])] if t is not None else ["<bare>"]
                    sel["catches"] += names
                    local = set(before)
                    if h.name:
                        local.add(h.name)
                    for s in h.body:
                        m = _impl_import(s)
                        if m is not None:
                            sel["handler_imports"].append(m)
                        else:
                            sel["other"] += 1
                        for n in ast.walk(s):
                            if isinstance(n, ast.Name) and isinstance(n.ctx, ast.Load) and n.id not in local \
                                    and n.id not in sel["unbound"]:
                                sel["unbound"].append(n.id)
                        local |= _bound_names(s)
            else:
                m = _impl_import(stmt)
                if m is not None:
                    sel["try_imports"].append(m)
                else:
                    sel["other"] += 1
        before |= _bound_names(stmt)
    return sel


def gen_terms(ctx):
    """The immutable set of known 4-byte descriptor terms (descriptor._TERMS), as big-endian codes."""
    import importlib
    D = importlib.import_module("psd_tools.psd.descriptor")
    terms = getattr(D, "_TERMS", None)
    if terms is None:
        ctx.notes.append("descriptor._TERMS not found (generated as empty and mutable)")
        terms = set()
    codes = sorted(int.from_bytes(t, "big") for t in terms if len(t) == 4)
    odd = sorted(t.hex() for t in terms if len(t) != 4)
    rows = ",\n  ".join(", ".join(str(c) for c in codes[i:i + 12]) for i in range(0, len(codes), 12))
    ctx.write_generated(
        "Terms",
        "namespace PsdVerif.Generated.Terms\n"
        "/-- `descriptor._TERMS` at import time: 4-byte terms as big-endian numbers, sorted -/\n"
        f"def termCodes : List Nat := [\n  {rows}\n]\n"
        f"/-- is the term set an immutable type (frozenset/tuple)? -/\ndef termsImmutable : Bool := {'true' if isinstance(terms, (frozenset, tuple)) else 'false'}\n"
        f"/-- number of terms that are not 4 bytes long (expected 0) -/\ndef oddTerms : Nat := {len(odd)}\n"
        "end PsdVerif.Generated.Terms\n",
    )
    return {"terms": len(codes), "immutable": isinstance(terms, (frozenset, tuple)), "odd": odd}
