"""The translator half of the tie: /repo source -> lean/PsdVerif/Generated/*.lean.

Table-shaped facts are never typed by hand into the model; they are read from
the current working tree (AST or live module) on every run and the property
theorems that mention them are re-checked by `lake build`.
"""
from __future__ import annotations

import ast
import re
from pathlib import Path

from core import REPO, Infra

SRC = REPO / "src" / "psd_tools"


def _const_eval(node):
    """Evaluate a constant integer expression (literals, >>, <<, +, -, *, //, |, &)."""
    return eval(compile(ast.Expression(node), "<const>", "eval"), {"__builtins__": {}})


def find_assign(tree: ast.AST, name: str):
    for node in ast.walk(tree):
        if isinstance(node, ast.Assign) and len(node.targets) == 1:
            t = node.targets[0]
            if isinstance(t, ast.Name) and t.id == name:
                return node.value
    return None


def lean_nat_list(xs):
    return "[" + ", ".join(str(int(x)) for x in xs) + "]"


def lean_str(s: str) -> str:
    return '"' + s.replace("\\", "\\\\").replace('"', '\\"') + '"'


def gen_rle(ctx):
    """MAX_LEN of both RLE implementations."""
    py = ast.parse((SRC / "compression" / "rle.py").read_text())
    v = find_assign(py, "MAX_LEN")
    if v is None:
        # the source no longer has the constant: the tie is broken, not the infrastructure.
        # 0 makes `maxLen_tied` fail, and the correspondence/search then decide.
        ctx.notes.append("rle.py: MAX_LEN not found (generated as 0)")
        max_py = 0
    else:
        try:
            max_py = int(_const_eval(v))
        except Exception:  # noqa
            ctx.notes.append("rle.py: MAX_LEN is not a constant expression (generated as 0)")
            max_py = 0
    pyx = (SRC / "compression" / "_rle.pyx").read_text()
    m = re.search(r"cdef\s+unsigned char\s+MAX_LEN\s*=\s*(.+)", pyx)
    if not m:
        ctx.notes.append("_rle.pyx: MAX_LEN not found (generated as 0)")
        max_pyx = 0
    else:
        try:
            max_pyx = int(_const_eval(ast.parse(m.group(1).strip(), mode="eval").body)) & 0xFF
        except Exception:  # noqa
            ctx.notes.append("_rle.pyx: MAX_LEN is not a constant expression (generated as 0)")
            max_pyx = 0
    ctx.write_generated(
        "Rle",
        "namespace PsdVerif.Generated.Rle\n"
        f"/-- `MAX_LEN` in compression/rle.py -/\ndef maxLenPy : Nat := {max_py}\n"
        f"/-- `MAX_LEN` in compression/_rle.pyx (unsigned char) -/\ndef maxLenPyx : Nat := {max_pyx}\n"
        "end PsdVerif.Generated.Rle\n",
    )
    return {"maxLenPy": max_py, "maxLenPyx": max_pyx}


def gen_terms(ctx):
    """The immutable set of known 4-byte descriptor terms (descriptor._TERMS), as big-endian codes."""
    import importlib
    D = importlib.import_module("psd_tools.psd.descriptor")
    terms = getattr(D, "_TERMS", None)
    if terms is None:
        ctx.notes.append("descriptor._TERMS not found (generated as empty and mutable)")
        terms = set()
    codes = sorted(int.from_bytes(t, "big") for t in terms if len(t) == 4)
    odd = sorted(t.hex() for t in terms if len(t) != 4)
    rows = ",\n  ".join(", ".join(str(c) for c in codes[i:i + 12]) for i in range(0, len(codes), 12))
    ctx.write_generated(
        "Terms",
        "namespace PsdVerif.Generated.Terms\n"
        "/-- `descriptor._TERMS` at import time: 4-byte terms as big-endian numbers, sorted -/\n"
        f"def termCodes : List Nat := [\n  {rows}\n]\n"
        f"/-- is the term set an immutable type (frozenset/tuple)? -/\ndef termsImmutable : Bool := {'true' if isinstance(terms, (frozenset, tuple)) else 'false'}\n"
        f"/-- number of terms that are not 4 bytes long (expected 0) -/\ndef oddTerms : Nat := {len(odd)}\n"
        "end PsdVerif.Generated.Terms\n",
    )
    return {"terms": len(codes), "immutable": isinstance(terms, (frozenset, tuple)), "odd": odd}
