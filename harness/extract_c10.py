"""C09 / C10 extractor: the STRUCTURE of every public structural mutator -> Generated/TreeTable.lean.

Built on the abstract interpreter of harness/extract_c15.py (`_Api`, `_Flat`: helpers and other mutators inlined by
name, parameters substituted textually, `if` tests numbered per visit). For every public method of the API classes
whose flattened body makes a raw mutation of a children list (`<x>._layers.<op>(…)`, `<x>._layers[…] = / del`) this
reader emits, per straight-line segment and in source order:

  test(id, T, guards)               the test of an `if`, evaluated ONCE where the `if` stands
  bind(dst, obj, fallback, guards)  `name = <object expression>` (an alias evaluated where it stands)
  mat(dst, arg, fallback, guards)   `name = list(<iterable>)`: materialisation
  alloc(dst, guards)                `name = cls(…)`: a new, detached object
  assert(T, guards)                 `assert <test>`
  index(c, x, guards)               `c.index(x)` (ValueError when absent)
  validate(c, arg, guards)          `c._check_valid_layers(arg)`
  mutate(c, lop, guards)            the raw list operation on c's `_layers` with its arguments
  refresh(c, guards)                `c._update_layer_metadata()`
  dirty(c, guards)                  `c._update_psd_record()`
  other(src)                        anything not understood (direct `_parent` / `_psd` stores included)

plus what the three helpers do (read from their own bodies): `_check_valid_layers` (which of the three per-item
assertions are made, nothing that skips one), `_update_layer_metadata` (over which iteration `_psd` is assigned and
under which test, over which `_parent`), `_update_psd_record` (does it set `_updated_layers` on the document of the
container). A loop body is a segment of its own (`for v in <list>`).
A changed source never raises: what is not understood becomes `other`, which `tableOk` rejects.
"""
from __future__ import annotations

import ast
import re

from extract_c15 import _Api, _Flat, _norm, _subst, _segments, LISTMUT, _lstr  # noqa: F401

HELPERS = ("_check_valid_layers", "_update_layer_metadata", "_update_psd_record")


# ---------------------------------------------------------------------------------------------------------
# expressions -> Lean terms
# ---------------------------------------------------------------------------------------------------------
def _parse(src):
    try:
        return ast.parse(src, mode="eval").body
    except SyntaxError:
        return None


def obj(src):
    """a (normal) source expression naming an object -> Lean `Obj`"""
    n = _parse(src) if isinstance(src, str) else src
    text = src if isinstance(src, str) else ast.unparse(src)
    if n is None:
        return ".other %s" % _lstr(text)
    if isinstance(n, ast.Name):
        return ".var %s" % _lstr(n.id)
    if isinstance(n, ast.Constant) and n.value is None:
        return ".nil"
    if isinstance(n, ast.Attribute) and n.attr in ("parent", "_parent"):
        return ".parent (%s)" % obj(n.value)
    if isinstance(n, ast.Subscript) and isinstance(n.value, ast.Name) and isinstance(n.slice, ast.Constant) \
            and n.slice.value == 0:
        return ".first %s" % _lstr(n.value.id)
    return ".other %s" % _lstr(text)


def arg(node):
    """an AST node naming the layers an operation is given -> Lean `Arg`"""
    if isinstance(node, ast.Name):
        return ".list %s" % _lstr(node.id)
    if isinstance(node, ast.List) and len(node.elts) == 1:
        return ".single (%s)" % obj(node.elts[0])
    if isinstance(node, ast.IfExp):
        t = ast.unparse(node.test)
        m = re.fullmatch(r"isinstance\((\w+), slice\)", t)
        if m and isinstance(node.body, ast.Name) and isinstance(node.orelse, ast.List) and len(node.orelse.elts) == 1 \
                and isinstance(node.orelse.elts[0], ast.Name) and node.orelse.elts[0].id == node.body.id:
            return ".sliceOr %s %s" % (_lstr(m.group(1)), _lstr(node.body.id))
    return ".other %s" % _lstr(ast.unparse(node))


def test(node):
    """an AST test -> Lean `Test`"""
    text = ast.unparse(node)
    if isinstance(node, ast.BoolOp) and isinstance(node.op, ast.And):
        out = test(node.values[-1])
        for v in reversed(node.values[:-1]):
            out = ".and (%s) (%s)" % (test(v), out)
        return out
    if isinstance(node, ast.UnaryOp) and isinstance(node.op, ast.Not):
        return ".not (%s)" % test(node.operand)
    if isinstance(node, ast.Call) and isinstance(node.func, ast.Name) and node.func.id == "isinstance" and len(node.args) == 2:
        x, k = node.args
        kind = ast.unparse(k)
        if kind == "GroupMixin":
            return ".isGroup (%s)" % obj(x)
        if kind == "Layer":
            return ".isLayer (%s)" % obj(x)
        if kind == "PSDImage":
            return ".isDoc (%s)" % obj(x)
        if kind == "slice" and isinstance(x, ast.Name):
            return ".isSlice %s" % _lstr(x.id)
    if isinstance(node, ast.Compare) and len(node.ops) == 1:
        a, op, b = node.left, node.ops[0], node.comparators[0]
        none = lambda n: isinstance(n, ast.Constant) and n.value is None
        if isinstance(op, (ast.Is, ast.IsNot)) and none(a) and none(b):
            return ".const %s" % ("true" if isinstance(op, ast.Is) else "false")
        if isinstance(op, ast.IsNot) and none(b):
            return ".notNone (%s)" % obj(a)
        if isinstance(op, ast.Is) and none(b):
            return ".not (.notNone (%s))" % obj(a)
        if isinstance(op, ast.IsNot):
            return ".ne (%s) (%s)" % (obj(a), obj(b))
        if isinstance(op, ast.Is):
            return ".not (.ne (%s) (%s))" % (obj(a), obj(b))
        if isinstance(op, (ast.In, ast.NotIn)):
            bs = ast.unparse(b)
            m = re.fullmatch(r"(?:list\()?(.+)\.descendants\(\)\)?", bs)
            if m and _parse(m.group(1)) is not None:
                core = ".under (%s) (%s)" % (obj(a), obj(m.group(1)))
            else:
                core = ".listedIn (%s) (%s)" % (obj(a), obj(b))
            return core if isinstance(op, ast.In) else ".not (%s)" % core
        if isinstance(op, ast.Gt) and ast.unparse(b) == "0":
            m = re.fullmatch(r"len\((\w+)\)", ast.unparse(a))
            if m:
                return ".nonEmpty %s" % _lstr(m.group(1))
    return ".unknown %s" % _lstr(text)


def _guards(gs):
    out = []
    for g in gs:
        m = re.match(r"g(\d+):(not\()?", g)
        if m:
            out.append((int(m.group(1)), m.group(2) is None))
    return out


def _lean_guards(gs):
    return "[" + ", ".join("(%d, %s)" % (i, "true" if p else "false") for i, p in gs) + "]"


# ---------------------------------------------------------------------------------------------------------
# the flattener
# ---------------------------------------------------------------------------------------------------------
class _TreeFlat(_Flat):
    def __init__(self, api):
        super().__init__(api)
        self.k = 0
        self.ret = None
        self.row_ret = None

    def fresh(self, base):
        self.k += 1
        return "%s_%d" % (base, self.k)

    def nsub(self, node, env):
        return _norm(_subst(node, env))

    # ---- statements ----------------------------------------------------------------------------------------
    def pre_stmt(self, cls, fn, st, env, guards, depth, stack, layerish):
        gs = _guards(guards)
        if isinstance(st, ast.Assert):
            self.exprs(cls, fn, st.test, env, guards, depth, stack, layerish)
            n = _parse(self.nsub(st.test, env))
            reprs = []
            if isinstance(st.msg, ast.Call) and isinstance(st.msg.func, ast.Attribute) and st.msg.func.attr == "format":
                reprs = [obj(self.nsub(a, env)) for a in st.msg.args]
            self.emit("assert", test(n) if n is not None else ".unknown %s" % _lstr(ast.unparse(st.test)), reprs, gs)
            return True
        if isinstance(st, ast.If):
            n = _parse(self.nsub(st.test, env))
            self.emit("test", self.gid + 1, test(n) if n is not None else ".unknown %s" % _lstr(ast.unparse(st.test)), gs)
            return False
        if isinstance(st, ast.For):
            if isinstance(st.target, ast.Name):
                self.emit("loop_info", st.target.id, self.nsub(st.iter, env))
            else:
                self.emit("loop_info", "?", ast.unparse(st.iter))
            return False
        if isinstance(st, ast.Return):
            if st.value is not None and not isinstance(st.value, ast.Call):
                self.ret = self.nsub(st.value, env)
                if depth == 0:
                    self.row_ret = self.ret
            elif depth == 0 and st.value is not None:
                self.ret = None
                self.exprs(cls, fn, st.value, env, guards, depth, stack, layerish)
                self.row_ret = self.ret
                return True
            return False
        if isinstance(st, (ast.Assign, ast.AnnAssign)) and st.value is not None:
            targets = st.targets if isinstance(st, ast.Assign) else [st.target]
            if len(targets) == 1 and isinstance(targets[0], ast.Name):
                name, v = targets[0].id, st.value
                old = env.get(name, name)
                if isinstance(v, ast.Call) and isinstance(v.func, ast.Name) and v.func.id == "list" and len(v.args) == 1 \
                        and not v.keywords:
                    n = _parse(self.nsub(v.args[0], env))
                    new = self.fresh(name)
                    self.emit("mat", new, arg(n) if n is not None else ".other %s" % _lstr(ast.unparse(v)), old, gs)
                    env[name] = new
                    return True
                if isinstance(v, ast.Call) and isinstance(v.func, ast.Name) and (v.func.id in ("cls", "kls")
                                                                                  or v.func.id in self.api.classes):
                    new = self.fresh(name)
                    self.emit("store", "alloc", new, gs, "tree")
                    env[name] = new
                    layerish.add(name)
                    layerish.add(new)
                    return True
                if isinstance(v, ast.Call) and isinstance(v.func, ast.Attribute) and v.func.attr == "pop" \
                        and isinstance(v.func.value, ast.Attribute) and v.func.value.attr == "_layers":
                    self.exprs(cls, fn, v, env, guards, depth, stack, layerish)
                    env[name] = "popped_"
                    layerish.add(name)
                    return True
                if isinstance(v, ast.Call) and isinstance(v.func, ast.Attribute) and v.func.attr in ("new", "group_layers"):
                    self.ret = None
                    self.exprs(cls, fn, v, env, guards, depth, stack, layerish)
                    if self.ret is not None and re.fullmatch(r"\w+", self.ret):
                        env[name] = self.ret
                    else:
                        env.pop(name, None)
                        self.emit("other", "value of %s" % ast.unparse(v))
                    layerish.add(name)
                    return True
                if isinstance(v, ast.Attribute) and v.attr in ("_parent", "parent"):
                    # an alias of a pointer: evaluated HERE (the textual alias of extract_c15 would read it later)
                    new = self.fresh(name)
                    self.emit("bind", new, obj(self.nsub(v, env)), old, gs)
                    env[name] = new
                    layerish.add(name)
                    layerish.add(new)
                    return True
        return False

    def store(self, cls, fn, t, st, env, guards):
        if isinstance(t, ast.Attribute) and t.attr in ("_parent", "_psd"):
            if not (fn.name == "__init__" and ast.unparse(t.value) == "self"):
                self.emit("other", "direct store %s in %s.%s" % (ast.unparse(st), cls, fn.name))
            return
        if isinstance(t, ast.Attribute) and t.attr == "_updated_layers":
            self.emit("other", "direct store %s in %s.%s" % (ast.unparse(st), cls, fn.name))
            return
        before = len(self.events)
        super().store(cls, fn, t, st, env, guards)
        for k in range(before, len(self.events)):
            e = self.events[k]
            if e[0] == "mut" and str(e[2]).startswith("_layers"):      # a subscript / whole-list store: not a list method
                self.events[k] = ("mut", obj(e[1]), ".other %s" % _lstr(ast.unparse(st)), _guards(e[3]), "tree")
            elif e[0] == "mut":
                self.events[k] = ("skip",)                             # clipping flag, blend mode, mode: C15's matter
            elif e[0] in ("store", "rec"):
                self.events[k] = ("skip",)
            elif e[0] == "other":
                self.events[k] = ("skip",)        # clipping / blend-mode stores: C15's matter

    # ---- calls -----------------------------------------------------------------------------------------------
    def pre_call(self, cls, fn, c, env, guards, depth, stack, layerish, in_comp):
        f = c.func
        name, recv_node = f.attr, f.value
        gs = _guards(guards)
        if isinstance(recv_node, ast.Attribute) and recv_node.attr == "_layers":
            owner = obj(self.nsub(recv_node.value, env))
            a = [self.nsub(x, env) for x in c.args]
            lop = None
            if name == "extend" and len(c.args) == 1:
                n = _parse(a[0])
                lop = ".extend (%s)" % (arg(n) if n is not None else ".other %s" % _lstr(a[0]))
            elif name == "append" and len(c.args) == 1:
                lop = ".extend (.single (%s))" % obj(a[0])
            elif name == "insert" and len(c.args) == 2:
                lop = ".insert %s (%s)" % (_lstr(a[0]), obj(a[1]))
            elif name == "__setitem__" and len(c.args) == 2:
                lop = ".setitem %s %s" % (_lstr(a[0]), _lstr(a[1]))
            elif name == "__delitem__" and len(c.args) == 1:
                lop = ".delitem %s" % _lstr(a[0])
            elif name == "remove" and len(c.args) == 1:
                lop = ".remove (%s)" % obj(a[0])
            elif name == "pop" and len(c.args) <= 1:
                lop = ".pop %s" % _lstr(a[0] if a else "-1")
            elif name == "clear" and not c.args:
                lop = ".clear"
            elif name in LISTMUT:
                lop = ".other %s" % _lstr(ast.unparse(c))
            elif name == "index" and len(c.args) == 1:
                self.emit("index", owner, obj(a[0]), gs)
                return True
            if lop is not None:
                if in_comp:
                    self.emit("other", "%s inside a comprehension" % ast.unparse(c))
                else:
                    self.emit("mut", owner, lop, gs, "tree")
                return True
            return False
        if name == "_check_valid_layers":
            n = _parse(self.nsub(c.args[0], env)) if len(c.args) == 1 else None
            self.emit("validate", obj(self.nsub(recv_node, env)),
                      arg(n) if n is not None else ".other %s" % _lstr(ast.unparse(c)), gs)
            return True
        if name == "_update_layer_metadata":
            self.emit("refresh", obj(self.nsub(recv_node, env)), gs)
            return True
        if name == "_update_psd_record":
            self.emit("dirty", obj(self.nsub(recv_node, env)), gs)
            return True
        if name == "index" and len(c.args) == 1:
            recv = self.nsub(recv_node, env)
            if self._layerish_expr(ast.unparse(recv_node), layerish) or recv.endswith(".parent"):
                self.emit("index", obj(recv), obj(self.nsub(c.args[0], env)), gs)
                return True
        if isinstance(recv_node, ast.Name) and recv_node.id == "logger":
            # the message is formatted eagerly: `repr` of a group reads (and caches) its box
            objs = [obj(self.nsub(x, env)) for a in c.args if isinstance(a, ast.Call) and isinstance(a.func, ast.Attribute)
                    and a.func.attr == "format" for x in a.args]
            if objs:
                self.emit("repr", objs, gs)
            return True
        if name in ("_compute_clipping_layers", "_clear_clipping_layers", "_invalidate_bbox"):
            return True                                              # C15 / C14
        return False


# ---------------------------------------------------------------------------------------------------------
# the three helpers
# ---------------------------------------------------------------------------------------------------------
def _no_docstring(fn):
    return [s for s in fn.body if not (isinstance(s, ast.Expr) and isinstance(s.value, ast.Constant))]


def read_check(api):
    """`_check_valid_layers`: which per-item assertions, and nothing that could skip one"""
    fn = api.methods.get(("GroupMixin", "_check_valid_layers", "method"))
    info = {"isLayer": False, "notSelf": False, "noLoop": False, "exact": False, "src": "<not found>"}
    if fn is None:
        return info
    body = _no_docstring(fn)
    info["src"] = "\n".join(ast.unparse(s) for s in body)
    loops = [s for s in body if isinstance(s, ast.For)]
    if len(loops) != 1 or ast.unparse(loops[0].iter) != "layers" or not isinstance(loops[0].target, ast.Name):
        return info
    v = loops[0].target.id
    exact = True
    for s in body:
        if s is loops[0]:
            continue
        u = ast.unparse(s)
        if not (u.startswith("assert layers is not self") or u == "if isinstance(layers, Layer):\n    layers = [layers]"):
            exact = False
    seen = []
    for s in loops[0].body:
        u = ast.unparse(s)
        if isinstance(s, ast.Assert) and ast.unparse(s.test) == "isinstance(%s, Layer)" % v:
            seen.append("isLayer")
        elif isinstance(s, ast.Assert) and ast.unparse(s.test) == "%s is not self" % v:
            seen.append("notSelf")
        elif isinstance(s, ast.If) and ast.unparse(s.test) == "isinstance(%s, GroupMixin)" % v and not s.orelse \
                and len(s.body) == 1 and isinstance(s.body[0], ast.Assert) \
                and ast.unparse(s.body[0].test) in ("self not in list(%s.descendants())" % v, "self not in %s.descendants()" % v):
            seen.append("noLoop")
        else:
            exact = False
    for k in ("isLayer", "notSelf", "noLoop"):
        info[k] = k in seen
    info["exact"] = exact and seen == ["isLayer", "notSelf", "noLoop"]
    return info


def _iter_kind(src):
    if src in ("self.descendants()", "self.descendants(include_clip=True)", "self.descendants(True)", "list(self.descendants())"):
        return "descendants"
    if src in ("self._layers[:]", "self._layers", "self", "list(self)", "list(self._layers)"):
        return "children"
    return "other"


def _escapes(stmts):
    return any(isinstance(n, (ast.Continue, ast.Break, ast.Return, ast.Raise)) for s in stmts for n in ast.walk(s))


def read_refresh(api):
    """`_update_layer_metadata`: over which iteration `_psd` / `_parent` are assigned, and under which test"""
    fn = api.methods.get(("GroupMixin", "_update_layer_metadata", "method"))
    info = {"psdOver": "other", "psdCond": "other", "parentOver": "other", "clearsBoxes": False, "src": "<not found>"}
    if fn is None:
        return info
    body = _no_docstring(fn)
    info["src"] = "\n".join(ast.unparse(s) for s in body)
    doc = None
    for s in body:
        if isinstance(s, (ast.Assign, ast.AnnAssign)) and s.value is not None:
            t = s.targets[0] if isinstance(s, ast.Assign) else s.target
            if isinstance(t, ast.Name) and ast.unparse(s.value) == "self if isinstance(self, PSDImage) else self._psd":
                doc = t.id
    psd_sites, parent_sites = [], []
    for loop in [s for s in body if isinstance(s, ast.For) and isinstance(s.target, ast.Name)]:
        v, it = loop.target.id, _iter_kind(ast.unparse(loop.iter))
        for k, s in enumerate(loop.body):
            before = loop.body[:k]
            if isinstance(s, ast.Assign) and ast.unparse(s.targets[0]) == "%s._parent" % v:
                parent_sites.append((it, ast.unparse(s.value) == "self" and not _escapes(before)))
            if isinstance(s, ast.Assign) and ast.unparse(s.targets[0]) == "%s._psd" % v:
                psd_sites.append((it, "always" if not _escapes(before) else "other"))
            if isinstance(s, ast.If):
                t = ast.unparse(s.test)
                for j, q in enumerate(s.body):
                    if isinstance(q, ast.Assign) and ast.unparse(q.targets[0]) == "%s._psd" % v:
                        ok = doc is not None and ast.unparse(q.value) == doc and not s.orelse \
                            and not _escapes(before) and not _escapes(s.body[:j]) \
                            and t in ("%s._psd != %s and %s is not None" % (v, doc, doc),
                                      "%s is not None and %s._psd != %s" % (doc, v, doc),
                                      "%s._psd is not %s and %s is not None" % (v, doc, doc))
                        psd_sites.append((it, "differs" if ok else "other"))
                    if isinstance(q, ast.Assign) and ast.unparse(q.targets[0]) == "%s._parent" % v:
                        parent_sites.append((it, False))
                if t == "isinstance(%s, GroupMixin)" % v and any(ast.unparse(q) == "%s._bbox = None" % v for q in s.body) \
                        and it == "descendants":
                    info["clearsBoxes"] = True
    if len(psd_sites) == 1:
        info["psdOver"], info["psdCond"] = psd_sites[0]
    if len(parent_sites) == 1 and parent_sites[0][1]:
        info["parentOver"] = parent_sites[0][0]
    return info


def read_dirty(api):
    """`_update_psd_record`: does it set `_updated_layers` on the document of the container, unconditionally"""
    fn = api.methods.get(("GroupMixin", "_update_psd_record", "method"))
    info = {"marks": False, "src": "<not found>"}
    if fn is None:
        return info
    body = _no_docstring(fn)
    info["src"] = "\n".join(ast.unparse(s) for s in body)
    doc = None
    for k, s in enumerate(body):
        if isinstance(s, (ast.Assign, ast.AnnAssign)) and s.value is not None:
            t = s.targets[0] if isinstance(s, ast.Assign) else s.target
            if isinstance(t, ast.Name) and ast.unparse(s.value) == "self if isinstance(self, PSDImage) else self._psd":
                doc = t.id
        if isinstance(s, ast.If) and doc is not None and ast.unparse(s.test) == "%s is not None" % doc \
                and not _escapes(body[:k]):
            for j, q in enumerate(s.body):
                if ast.unparse(q) == "%s._updated_layers = True" % doc and not _escapes(s.body[:j]):
                    info["marks"] = True
    return info


# ---------------------------------------------------------------------------------------------------------
# rows
# ---------------------------------------------------------------------------------------------------------
def _lean_step(e):
    k = e[0]
    if k == "test":
        return ".test %d (%s) %s" % (e[1], e[2], _lean_guards(e[3]))
    if k == "bind":
        return ".bind %s (%s) %s %s" % (_lstr(e[1]), e[2], _lstr(e[3]), _lean_guards(e[4]))
    if k == "mat":
        return ".mat %s (%s) %s %s" % (_lstr(e[1]), e[2], _lstr(e[3]), _lean_guards(e[4]))
    if k == "alloc":
        return ".alloc %s %s" % (_lstr(e[1]), _lean_guards(e[2]))
    if k == "assert":
        return ".assert (%s) [%s] %s" % (e[1], ", ".join(e[2]), _lean_guards(e[3]))
    if k == "repr":
        return ".repr [%s] %s" % (", ".join(e[1]), _lean_guards(e[2]))
    if k == "index":
        return ".index (%s) (%s) %s" % (e[1], e[2], _lean_guards(e[3]))
    if k == "validate":
        return ".validate (%s) (%s) %s" % (e[1], e[2], _lean_guards(e[3]))
    if k == "mut":
        return ".mutate (%s) (%s) %s" % (e[1], e[2], _lean_guards(e[3]))
    if k == "refresh":
        return ".refresh (%s) %s" % (e[1], _lean_guards(e[2]))
    if k == "dirty":
        return ".dirty (%s) %s" % (e[1], _lean_guards(e[2]))
    if k == "other":
        return ".other %s" % _lstr(str(e[1]))
    return ".other %s" % _lstr("event %r" % (e,))


def _row_segments(events):
    """[(kind, var, over, [events])]; tests no later step depends on are dropped"""
    events = [("alloc", e[2], e[3]) if (e[0] == "store" and len(e) == 5 and e[-1] == "tree") else e for e in events]
    events = [e for e in events if e[0] not in ("skip", "rec", "store")]
    # a loop_info not followed by loop_begin belongs to a loop in which nothing happens
    out = []
    for k, e in enumerate(events):
        if e[0] == "loop_info" and not (k + 1 < len(events) and events[k + 1][0] == "loop_begin"):
            continue
        if e[0] == "mut" and len(e) == 4:   # a raw mutation reached through extract_c15's own paths (alias of the list)
            if not str(e[2]).startswith("_layers"):
                continue
            e = ("mut", obj(e[1]), ".other %s" % _lstr(e[2]), _guards(e[3]), "tree")
        out.append(e)
    used = set()
    for e in out:
        if e[0] in ("loop_info", "loop_begin", "loop_end", "other"):
            continue
        if e[0] != "test":
            used |= {i for i, _ in (e[3] if e[0] == "mut" else e[-1])}
    changed = True
    while changed:                   # a test used by a used test is used
        changed = False
        for e in out:
            if e[0] == "test" and e[1] in used:
                new = {i for i, _ in e[3]} - used
                if new:
                    used |= new
                    changed = True
    out = [e for e in out if e[0] != "test" or e[1] in used]
    segs, cur, kind = [], [], ("line", "", "")
    info = None
    depth = 0
    for e in out:
        if e[0] == "loop_info":
            info = e
        elif e[0] == "loop_begin":
            if depth == 0:
                if cur:
                    segs.append((kind, cur))
                cur = []
                var, over = (info[1], info[2]) if info is not None else ("?", "?")
                kind = ("loop", var, over)
            else:
                cur.append(("other", "a loop inside a loop"))
            depth += 1
            info = None
        elif e[0] == "loop_end":
            depth -= 1
            if depth == 0:
                segs.append((kind, cur))
                cur, kind = [], ("line", "", "")
        else:
            cur.append(e)
    if cur:
        segs.append((kind, cur))
    return segs


def read_table():
    api = _Api()
    fl = _TreeFlat(api)
    fl.compute_effectful()
    rows = []
    for (cls, name, kind), fn in sorted(api.methods.items(), key=lambda kv: (kv[0][0], kv[1].lineno)):
        if name.startswith("_") and not (name.startswith("__") and name.endswith("__")):
            continue
        if name in ("__init__", "__new__"):
            continue
        fl.events, fl.gid, fl.k, fl.ret, fl.row_ret = [], 0, 0, None, None
        fl.flatten(cls, fn, {}, [], 0, [(cls, name)], {"self", "cls"})
        if any(e[0] == "mut" and (len(e) == 5 or str(e[2]).startswith("_layers")) for e in fl.events):
            label = "%s.%s" % (cls, name) + ("" if kind == "method" else "." + kind)
            rows.append((label, _row_segments(fl.events), fl.row_ret if fl.row_ret and re.fullmatch(r"\w+", fl.row_ret) else ""))
    return {"rows": rows, "check": read_check(api), "refresh": read_refresh(api), "dirty": read_dirty(api)}


def _lean_seg(seg):
    (kind, var, over), evs = seg
    steps = "[" + ",\n        ".join(_lean_step(e) for e in evs) + "]"
    if kind == "loop":
        if not re.fullmatch(r"\w+", over or ""):
            return ".loop %s %s [.other %s]" % (_lstr(var), _lstr("?"), _lstr("loop over %s" % over))
        return ".loop %s %s %s" % (_lstr(var), _lstr(over), steps)
    return ".line %s" % steps


def gen_tree_table(ctx):
    b = lambda v: "true" if v else "false"
    try:
        info = read_table()
    except Exception as e:  # noqa: a source the reader cannot digest is a broken tie, never an infrastructure error
        info = {"rows": [("<extractor>", [(("line", "", ""), [("other", "extract_c10.read_table failed: %s: %s" % (type(e).__name__, e))])], "")],
                "check": {"isLayer": False, "notSelf": False, "noLoop": False, "exact": False, "src": "?"},
                "refresh": {"psdOver": "other", "psdCond": "other", "parentOver": "other", "clearsBoxes": False, "src": "?"},
                "dirty": {"marks": False, "src": "?"}}
        ctx.notes.append("extract_c10.read_table could not read the current source (%s): sentinel table written" % type(e).__name__)
    rows = ",\n".join("    ⟨%s, [\n      %s], %s⟩" % (_lstr(n), ",\n      ".join(_lean_seg(s) for s in segs), _lstr(ret))
                      for n, segs, ret in info["rows"])
    c, r, d = info["check"], info["refresh"], info["dirty"]
    src = f"""import PsdVerif.Model.TreeTable
namespace PsdVerif.Generated.TreeTable
open PsdVerif.TreeTable

/-- Every public method of the API classes whose flattened body makes a raw mutation of a children list: its
    segments (a loop body is a segment of its own), each a list of steps in source order (see harness/extract_c10.py),
    and what the three helpers do. -/
def table : Table :=
  {{ rows := [
{rows}],
    check := {{ isLayer := {b(c["isLayer"])}, notSelf := {b(c["notSelf"])}, noLoop := {b(c["noLoop"])}, exact := {b(c["exact"])} }},
    refresh := {{ psdOver := .{r["psdOver"]}, psdCond := .{r["psdCond"]}, parentOver := .{r["parentOver"]}, clearsBoxes := {b(r["clearsBoxes"])} }},
    dirty := {{ marks := {b(d["marks"])} }} }}

/-- `_check_valid_layers`, `_update_layer_metadata`, `_update_psd_record` without their docstrings -/
def checkSrc : String := {_lstr(c["src"])}
def refreshSrc : String := {_lstr(r["src"])}
def dirtySrc : String := {_lstr(d["src"])}

end PsdVerif.Generated.TreeTable
"""
    ctx.write_generated("TreeTable", src)
    return info


if __name__ == "__main__":
    import json
    import sys

    class _Ctx:
        notes = []

        def write_generated(self, name, src):
            sys.stdout.write(src)

    gen_tree_table(_Ctx())
