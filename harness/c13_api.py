"""C13 on documents built through the PUBLIC API (PSDImage.new, PixelLayer.frompil, and every group constructor the API has).

The recipe-built documents of the other streams are written record by record by harness/pixdoc.py and re-read by the library: a
group there is whatever the READER makes of a section divider. A group made by the API is a different object (blocks created by
`Group.new`), so "save -> reopen changes nothing" and the wrapping law are evaluated here on such documents:

  save-reopen        composite(doc, V)            == composite(reopen(save(doc)), V)
  wrap-in-memory     composite(flat, V)           == composite(grouped, V)
  wrap-after-reopen  composite(flat, V)           == composite(reopen(save(grouped)), V)

for V in {canvas, viewports straddling the canvas}, children with non-NORMAL blend modes over an opaque backdrop, layers hanging
over the canvas edges. The constructors are ENUMERATED BY REFLECTION (public classmethods / staticmethods of Group and of every
subclass of Group in psd_tools.api.layers); their arguments are filled by parameter name (layers, name, parent, open_folder), every
combination of the optional ones; a constructor with a required parameter of another name is reported in ctx.skipped.
"""
from __future__ import annotations

import inspect
import itertools

import numpy as np

import comp_common as cc

PIL_MODE = {"RGB": "RGBA", "L": "LA", "CMYK": "CMYK"}
BLENDS = ["MULTIPLY", "SCREEN", "DIFFERENCE", "OVERLAY", "LINEAR_BURN", "DARKEN", "EXCLUSION", "NORMAL"]
FILLS = ["move_to_group", "remove+extend", "remove+append"]


# ------------------------------------------------------------------------------------------
# the creating entry points, by reflection
# ------------------------------------------------------------------------------------------
def group_constructors():
    """-> [(label, class, method name, signature)] for every public classmethod / staticmethod of Group and its subclasses"""
    from psd_tools.api import layers as L
    classes = [L.Group] + sorted((c for c in vars(L).values() if inspect.isclass(c) and issubclass(c, L.Group) and c is not L.Group),
                                 key=lambda c: c.__name__)
    out = []
    for cls in classes:
        for name in sorted(dir(cls)):
            if name.startswith("_"):
                continue
            raw = inspect.getattr_static(cls, name)
            if isinstance(raw, (classmethod, staticmethod)):
                out.append((f"{cls.__name__}.{name}", cls, name, inspect.signature(getattr(cls, name))))
    return out


KNOWN_PARAMS = {"layers", "name", "parent", "open_folder"}


def constructor_variants(sig):
    """every way of calling a constructor: parent in {absent, document, an enclosing API group} x open_folder in {absent, True, False};
    -> (list of dicts, reason or None)"""
    params = sig.parameters
    unknown = [p for p, v in params.items() if p not in KNOWN_PARAMS and v.default is inspect.Parameter.empty
               and v.kind not in (inspect.Parameter.VAR_POSITIONAL, inspect.Parameter.VAR_KEYWORD)]
    if unknown:
        return [], f"required parameter(s) {unknown} the harness cannot fill"
    parents = [None, "psd", "outer"] if "parent" in params else [None]
    opens = [None, False] if "open_folder" in params else [None]
    return [{"parent": p, "open_folder": o} for p in parents for o in opens], None


# ------------------------------------------------------------------------------------------
# building
# ------------------------------------------------------------------------------------------
class NotAConstructor(Exception):
    pass


def layer_image(mode, w, h, seed, alpha):
    from PIL import Image
    rs = np.random.RandomState(seed)
    pm = PIL_MODE[mode]
    nb = len(pm)
    a = rs.randint(30, 226, (h, w, nb)).astype(np.uint8)
    if pm in ("RGBA", "LA"):
        if alpha == "pattern":
            a[..., -1] = rs.choice([0, 64, 128, 200, 255, 255], size=(h, w))
        else:
            a[..., -1] = alpha
    return Image.fromarray(a if nb > 1 else a[..., 0], pm)


def make_layer(psd, mode, spec):
    from psd_tools.api.layers import PixelLayer
    from psd_tools.constants import BlendMode
    l, t, r, b = spec["rect"]
    layer = PixelLayer.frompil(layer_image(mode, r - l, b - t, spec["seed"], spec["alpha"]), psd, spec["name"], t, l)
    layer.blend_mode = BlendMode[spec["blend"]]
    layer.opacity = spec["opacity"]
    return layer


def build(spec, grouped=True, order=None):
    """the document of `spec`, built through the API. grouped=False: the same leaves at the root, in `order` (names)."""
    from psd_tools import PSDImage
    from psd_tools.api import layers as L
    mode = spec["mode"]
    psd = PSDImage.new(mode, tuple(spec["size"]))
    specs = {s["name"]: s for s in spec["layers"]}
    if not grouped:
        for name in order:
            psd.append(make_layer(psd, mode, specs[name]))
        return psd
    layers = [make_layer(psd, mode, s) for s in spec["layers"]]
    for layer in layers:
        psd.append(layer)
    g = spec["group"]
    i, j = g["span"]
    run = layers[i:j]
    cls = getattr(L, g["ctor"].split(".")[0])
    ctor = getattr(cls, g["ctor"].split(".")[1])
    params = inspect.signature(ctor).parameters
    outer = None
    if g["parent"] == "outer":
        outer = L.Group.new("outer", parent=psd)
    kw = {}
    if "name" in params:
        kw["name"] = "wrap"
    if g["parent"] is not None:
        kw["parent"] = psd if g["parent"] == "psd" else outer
    if g["open_folder"] is not None:
        kw["open_folder"] = g["open_folder"]
    if "layers" in params:
        group = ctor(run, **kw)
        if not isinstance(group, L.Group):
            raise NotAConstructor(f"{g['ctor']} returns {type(group).__name__}, not a group")
    else:
        attach_first = g.get("attach") == "before"
        group = ctor(**kw)
        if not isinstance(group, L.Group):
            raise NotAConstructor(f"{g['ctor']} returns {type(group).__name__}, not a group")
        if g["parent"] is None and attach_first:
            psd.insert(i, group)
        if g["fill"] == "move_to_group":
            for layer in run:
                layer.move_to_group(group)
        elif g["fill"] == "remove+extend":
            for layer in run:
                layer.parent.remove(layer)
            group.extend(run)
        else:
            for layer in run:
                layer.parent.remove(layer)
                group.append(layer)
        if g["parent"] is None and not attach_first:
            psd.insert(i, group)
    return psd


def leaves(container):
    for layer in container:
        if layer.is_group():
            yield from leaves(layer)
        else:
            yield layer


def wrap_is_plain(psd):
    """the group called `wrap` (and `outer`) is what the wrapping law is about: pass-through, full opacity, visible, unmasked"""
    from psd_tools.constants import BlendMode
    groups = [l for l in psd.descendants() if l.is_group()]
    return bool(groups) and all(g.blend_mode == BlendMode.PASS_THROUGH and g.opacity == 255 and g.visible and not g.has_mask()
                                and not g.clipping_layer for g in groups)


def check(spec):
    """-> {"error": ..., "inapplicable": str|None, "results": [(law, V, mismatch | None)], "structure": [...]}"""
    out = {"error": None, "inapplicable": None, "results": [], "structure": None, "in_memory": None}
    W, H = spec["size"]
    try:
        grouped = build(spec)
    except NotAConstructor as e:
        out["inapplicable"] = str(e)
        return out
    except Exception as e:  # noqa
        out["error"] = {"law": "build", "what": f"raises-{type(e).__name__}", "observed": f"{type(e).__name__}: {str(e)[:120]}",
                        "expected": "a document"}
        return out
    order = [l.name for l in leaves(grouped)]
    out["structure"] = order
    if sorted(order) != sorted(s["name"] for s in spec["layers"]):
        out["error"] = {"law": "build", "what": "leaves", "observed": order, "expected": [s["name"] for s in spec["layers"]]}
        return out
    views = [None] + [tuple(v) for v in spec["viewports"]]
    mem = None
    try:
        mem = {V: cc.real_composite(grouped, viewport=V) for V in views}
    except Exception as e:  # noqa
        # (an Artboard made by Artboard.new carries no artboard rectangle: its bbox asserts.) Nothing to relate in memory; the
        # saved file is still related to the flat document below.
        out["in_memory"] = f"composite of the document in memory raises {type(e).__name__}: {str(e)[:80]}"
    try:
        plain = wrap_is_plain(grouped)
    except Exception:  # noqa
        plain = False
    try:
        reopened = cc.save_reopen(grouped)
        order2 = [l.name for l in leaves(reopened)]
        if order2 != order:
            out["results"].append(("save-reopen", None, {"what": "layers", "real": order2, "expected": order}))
            return out
        re = {V: cc.real_composite(reopened, viewport=V) for V in views}
        plain = plain and wrap_is_plain(reopened) if mem is not None else wrap_is_plain(reopened)
        flat = build(spec, grouped=False, order=order)
        fl = {V: cc.real_composite(flat, viewport=V) for V in views}
    except Exception as e:  # noqa
        import traceback
        tb = traceback.extract_tb(e.__traceback__)
        if mem is None:
            out["inapplicable"] = out["in_memory"]
            return out
        out["error"] = {"law": "save-reopen", "what": "exception", "observed": f"{type(e).__name__}: {str(e)[:120]}",
                        "where": f"{tb[-1].filename.split('/')[-1]}:{tb[-1].name}"}
        return out
    for V in views:
        if mem is not None:
            out["results"].append(("save-reopen", V, cc.compare(re[V], mem[V]) or cc.in_unit_interval(re[V])))
            if plain:
                out["results"].append(("wrap-in-memory", V, cc.compare(mem[V], fl[V])))
        if plain or mem is not None and wrap_is_plain(grouped):
            out["results"].append(("wrap-after-reopen", V, cc.compare(re[V], fl[V])))
    return out


# ------------------------------------------------------------------------------------------
# specs
# ------------------------------------------------------------------------------------------
def straddling_viewports(W, H):
    """viewports extending beyond the canvas on each side, on all sides, over a corner, fully outside, degenerate"""
    return [(-3, 0, W, H), (0, -2, W, H), (0, 0, W + 3, H), (0, 0, W, H + 2), (-4, -3, W + 4, H + 3), (-3, -2, W // 2 + 1, H // 2 + 1),
            (W // 2, H // 2, W + 3, H + 2), (-3, 0, 0, H), (W, 0, W + 3, H), (0, -3, W, 0), (0, H, W, H + 3),
            (W + 10, H + 10, W + 12, H + 12), (0, 0, 0, 0), (2, 0, 2, H), (0, 2, W, 2), (-2, -2, -2, -2)]


def layout(rng, mode, k):
    """an opaque backdrop, a run of 2-3 layers with non-NORMAL blend modes (hanging over the canvas edges), a layer on top"""
    W, H = (9, 7) if k % 2 == 0 else (6, 8)
    has_alpha = mode != "CMYK"
    edge = [[-3, 1, 4, 5], [W - 4, -2, W + 3, 3], [2, H - 3, 6, H + 2], [-2, -2, 3, 3], [W - 2, H - 3, W + 2, H + 2], [1, 1, W - 1, H - 1]]
    rng.shuffle(edge)
    n = 2 + (k % 2)
    layers = [{"name": "back", "rect": [0, 0, W, H], "blend": "NORMAL", "opacity": 255, "alpha": 255, "seed": 100 + k}]
    for q in range(n):
        layers.append({"name": f"run{q}", "rect": edge[q], "blend": BLENDS[(k + 3 * q) % len(BLENDS)] if q or k % 5 else rng.choice(BLENDS[:-1]),
                       "opacity": rng.choice([255, 255, 180]), "alpha": rng.choice([255, 220, "pattern"]) if has_alpha else 255,
                       "seed": 200 + 10 * k + q})
    layers.append({"name": "top", "rect": edge[n], "blend": rng.choice(["NORMAL", "SCREEN", "MULTIPLY"]), "opacity": 255,
                   "alpha": (140 if has_alpha else 255), "seed": 300 + k})
    return {"mode": mode, "size": [W, H], "layers": layers, "span": [1, 1 + n]}


def make_specs(ctx, rng, quick):
    ctors = group_constructors()
    specs = []
    k = 0
    for label, cls, name, sig in ctors:
        variants, why = constructor_variants(sig)
        ctx.hist("api_group_constructors", label if not why else f"{label}: not callable by the harness")
        if why:
            ctx.skipped.append(f"group constructor {label}: {why}")
            continue
        takes_layers = "layers" in sig.parameters
        for v in variants:
            fills = [None] if takes_layers else FILLS
            attaches = ["after"] if takes_layers or v["parent"] is not None else ["after", "before"]
            for fill, attach in itertools.product(fills, attaches):
                modes = ["RGB", "L", "CMYK"] if (quick and k % 3 == 0) or not quick else ["RGB"]
                for mode in modes:
                    lay = layout(rng, mode, k)
                    W, H = lay["size"]
                    vps = straddling_viewports(W, H)
                    pick = vps if not quick else [vps[4]] + rng.sample(vps, 3)
                    specs.append({"kind": "api-group", "mode": mode, "size": lay["size"], "layers": lay["layers"],
                                  "group": {"ctor": label, "span": lay["span"], "parent": v["parent"], "open_folder": v["open_folder"],
                                            "fill": fill, "attach": attach},
                                  "viewports": [list(x) for x in pick]})
                    k += 1
    return specs


def run(ctx, rng, quick):
    specs = make_specs(ctx, rng, quick)
    seen = {}
    for spec in specs:
        g = spec["group"]
        key = f"{g['ctor']}/parent={g['parent']}/open_folder={g['open_folder']}/fill={g['fill']}/attach={g['attach']}"
        r = check(spec)
        W, H = spec["size"]
        ctx.count(("api-group", key, spec["mode"]), nontrivial=True, n=W * H * (1 + len(spec["viewports"])))
        if r["inapplicable"]:
            ctx.hist("api_group_laws", f"{g['ctor']}: not applicable ({r['inapplicable'][:60]})")
            continue
        if r["error"]:
            e = r["error"]
            sig = f"C13/api-group/{e['law']}/{g['ctor']}/{e['what']}"
            if seen.get(sig, 0) < 2:
                seen[sig] = seen.get(sig, 0) + 1
                ctx.fail(sig, f"a document with a group made by {g['ctor']} ({key}): {e['law']} fails ({e['what']})", spec, e.get("observed"),
                         e.get("expected", "the composite of the related document"))
            continue
        if r["in_memory"]:
            ctx.hist("api_group_laws", f"{g['ctor']}: in memory not composable ({r['in_memory'][:60]}); saved file related to the flat document")
        for law, V, mm in r["results"]:
            ctx.hist("api_group_laws", f"{law}/{g['ctor']}/{'canvas' if V is None else 'straddling-or-degenerate-viewport'}")
            if mm is not None:
                sig = f"C13/api-group/{law}/{g['ctor']}/{mm['what']}"
                if seen.get(sig, 0) < 2:
                    seen[sig] = seen.get(sig, 0) + 1
                    ctx.fail(sig, f"{law} law violated on a document whose group was made through the API by {g['ctor']} ({key}), "
                             f"viewport {V}: {mm['what']}", dict(spec, viewports=[list(V)] if V else []), mm,
                             "the composite of the related document (alpha, shape; colour where alpha > 1e-4)")
    ctx.extra["api_group_documents"] = len(specs)


def replay(spec):
    r = check(spec)
    print("structure:", r["structure"], "| inapplicable:", r["inapplicable"], "| error:", r["error"])
    for law, V, mm in r["results"]:
        print(f"  {law:18s} viewport={V}: {'ok' if mm is None else mm}")
