"""C03, creation entry points x every mode they accept (added after the seeded change C03-r3-1 was missed).

The writer stream of C03 reached `PSDImage.new` / `PSDImage.frompil` / `PixelLayer.frompil` / `Group.new` only for a
hand-picked list of modes (RGB, RGBA, CMYK, L, LA, 1). Here the list is ENUMERATED:

* mode names: every PIL mode (`PIL.Image.MODES`, plus `PIL.ImageMode` aliases when present), every name of the library's
  own tables (`ColorMode` members, with and without a trailing "A"; the keys of `pil_io.get_pil_channels` /
  `get_pil_depth`, read from the AST), and the lower-case spelling of each (the code upper-cases the mode);
* entry points: `PSDImage.new(mode, size, depth=, compression=)`, `PSDImage.frompil(image, compression)`,
  `PixelLayer.frompil(image, document, compression=)` into a document of every mode that could be created,
  `Group.new` (parent document / parent group / attached later), `Group.group_layers`;
* x depth 8/16/32 x compression RAW/RLE/ZIP(/ZIP with prediction) x version (a 30001 x 1 document is a PSB).
Whatever raises is counted and dropped (the entry point does not accept that mode); whatever is saved is judged by
the Lean specification walker and the Python reading of c03_extra.py (merged image: exactly `channels x height` rows /
`channels` planes of the declared size; every layer channel against its rectangle).

`creation_rows` / `gen_creation` also produce the regenerated table `Generated/Creation.lean`: one row per (entry
point, accepted mode) with what the entry point puts into the header and how many planes it actually stores for a
1 x 1, 8-bit, RAW document; `Props/C03Creation.lean` decides `planes = header.channels = colour planes + alpha` on it.
"""
from __future__ import annotations

import ast
import io

import core
import codec_common as cc
import c03_extra
from core import hx


def _save(psd, **kw):
    f = io.BytesIO()
    psd.save(f, **kw)
    return f.getvalue()


def mode_names():
    """-> [(name, alpha expected from the name's construction: 0 | 1 | None when PIL decides)]"""
    from PIL import Image
    names = {}
    pil = list(getattr(Image, "MODES", [])) or ["1", "L", "LA", "La", "P", "PA", "RGB", "RGBA", "RGBa", "RGBX", "CMYK",
                                                "YCbCr", "LAB", "HSV", "I", "F", "I;16", "I;16L", "I;16B", "I;16N"]
    for m in pil:
        names[m] = None
    try:
        from psd_tools.constants import ColorMode
        for cm in ColorMode:
            names.setdefault(cm.name, 0)
            names.setdefault(cm.name + "A", 1)
    except Exception:  # noqa
        pass
    # keys of the library's own mode tables (pil_io.get_pil_channels / get_pil_depth / get_pil_mode)
    try:
        src = (core.REPO / "src" / "psd_tools" / "api" / "pil_io.py").read_text()
        for node in ast.walk(ast.parse(src)):
            if isinstance(node, ast.Dict):
                for k in node.keys:
                    if isinstance(k, ast.Constant) and isinstance(k.value, str) and 0 < len(k.value) <= 8:
                        names.setdefault(k.value, None)
                for v in node.values:
                    if isinstance(v, ast.Constant) and isinstance(v.value, str) and 0 < len(v.value) <= 8 and v.value.isalnum():
                        names.setdefault(v.value, None)
    except Exception:  # noqa
        pass
    for m in list(names):
        if m.lower() != m and m.lower() not in names:
            names[m.lower()] = names[m]
    return sorted(names.items())


def pil_image(mode, size, k=0):
    """an image of that mode with non-constant content (so that RLE rows are not all alike); None when PIL refuses"""
    from PIL import Image
    try:
        w, h = size
        base = Image.new("RGB", size)
        base.putdata([((37 * i + k) % 256, (91 * i + 5 * k) % 256, (i * i + k) % 256) for i in range(w * h)])
        try:
            im = base.convert(mode)
        except Exception:  # noqa
            im = Image.new(mode, size, 1)
        if im.mode != mode:
            return None
        if mode in ("LA", "La", "PA", "RGBA", "RGBa"):
            im.putalpha(Image.new("L", size, 200))
            if im.mode != mode:
                im = im.convert(mode)
        return im
    except Exception:  # noqa
        return None


def pil_alpha(mode):
    """does PIL say this mode carries transparency (independent of psd_tools' rule)"""
    from PIL import Image
    try:
        im = Image.new(mode, (1, 1))
    except Exception:  # noqa
        return None
    if mode == "P":
        return 0
    return int(bool(im.has_transparency_data)) if hasattr(im, "has_transparency_data") else int(mode[-1:] in "Aa" and mode != "LAB")


# ---------------------------------------------------------------------------------------------
# the regenerated table
# ---------------------------------------------------------------------------------------------
W9 = 9          # a 9 x 1 raster tells packed bits (2 bytes) from one byte per sample (9 bytes)


def creation_rows():
    """-> rows: dict(entry, mode, colorMode, colorChannels, alpha, headerChannels, planeBytes, stored), measured on the
    live code with a 9 x 1 raster stored RAW"""
    from PIL import Image
    from psd_tools import PSDImage
    from psd_tools.api.layers import PixelLayer
    from psd_tools.constants import ColorMode, Compression
    rows = []
    targets, seen_hdr = [], set()
    for mode, alpha in mode_names():
        up = mode.upper()
        pa = pil_alpha(mode)
        if pa is None and up != mode:
            pa = pil_alpha(up) if up in getattr(Image, "MODES", []) else None
        a = pa if pa is not None else (alpha if alpha is not None else int(up.endswith("A") and up != "LAB"))
        for entry in ("new", "frompil"):
            try:
                if entry == "new":
                    psd = PSDImage.new(mode, (W9, 1), depth=8, compression=Compression.RAW)
                else:
                    im = Image.new(mode, (W9, 1))
                    psd = PSDImage.frompil(im, compression=Compression.RAW)
                hdr = psd._record.header
                data = psd._record.image_data.data
            except Exception:  # noqa
                continue
            asked = int(psd._record.image_data.compression) == 0 and hdr.depth == 8 and hdr.width == W9 and hdr.height == 1
            cm = hdr.color_mode
            rows.append(dict(entry=entry, mode=mode, colorMode=int(cm), colorChannels=int(ColorMode.channels(cm)), alpha=a,
                             headerChannels=int(hdr.channels), planeBytes=W9 if asked else 0, stored=len(data)))
            if entry == "new":
                for depth in (8, 16, 32):
                    key = (int(cm), int(hdr.channels), depth)
                    if key not in seen_hdr:
                        seen_hdr.add(key)
                        targets.append((mode, depth))
    pil_modes = [m for m in getattr(Image, "MODES", [])]
    for tm, depth in targets:
        for m in pil_modes:
            try:
                doc = PSDImage.new(tm, (W9 + 2, 3), depth=depth)
                layer = PixelLayer.frompil(Image.new(m, (W9, 1)), doc, "x", 1, 1, Compression.RAW)
                rec = layer._record
                stored = sum(len(ch.data) for ch in layer._channels)
                raw = all(int(ch.compression) == 0 for ch in layer._channels)
                geom = (rec.right - rec.left) == W9 and (rec.bottom - rec.top) == 1
                hdr = doc._record.header
            except Exception:  # noqa
                continue
            rows.append(dict(entry="layer", mode="%s->%s/%d" % (m, tm, depth), colorMode=int(hdr.color_mode),
                             colorChannels=int(ColorMode.channels(hdr.color_mode)), alpha=1,
                             headerChannels=len(rec.channel_info) if len(rec.channel_info) == len(layer._channels) else 0,
                             planeBytes=(W9 * depth // 8) if raw and geom else 0, stored=stored))
    return rows


def gen_save_shape(ctx):
    """Who may change the compression code of a stored stream, and what `PSDImage.save` does to the merged image after it
    compressed it: regenerated from the AST -> Generated/C03Save.lean (`C03Pixels.declared_code_tied`). The model's `save`
    stores `setData comp planes header`: code and payload come from ONE call."""
    root = core.REPO / "src" / "psd_tools"
    stores = []
    for f in sorted(root.rglob("*.py")):
        try:
            tree = ast.parse(f.read_text())
        except Exception:  # noqa
            stores.append(str(f.relative_to(root)) + ":<unparsable>")
            continue
        for fn in [n for n in ast.walk(tree) if isinstance(n, (ast.FunctionDef, ast.AsyncFunctionDef))]:
            for n in ast.walk(fn):
                tg = []
                if isinstance(n, ast.Assign):
                    tg = n.targets
                elif isinstance(n, (ast.AugAssign, ast.AnnAssign)):
                    tg = [n.target]
                elif isinstance(n, ast.Call) and getattr(n.func, "id", "") == "setattr" and len(n.args) >= 2 \
                        and isinstance(n.args[1], ast.Constant) and n.args[1].value == "compression":
                    stores.append("%s:%s:setattr" % (f.relative_to(root), fn.name))
                for t in tg:
                    for x in ast.walk(t):
                        if isinstance(x, ast.Attribute) and x.attr == "compression" and isinstance(x.ctx, ast.Store):
                            stores.append("%s:%s:%s" % (f.relative_to(root), fn.name, ast.unparse(x)))
    set_calls, after = [], []
    try:
        tree = ast.parse((root / "api" / "psd_image.py").read_text())
        save = next(n for n in ast.walk(tree) if isinstance(n, ast.FunctionDef) and n.name == "save")
        line = None
        for n in ast.walk(save):
            if isinstance(n, ast.Call) and getattr(n.func, "attr", "") == "set_data":
                set_calls.append(ast.unparse(n))
                line = n.lineno if line is None else min(line, n.lineno)
        for n in ast.walk(save):
            if isinstance(n, (ast.Assign, ast.AugAssign, ast.AnnAssign)) and line is not None and n.lineno > line:
                for t in (n.targets if isinstance(n, ast.Assign) else [n.target]):
                    if isinstance(t, (ast.Attribute, ast.Subscript)):
                        after.append(ast.unparse(t))
    except Exception as e:  # noqa
        set_calls.append("<PSDImage.save not found: %s>" % type(e).__name__)

    def ls(xs):
        return "[" + ", ".join('"' + x.replace("\\", "\\\\").replace('"', '\\"') + '"' for x in xs) + "]"
    ctx.write_generated(
        "C03Save",
        "namespace PsdVerif.Generated.C03Save\n"
        "/-- every assignment to an attribute named `compression` inside a function of psd_tools (file:function:target) -/\n"
        f"def compressionStores : List String := {ls(sorted(set(stores)))}\n"
        "/-- the `set_data` calls of `PSDImage.save` -/\n"
        f"def saveSetData : List String := {ls(set_calls)}\n"
        "/-- attribute / item assignments of `PSDImage.save` after that call -/\n"
        f"def saveStoresAfterSetData : List String := {ls(after)}\n"
        "end PsdVerif.Generated.C03Save\n")
    return {"compression_stores": sorted(set(stores)), "save_set_data": set_calls, "save_stores_after": after}


def gen_creation(ctx):
    try:
        rows = creation_rows()
        note = None
    except Exception as e:  # noqa  (reshaped source: a sentinel row makes the tying theorems fail; never exit 2)
        rows = [dict(entry="extraction-failed", mode=type(e).__name__, colorMode=99, colorChannels=0, alpha=0, headerChannels=0,
                     planeBytes=0, stored=1)]
        note = "creation table could not be regenerated from the current source: %r" % (e,)
    s = lambda x: '"' + x.replace("\\", "\\\\").replace('"', '\\"') + '"'
    body = ",\n".join(
        "  { entry := %s, mode := %s, colorMode := %d, colorChannels := %d, alpha := %d, headerChannels := %d, "
        "planeBytes := %d, stored := %d }"
        % (s(r["entry"]), s(r["mode"]), r["colorMode"], r["colorChannels"], r["alpha"], r["headerChannels"], r["planeBytes"],
           r["stored"]) for r in rows)
    src = ("import PsdVerif.Model.Creation\nnamespace PsdVerif.Generated.Creation\nopen PsdVerif.Creation\n"
           "/-- one row per (creation entry point, mode it accepts): what the header / layer record declares and how many "
           "bytes the entry point stores for a 9 x 1 raster, RAW (measured on the live code) -/\n"
           "def rows : List Row := [\n" + body + "\n]\nend PsdVerif.Generated.Creation\n")
    ctx.write_generated("Creation", src)
    if note:
        ctx.notes.append(note)
    return rows


# ---------------------------------------------------------------------------------------------
# the documents
# ---------------------------------------------------------------------------------------------
def creation_documents(ctx):
    """-> [(label, scenario, bytes, None, meta)]"""
    out = []
    try:
        from PIL import Image
        from psd_tools import PSDImage
        from psd_tools.api.layers import Group, PixelLayer
        from psd_tools.constants import Compression
    except Exception as e:  # noqa
        ctx.skipped.append("creation entry point matrix skipped: %r" % e)
        return out
    quick = ctx.quick
    names = mode_names()
    comps = [Compression.RAW, Compression.RLE, Compression.ZIP] + ([] if quick else [Compression.ZIP_WITH_PREDICTION])

    def attempt(label, scen, meta, fn):
        try:
            out.append((label, scen, fn(), None, meta))
            ctx.hist("creation_entry_points", scen.split("/")[-1] + ":saved")
            return True
        except Exception as e:  # noqa
            ctx.hist("creation_entry_points", scen.split("/")[-1] + ":refused")
            ctx.hist("creation_refusals", "%s:%s" % (scen.split("/")[-1], type(e).__name__))
            return False

    # (A) PSDImage.new x mode x depth x compression (+ a PSB-sized one)
    doc_modes = []          # (mode, depth) accepted by PSDImage.new
    for mode, _ in names:
        for depth in (8, 16, 32):
            ok_any = False
            for comp in comps:
                for size in ((3, 2),) if quick else ((3, 2), (1, 1)):
                    ok = attempt("new-%s-%dx%d-d%d-c%d" % (mode, size[0], size[1], depth, int(comp)), "creation/PSDImage.new",
                                 {"entry": "PSDImage.new", "mode": mode, "size": list(size), "depth": depth, "compression": int(comp)},
                                 lambda: _save(PSDImage.new(mode, size, color=(200 if depth == 8 else 40000), depth=depth,
                                                            compression=comp)))
                    ok_any = ok_any or ok
            if ok_any:
                doc_modes.append((mode, depth))
        if (mode, 8) in doc_modes:
            for comp in (Compression.RLE, Compression.RAW):
                attempt("new-%s-30001x1-c%d" % (mode, int(comp)), "creation/PSDImage.new",
                        {"entry": "PSDImage.new", "mode": mode, "size": [30001, 1], "depth": 8, "compression": int(comp), "psb": True},
                        lambda: _save(PSDImage.new(mode, (30001, 1), color=9, compression=comp)))
    # (B) PSDImage.frompil x PIL mode x compression (+ a PSB-sized one)
    pil_modes = [m for m, _ in names if pil_image(m, (2, 2)) is not None]
    for mode in pil_modes:
        accepted = False
        for comp in comps + ([] if Compression.ZIP_WITH_PREDICTION in comps else [Compression.ZIP_WITH_PREDICTION]):
            for k, size in enumerate(((3, 2), (1, 1)) if quick else ((3, 2), (1, 1), (17, 3))):
                im = pil_image(mode, size, k)
                if im is None:
                    continue
                ok = attempt("frompil-%s-%dx%d-c%d" % (mode, size[0], size[1], int(comp)), "creation/PSDImage.frompil",
                             {"entry": "PSDImage.frompil", "mode": mode, "bands": list(im.getbands()), "size": list(size),
                              "compression": int(comp)},
                             lambda: _save(PSDImage.frompil(im, compression=comp)))
                accepted = accepted or ok
        if accepted:
            im = pil_image(mode, (30001, 1))
            if im is not None:
                for comp in (Compression.RLE, Compression.RAW):
                    attempt("frompil-%s-30001x1-c%d" % (mode, int(comp)), "creation/PSDImage.frompil",
                            {"entry": "PSDImage.frompil", "mode": mode, "bands": list(im.getbands()), "size": [30001, 1],
                             "compression": int(comp), "psb": True},
                            lambda: _save(PSDImage.frompil(im, compression=comp)))
    # (C) PixelLayer.frompil x PIL mode x document (every distinct header the creation entry points can make)
    seen_hdr, targets = set(), []
    for mode, depth in doc_modes:
        try:
            h = PSDImage.new(mode, (4, 4), depth=depth)._record.header
        except Exception:  # noqa
            continue
        key = (int(h.color_mode), h.channels, h.depth)
        if key not in seen_hdr:
            seen_hdr.add(key)
            targets.append((mode, depth))
    layer_comps = [Compression.RLE, Compression.RAW] + ([] if quick else [Compression.ZIP, Compression.ZIP_WITH_PREDICTION])
    for tm, depth in targets:
        for mode in pil_modes:
            im = pil_image(mode, (3, 2), 3)
            if im is None:
                continue
            for comp in layer_comps:
                def build(tm=tm, depth=depth, im=im, comp=comp, big=False):
                    p = PSDImage.new(tm, (30001, 1) if big else (5, 4), depth=depth)
                    p.append(PixelLayer.frompil(im, p, "layer", 1, 1, comp))
                    return _save(p)
                attempt("layer-%s-into-%s-d%d-c%d" % (mode, tm, depth, int(comp)), "creation/PixelLayer.frompil",
                        {"entry": "PixelLayer.frompil", "mode": mode, "document": tm, "depth": depth, "compression": int(comp)}, build)
            if depth == 8:
                attempt("layer-%s-into-%s-psb" % (mode, tm), "creation/PixelLayer.frompil",
                        {"entry": "PixelLayer.frompil", "mode": mode, "document": tm, "depth": depth, "psb": True},
                        lambda: build(big=True))
    # (D) groups in documents of every creatable header
    for tm, depth in targets:
        def tree(tm=tm, depth=depth, how="new"):
            p = PSDImage.new(tm, (5, 4), depth=depth)
            im = pil_image("RGB", (2, 2), 1)
            if how == "new":
                g = Group.new("g", parent=p)
                g.append(PixelLayer.frompil(im, p, "a"))
                inner = Group.new("inner", parent=g)
                inner.append(PixelLayer.frompil(im, p, "b", 1, 1))
                Group.new("empty", parent=p)
            elif how == "detached":
                g = Group.new("g")
                g.append(PixelLayer.frompil(im, p, "a"))
                p.append(g)
            else:
                a, b = PixelLayer.frompil(im, p, "a"), PixelLayer.frompil(im, p, "b", 1, 1)
                p.append(a)
                p.append(b)
                Group.group_layers([a, b], "grouped")
            return _save(p)
        for how in ("new", "detached", "group_layers"):
            attempt("groups-%s-%s-d%d" % (how, tm, depth), "creation/Group." + ("group_layers" if how == "group_layers" else "new"),
                    {"entry": "Group." + how, "document": tm, "depth": depth}, lambda: tree(how=how))
    # (E) the merged image in EVERY compression x how the document came to be (new / frompil / opened from a file that
    #     stores it that way) x structural edit x FIRST and SECOND save: save() regenerates the merged image after an
    #     edit, and what it stores must decode according to the code it declares
    all_comps = [Compression.RAW, Compression.RLE, Compression.ZIP, Compression.ZIP_WITH_PREDICTION]

    def edit(p, how):
        im = pil_image("RGB", (2, 2), 1)
        a = PixelLayer.frompil(im, p, "a")
        b = PixelLayer.frompil(im, p, "b", 1, 1)
        if how == "append":
            p.append(a)
        elif how == "append-remove":
            p.append(a)
            p.append(b)
            p.remove(a)
        elif how == "move":
            p.append(a)
            p.append(b)
            p.remove(b)
            p.insert(0, b)
        elif how == "group_layers":
            p.append(a)
            p.append(b)
            Group.group_layers([a, b], "grouped")
        elif how == "group-new":
            g = Group.new("g", parent=p)
            g.append(a)
        elif how == "clear":
            p.append(a)
            p.clear()

    regen = [t for t in targets if t[0].upper().rstrip("A") in ("RGB", "GRAYSCALE", "CMYK", "L", "LA")]
    control = [t for t in targets if t not in regen][:: max(1, len(targets) // 4)][:3]
    edits = ["append", "append-remove", "move", "group_layers", "group-new", "clear"]
    n_e = 0
    for tm, depth in regen + control:
        for comp in all_comps:
            plans = [("new", "append"), ("frompil", "append"), ("opened", "append")] + [("new", e) for e in edits[1:]] \
                + [("opened", edits[1 + (n_e % (len(edits) - 1))])]
            if not quick:
                plans = [(s_, e) for s_ in ("new", "frompil", "opened") for e in edits]
            n_e += 1
            for source, how in plans:
                def make(tm=tm, depth=depth, comp=comp, source=source):
                    if source == "frompil":
                        im = pil_image(tm, (5, 4), 2)
                        if im is None or depth != 8:
                            raise ValueError("no PIL image of this mode/depth")
                        return PSDImage.frompil(im, compression=comp)
                    p = PSDImage.new(tm, (5, 4), color=(90 if depth == 8 else 30000), depth=depth, compression=comp)
                    if source == "opened":
                        p = PSDImage.open(io.BytesIO(_save(p)))
                    return p
                holder = {}

                def first(make=make, how=how, holder=holder):
                    p = make()
                    edit(p, how)
                    holder["p"] = p
                    return _save(p)
                meta = {"entry": "merged-compression", "source": source, "document": tm, "depth": depth,
                        "merged_compression": int(comp), "edit": how}
                lab = "merged-c%d-%s-%s-%s-d%d" % (int(comp), source, how, tm, depth)
                if attempt(lab + "-save1", "creation/edit-then-save", dict(meta, save=1), first) and "p" in holder:
                    attempt(lab + "-save2", "creation/edit-then-save", dict(meta, save=2), lambda: _save(holder["p"]))
    ctx.extra["creation_matrix"] = {
        "mode_names": [m for m, _ in names], "pil_modes": pil_modes,
        "documents_PSDImage_new_accepts": ["%s/d%d" % t for t in doc_modes],
        "distinct_headers": ["%s/d%d" % t for t in targets]}
    return out


def run(ctx):
    """called at the end of props/C03.run"""
    try:
        docs = creation_documents(ctx)
        ans = cc.pbatch([("psd.walk", hx(j[2])) for j in docs])
        for (label, scen, b, exp, meta), a in zip(docs, ans):
            ctx.corr_cases += 1
            ctx.count((scen, label, len(b)), nontrivial=True)
            ctx.hist("scenario", scen)
            c03_extra.judge(ctx, label, scen, b, exp, meta, a)
    except core.Infra:
        raise
    except Exception as e:  # noqa  (the harness's own plumbing met a reshaped source: a broken tie, never exit 2)
        import traceback
        ctx.disagree("creation entry point matrix stopped on the current source: %s" % type(e).__name__,
                     {"error": repr(e)[:300], "where": traceback.format_exc()[-400:]})
    ctx.rule += (" Added (harness/c03_modes.py): every creation entry point (PSDImage.new, PSDImage.frompil, PixelLayer.frompil "
                 "into a document of every creatable header, Group.new / group_layers) x every mode name (PIL.Image.MODES, "
                 "ColorMode names with and without alpha, the keys of the library's pil_io tables, lower-case spellings) x depth "
                 "8/16/32 x compression x PSD/PSB; what an entry point refuses is dropped, what it saves is walked and its merged "
                 "image / layer channels are read against the header and the records. Merged image: every compression (raw, RLE, "
                 "ZIP, ZIP with prediction) x document made by new / frompil / opened from a file x structural edit (append, "
                 "append+remove, move, group_layers, Group.new, clear) x first and second save, for every creatable header whose "
                 "merged image save() regenerates (and three it does not); the stored image data must decode according to the "
                 "code it declares (RLE: channels*height table entries summing to the rest, each row expanding to the row size; "
                 "ZIP: inflates to channels*height*rowbytes).")
