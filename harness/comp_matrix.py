"""Feature matrix of the compositing checks (C11, C13).

Two independent halves:

* `cells(doc)`  - an ANALYSER: which cells of the declared matrix (`universe()`) a recipe exercises. It reads the recipe
  only (it does not know which generator made it), so the random stream and the deterministic stream are measured alike;
  the checks print the histogram into the evidence and list the cells nobody hit.
* `matrix_docs(tier)` - a deterministic, VERIF_SEED-independent stream of small documents (3x3 canvas) built so that every
  cell of the matrix is exercised on every run, in the quick tier too: clipping runs on every kind of base (pixel with / without
  transparency channel / with mask, isolated and pass-through groups, with mask, opaque / partial-alpha / translucent content,
  opacity, fill, partly outside, hidden, knockout) x clip layers of every kind (pixel, isolated group, pass-through group,
  mixed, hidden ones) x run length 1-3 x context (top level, inside an isolated / pass-through group; nothing / something
  translucent / something opaque below) x blend (normal / not); knockout x element kind x container x translucency; group
  kind x attribute (opacity, fill, mask, density, hidden, knockout, clipped) x backdrop x content x nesting; geometry
  (full, inside, straddling, canvas-sized but offset, outside, larger than the canvas; mask rectangles); pixel attributes.

The pixel contents come from a RandomState keyed by the document's index in the stream only.
"""
from __future__ import annotations

import numpy as np

import comp_common as cc

W, H = 3, 3
NONNORMAL = [m for m in cc.CONTINUOUS if m != "NORMAL"]
KIND3 = ["pixel", "group-iso", "group-pt"]
GKIND = ["iso-normal", "iso-blend", "pt"]
CTX = ["top", "group-iso", "group-pt"]
BACKDROP = ["none", "translucent", "opaque"]
PIXEL_BASES = {"pixel": ["plain", "partial-alpha", "opacity", "fill", "partly-outside", "hidden", "knockout"],
               "pixel-noalpha": ["plain", "opacity", "fill", "partly-outside", "hidden", "knockout"],
               "pixel-mask": ["plain", "partial-alpha", "opacity", "fill", "partly-outside", "hidden", "knockout"]}
GROUP_BASE_MODS = ["plain", "partial-alpha-content", "translucent-content", "opacity", "fill", "partly-outside", "hidden", "knockout"]
GROUP_BASES = ["group-iso", "group-pt", "group-iso-mask", "group-pt-mask"]
CLIP_KINDS = ["pixel", "group-iso", "group-pt", "mixed", "with-hidden"]
GROUP_ATTRS = ["plain", "opacity", "zero-opacity", "fill", "mask", "mask-density", "mask-disabled", "hidden", "knockout", "clip"]
GROUP_CONTENT = ["opaque", "partial-alpha", "translucent", "blend", "partly-outside", "outside", "clip-run", "knockout",
                 "nested-group", "hidden-child"]
GEOM = ["full", "inside", "straddle", "canvas-sized-offset", "outside", "larger"]
MASK_REL = ["same", "inside", "larger", "offset"]
ALPHA_CLASS = ["none", "opaque", "partial", "zero", "binary"]
TRANS = ["opaque", "partial-alpha", "translucent"]


# ------------------------------------------------------------------------------------------
# the declared matrix
# ------------------------------------------------------------------------------------------
def universe():
    u = []
    for bk, mods in PIXEL_BASES.items():
        u += [f"clip-base/{bk}/{m}" for m in mods]
    for bk in GROUP_BASES:
        u += [f"clip-base/{bk}/{m}" for m in GROUP_BASE_MODS]
    for b in KIND3:
        for ck in CLIP_KINDS:
            for n in (1, 2, 3):
                if ck in ("mixed", "with-hidden") and n == 1:
                    continue
                u.append(f"clip-layers/{b}/{ck}/{n}")
        u.append(f"clip-layers/{b}/all-hidden")
        u += [f"clip-context/{b}/{c}/{bd}" for c in CTX for bd in BACKDROP]
        # (a pass-through group has no blend mode of its own)
        u += [f"clip-blend/{b}/{k}/{bl}" for k in KIND3 for bl in ("normal", "non-normal") if (k, bl) != ("group-pt", "non-normal")]
        u += [f"knockout/{b}/{c}/{t}" for c in CTX for t in TRANS]
        u += [f"knockout-backdrop/{b}/{bd}" for bd in BACKDROP]
    for g in GKIND:
        u += [f"group/{g}/{a}" for a in GROUP_ATTRS]
        u += [f"group-backdrop/{g}/{bd}" for bd in BACKDROP]
        u += [f"group-content/{g}/{c}" for c in GROUP_CONTENT]
        u += [f"group-nest/{g}/{i}" for i in GKIND]
    u += [f"nested-pt/{d}/{bd}" for d in (2, 3) for bd in BACKDROP]
    u += [f"geom/{g}/{a}" for g in GEOM for a in ("alpha", "noalpha")]
    u += [f"mask/pixel/{r}/bg{bg}/{d}" for r in MASK_REL for bg in (0, 255) for d in ("density", "nodensity")]
    u += [f"mask/group/bg{bg}/{d}" for bg in (0, 255) for d in ("density", "nodensity")]
    u += [f"mask-density/{k}/{d}" for k in ("pixel", "group", "clip-layer") for d in ("none", "zero", "partial", "full")]
    u += [f"pixel-alpha-blend/{a}/{b}" for a in ALPHA_CLASS for b in ("normal", "non-normal")]
    u += [f"pixel/opacity-{o}" for o in ("full", "partial", "zero")]
    u += [f"pixel/fill-{o}" for o in ("none", "full", "partial", "zero")]
    return u


# ------------------------------------------------------------------------------------------
# the analyser
# ------------------------------------------------------------------------------------------
def _vis(n):
    return bool(n.get("visible", True))


def _mask_on(n):
    mk = n.get("mask")
    return bool(mk) and not mk.get("disabled")


def _partial(v):
    return v is not None and 0 < v < 255


def kind3(n):
    if n["t"] == "pixel":
        return "pixel"
    return "group-pt" if n.get("blend", "PASS_THROUGH") == "PASS_THROUGH" else "group-iso"


def gkind(n):
    b = n.get("blend", "PASS_THROUGH")
    return "pt" if b == "PASS_THROUGH" else "iso-normal" if b == "NORMAL" else "iso-blend"


def alpha_class(n):
    if n.get("alpha") is None:
        return "none"
    a = np.asarray(n["alpha"])
    if ((a > 0) & (a < 255)).any():
        return "partial"
    if not a.any():
        return "zero"
    return "opaque" if (a == 255).all() else "binary"


def translucent(n):
    """the node's own constant factors make its alpha differ from its shape (or scale both)"""
    return _partial(n.get("opacity", 255)) or _partial(n.get("fill")) or (_mask_on(n) and _partial(n["mask"].get("density")))


def _desc(g):
    """visible descendants of a group (not below a hidden group)"""
    for c in g["children"]:
        if not _vis(c):
            continue
        yield c
        if c["t"] == "group":
            yield from _desc(c)


def content_class(g):
    d = list(_desc(g))
    if any(translucent(c) for c in d):
        return "translucent"
    if any(c["t"] == "pixel" and alpha_class(c) == "partial" for c in d):
        return "partial-alpha"
    return "opaque"


def trans_class(n):
    if translucent(n):
        return "translucent"
    if n["t"] == "pixel":
        return "partial-alpha" if alpha_class(n) == "partial" else "opaque"
    c = content_class(n)
    return "partial-alpha" if c in ("partial-alpha", "translucent") else "opaque"


def effective(n):
    """a visible node that covers something partially (0 < alpha < 1 somewhere, by construction of the recipe)"""
    if not _vis(n) or n.get("opacity", 255) == 0 or n.get("fill") == 0:
        return False
    return trans_class(n) != "opaque"


def rect_class(rect, w, h):
    l, t, r, b = rect
    if l >= w or t >= h or r <= 0 or b <= 0:
        return "outside"
    if [l, t, r, b] == [0, 0, w, h]:
        return "full"
    if l >= 0 and t >= 0 and r <= w and b <= h:
        return "inside"
    if l <= 0 and t <= 0 and r >= w and b >= h:
        return "larger"
    if r - l == w and b - t == h:
        return "canvas-sized-offset"
    return "straddle"


def partly_outside(n, w, h):
    if n["t"] == "pixel":
        return rect_class(n["rect"], w, h) in ("straddle", "canvas-sized-offset", "larger")
    return any(c["t"] == "pixel" and partly_outside(c, w, h) for c in _desc(n))


def opaque_cover(n, w, h):
    return (n["t"] == "pixel" and _vis(n) and rect_class(n["rect"], w, h) in ("full", "larger") and alpha_class(n) in ("none", "opaque")
            and n.get("opacity", 255) == 255 and n.get("fill") in (None, 255) and not _mask_on(n) and n.get("blend", "NORMAL") == "NORMAL"
            and not n.get("clip"))


def backdrop_class(below, w, h):
    """what lies below a position, within the same list: none / translucent / opaque"""
    vis = [n for n in below if _vis(n)]
    if not vis:
        return "none"
    return "opaque" if any(opaque_cover(n, w, h) for n in vis) else "translucent"


def mask_rel(n):
    l, t, r, b = n["rect"]
    ml, mt, mr, mb = n["mask"]["rect"]
    if [ml, mt, mr, mb] == [l, t, r, b]:
        return "same"
    if ml >= l and mt >= t and mr <= r and mb <= b:
        return "inside"
    if ml <= l and mt <= t and mr >= r and mb >= b:
        return "larger"
    return "offset"


def density_class(n):
    d = n["mask"].get("density")
    return "none" if d is None else "zero" if d == 0 else "full" if d == 255 else "partial"


def _runs(nodes):
    """[(index of the base, base, [clip layers])] as the published model groups them (comp_common.Spec.runs)"""
    out = []
    for i, n in enumerate(nodes):
        if n.get("clip") and out and out[-1][3]:
            out[-1][2].append(n)
        else:
            out.append((i, n, [], not n.get("clip")))
    return [(i, b, c) for i, b, c, _ in out]


def cells(doc):
    w, h = doc["size"]
    out = set()

    def base_kind(n):
        if n["t"] == "pixel":
            return "pixel-noalpha" if n.get("alpha") is None else "pixel-mask" if _mask_on(n) else "pixel"
        return kind3(n) + ("-mask" if _mask_on(n) else "")

    def run_cells(i, base, clips, nodes, ctx):
        b3 = kind3(base)
        bk = base_kind(base)
        vis = [c for c in clips if _vis(c)]
        if not _vis(base):
            out.add(f"clip-base/{bk}/hidden")
            return
        if any(effective(c) for c in vis):
            mods = set()
            plain = True
            if _partial(base.get("opacity", 255)):
                mods.add("opacity"); plain = False
            if _partial(base.get("fill")):
                mods.add("fill"); plain = False
            if base.get("knockout"):
                mods.add("knockout"); plain = False
            if partly_outside(base, w, h):
                mods.add("partly-outside"); plain = False
            if base["t"] == "pixel":
                if alpha_class(base) == "partial":
                    mods.add("partial-alpha"); plain = False
            else:
                cclass = content_class(base)
                if cclass != "opaque":
                    mods.add(cclass + "-content"); plain = False
            if plain and base.get("opacity", 255) == 255 and base.get("fill") in (None, 255):
                mods.add("plain")
            for m in mods:
                out.add(f"clip-base/{bk}/{m}")
        if not vis:
            out.add(f"clip-layers/{b3}/all-hidden")
        else:
            kinds = {kind3(c) for c in clips}
            ck = "with-hidden" if len(vis) < len(clips) else kinds.pop() if len(kinds) == 1 else "mixed"
            out.add(f"clip-layers/{b3}/{ck}/{min(len(clips), 3)}")
            out.add(f"clip-context/{b3}/{ctx}/{backdrop_class(nodes[:i], w, h)}")
            for c in vis:
                if effective(c):
                    bl = "normal" if c.get("blend", "NORMAL") in ("NORMAL", "PASS_THROUGH") else "non-normal"
                    out.add(f"clip-blend/{b3}/{kind3(c)}/{bl}")

    def rec(nodes, ctx, outer, ptdepth, pt_backdrop):
        for i, base, clips in _runs(nodes):
            if clips:
                run_cells(i, base, clips, nodes, ctx)
        for i, n in enumerate(nodes):
            below = backdrop_class(nodes[:i], w, h)
            if n.get("knockout") and _vis(n):
                out.add(f"knockout/{kind3(n)}/{ctx}/{trans_class(n)}")
                out.add(f"knockout-backdrop/{kind3(n)}/{below}")
            if n["t"] == "group":
                g = gkind(n)
                if outer is not None:
                    out.add(f"group-nest/{outer}/{g}")
                if not _vis(n):
                    out.add(f"group/{g}/hidden")
                    continue
                attrs = []
                if _partial(n.get("opacity", 255)): attrs.append("opacity")
                if n.get("opacity", 255) == 0: attrs.append("zero-opacity")
                if _partial(n.get("fill")): attrs.append("fill")
                if _mask_on(n):
                    attrs.append("mask")
                    mk = n["mask"]
                    if _partial(mk.get("density")): attrs.append("mask-density")
                    out.add(f"mask/group/bg{255 if mk.get('bg') else 0}/{'density' if _partial(mk.get('density')) else 'nodensity'}")
                    out.add(f"mask-density/{'clip-layer' if n.get('clip') else 'group'}/{density_class(n)}")
                elif n.get("mask"):
                    attrs.append("mask-disabled")
                if n.get("knockout"): attrs.append("knockout")
                if n.get("clip"): attrs.append("clip")
                for a in attrs or ["plain"]:
                    out.add(f"group/{g}/{a}")
                out.add(f"group-backdrop/{g}/{below}")
                kids = n["children"]
                vk = [c for c in kids if _vis(c)]
                out.add(f"group-content/{g}/{content_class(n)}")
                if any(c.get("blend", "NORMAL") not in ("NORMAL", "PASS_THROUGH") for c in vk):
                    out.add(f"group-content/{g}/blend")
                if partly_outside(n, w, h):
                    out.add(f"group-content/{g}/partly-outside")
                if any(c["t"] == "pixel" and rect_class(c["rect"], w, h) == "outside" for c in vk):
                    out.add(f"group-content/{g}/outside")
                if any(cl for _, b, cl in _runs(kids) if _vis(b) and any(_vis(c) for c in cl)):
                    out.add(f"group-content/{g}/clip-run")
                if any(c.get("knockout") for c in vk):
                    out.add(f"group-content/{g}/knockout")
                if any(c["t"] == "group" for c in vk):
                    out.add(f"group-content/{g}/nested-group")
                if len(vk) < len(kids):
                    out.add(f"group-content/{g}/hidden-child")
                if g == "pt":
                    d = ptdepth + 1
                    bd = below if ptdepth == 0 else pt_backdrop
                    if d >= 2:
                        out.add(f"nested-pt/{min(d, 3)}/{bd}")
                    rec(kids, "group-pt", g, d, bd)
                else:
                    rec(kids, "group-iso", g, 0, None)
            else:
                if not _vis(n):
                    continue
                a = alpha_class(n)
                out.add(f"geom/{rect_class(n['rect'], w, h)}/{'noalpha' if a == 'none' else 'alpha'}")
                bl = "normal" if n.get("blend", "NORMAL") == "NORMAL" else "non-normal"
                out.add(f"pixel-alpha-blend/{a}/{bl}")
                o = n.get("opacity", 255)
                out.add("pixel/opacity-" + ("full" if o == 255 else "zero" if o == 0 else "partial"))
                f = n.get("fill")
                out.add("pixel/fill-" + ("none" if f is None else "full" if f == 255 else "zero" if f == 0 else "partial"))
                if _mask_on(n):
                    mk = n["mask"]
                    out.add(f"mask/pixel/{mask_rel(n)}/bg{255 if mk.get('bg') else 0}/{'density' if _partial(mk.get('density')) else 'nodensity'}")
                    out.add(f"mask-density/{'clip-layer' if n.get('clip') else 'pixel'}/{density_class(n)}")
    rec(doc["recipe"], "top", None, 0, None)
    return out


# ------------------------------------------------------------------------------------------
# the deterministic stream
# ------------------------------------------------------------------------------------------
RECTS = {"full": [[0, 0, W, H]],
         "inside": [[1, 0, 3, 2], [0, 1, 2, 3], [1, 1, 2, 2], [0, 0, 2, 3]],
         "straddle": [[-1, 1, 2, 4], [1, -1, 4, 2], [-1, -1, 2, 2], [2, 0, 4, 2]],
         "canvas-sized-offset": [[1, -1, W + 1, H - 1], [-1, 1, W - 1, H + 1], [1, 0, W + 1, H], [0, -2, W, H - 2]],
         "outside": [[W + 1, 0, W + 3, 2], [-2, -2, 0, 0], [0, H, 2, H + 2]],
         "larger": [[-1, -1, W + 1, H + 1], [0, -1, W + 2, H]]}
MODES = ["RGB", "RGB", "L", "RGB", "CMYK"]


class Mk:
    """builder of the nodes of ONE document; every choice is a function of the document's index"""

    def __init__(self, idx):
        self.idx = idx
        self.mode = MODES[idx % len(MODES)]
        self.ch = cc.MODE_CH[self.mode]
        self.r = np.random.RandomState(100003 * idx + 17)
        self.k = idx

    def tick(self, n):
        self.k += 1
        return (self.k * 7 + self.idx) % n

    def blend(self):
        return NONNORMAL[self.tick(len(NONNORMAL))]

    def maybe_blend(self):
        return "NORMAL" if self.tick(3) == 0 else self.blend()

    def rect(self, g):
        rs = RECTS[g]
        return list(rs[self.tick(len(rs))])

    def alpha(self, kind, h, w):
        if kind == "none":
            return None
        if kind == "opaque":
            return np.full((h, w), 255, np.uint8)
        if kind == "zero":
            return np.zeros((h, w), np.uint8)
        if kind == "binary":
            a = self.r.choice([0, 255], size=(h, w)).astype(np.uint8)
            a.flat[0] = 255
            a.flat[-1] = 0 if a.size > 1 else 255
            return a
        a = self.r.choice([40, 90, 128, 200, 255], size=(h, w)).astype(np.uint8)
        a.flat[0] = 128
        return a

    def pixel(self, g="full", alpha="partial", **kw):
        l, t, r, b = self.rect(g) if isinstance(g, str) else list(g)
        w, h = r - l, b - t
        color = self.r.randint(0, 256, size=(h, w, self.ch)).astype(np.uint8)
        n = {"t": "pixel", "rect": [l, t, r, b], "color": color, "alpha": self.alpha(alpha, h, w), "opacity": 255, "fill": None,
             "blend": "NORMAL", "visible": True, "clip": False, "knockout": False, "mask": None}
        n.update(kw)
        return n

    def mask(self, rect, rel="same", bg=0, density=None, disabled=False):
        l, t, r, b = rect
        if rel == "inside":
            m = [l, t, max(l + 1, r - 1), b] if r - l > 1 else [l, t, r, max(t + 1, b - 1)]
            if m == [l, t, r, b]:
                m = [l, t, r, b]      # a 1x1 layer has no proper sub-rectangle; the caller uses larger layers
        elif rel == "larger":
            m = [l - 1, t, r + 1, b + 1]
        elif rel == "offset":
            m = [l + 1, t - 1, r + 1, b - 1] if b - t > 1 else [l + 1, t, r + 1, b]
        else:
            m = [l, t, r, b]
        data = self.r.choice([0, 90, 200, 255], size=(m[3] - m[1], m[2] - m[0])).astype(np.uint8)
        data.flat[0] = 200
        return {"rect": m, "bg": bg, "data": data, "disabled": disabled, "density": density}

    def group(self, children, blend="PASS_THROUGH", **kw):
        n = {"t": "group", "blend": blend, "opacity": 255, "fill": None, "visible": True, "clip": False, "knockout": False,
             "mask": None, "children": children}
        n.update(kw)
        return n

    def gblend(self, g):
        return "PASS_THROUGH" if g in ("pt", "group-pt") else "NORMAL" if g in ("iso-normal",) else \
            self.blend() if g == "iso-blend" else ("NORMAL" if self.tick(2) else self.blend())

    # -- building blocks ----------------------------------------------------------------------
    def backdrop(self, kind):
        if kind == "none":
            return []
        if kind == "opaque":
            return [self.pixel("full", "opaque")]
        return [self.pixel("full", "partial")]

    def content(self, kind, geom="full"):
        """children of a group: opaque / partial-alpha / translucent (alpha != shape through opacity, fill or mask density)"""
        if kind == "opaque":
            return [self.pixel(geom, "opaque"), self.pixel("inside", "opaque", blend=self.maybe_blend())]
        if kind == "partial-alpha":
            return [self.pixel(geom, "partial"), self.pixel("inside", "partial", blend=self.maybe_blend())]
        v = self.tick(3)
        a = self.pixel(geom, "opaque", opacity=128) if v == 0 else self.pixel(geom, "opaque", fill=100) if v == 1 else \
            self.pixel(geom, "opaque")
        if v == 2:
            a["mask"] = self.mask(a["rect"], "same", bg=0, density=128)
            a["mask"]["data"][...] = 255
        return [a, self.pixel("inside", "partial", opacity=[200, 255][self.tick(2)], blend=self.maybe_blend())]

    def in_context(self, nodes, ctx, backdrop):
        """the nodes with `backdrop` below them in the same list, at top level or inside a group over a translucent layer"""
        lst = self.backdrop(backdrop) + nodes
        if ctx == "top":
            return lst
        g = self.group(lst, "PASS_THROUGH" if ctx == "group-pt" else self.gblend("iso"))
        return [self.pixel("full", "partial"), g]

    def clip(self, kind, hidden=False, blend=None):
        op = [255, 128][self.tick(2)]
        bl = self.maybe_blend() if blend is None else ("NORMAL" if blend == "normal" else self.blend())
        if kind == "pixel":
            return self.pixel(["full", "inside", "straddle"][self.tick(3)], "partial", clip=True, blend=bl, opacity=op, visible=not hidden)
        kids = [self.pixel("full", "partial", blend=self.maybe_blend()), self.pixel("inside", "opaque", opacity=128)]
        gb = "PASS_THROUGH" if kind == "group-pt" else ("NORMAL" if bl == "NORMAL" else bl)
        return self.group(kids, gb, clip=True, opacity=op, visible=not hidden)

    def clip_base(self, bk, mod):
        kw = {}
        if mod == "opacity": kw["opacity"] = 150
        if mod == "fill": kw["fill"] = 100
        if mod == "hidden": kw["visible"] = False
        if mod == "knockout": kw["knockout"] = True
        geom = "straddle" if mod == "partly-outside" else "full"
        if bk.startswith("pixel"):
            alpha = "none" if bk == "pixel-noalpha" else "partial" if mod == "partial-alpha" else "opaque"
            n = self.pixel(geom, alpha, blend=self.maybe_blend(), **kw)
            if bk == "pixel-mask":
                n["mask"] = self.mask(n["rect"], MASK_REL[self.tick(4)], bg=[0, 255][self.tick(2)], density=[None, 128][self.tick(2)])
            return n
        content = {"plain": "opaque", "partial-alpha-content": "partial-alpha", "translucent-content": "translucent"}.get(
            mod, ["opaque", "partial-alpha", "translucent"][self.tick(3)])
        if mod in ("opacity", "fill", "knockout", "partly-outside", "hidden"):
            content = ["opaque", "partial-alpha", "translucent"][self.tick(3)]
        n = self.group(self.content(content, geom), "PASS_THROUGH" if "-pt" in bk else self.gblend("iso"), **kw)
        if bk.endswith("-mask"):
            n["mask"] = self.mask([0, 0, W, H], "same", bg=[0, 255][self.tick(2)], density=[None, 128][self.tick(2)])
        return n


CLIPSEQS = [("pixel",), ("group-iso",), ("group-pt",),
            ("pixel", "pixel"), ("group-iso", "group-iso"), ("group-pt", "group-pt"), ("pixel", "group-iso"), ("group-pt", "pixel"),
            ("-pixel", "pixel"), ("pixel", "-group-iso"),
            ("pixel", "pixel", "pixel"), ("group-iso", "group-iso", "group-iso"), ("group-pt", "group-pt", "group-pt"),
            ("pixel", "group-iso", "group-pt"), ("pixel", "-pixel", "group-pt"),
            ("-pixel",), ("-pixel", "-group-iso")]
CONTEXTS = [(c, b) for c in CTX for b in BACKDROP]


def _clips(mk, seq, blend=None):
    return [mk.clip(k.lstrip("-"), hidden=k.startswith("-"), blend=blend) for k in seq]


def _doc(mk, recipe, family):
    doc = {"recipe": recipe, "size": [W, H], "mode": mk.mode, "family": family}
    cc.name_nodes(doc["recipe"])
    return doc


def matrix_docs(tier="quick"):
    """the deterministic stream; `thorough` adds products of the factors that the quick tier only pairs up"""
    docs = []
    thorough = tier == "thorough"

    def new():
        return Mk(len(docs))

    def emit(mk, recipe, family):
        docs.append(_doc(mk, recipe, family))

    # ---- A1: every kind of clip base x every modifier (x every clip sequence in the thorough tier)
    bases = [(bk, m) for bk, mods in PIXEL_BASES.items() for m in mods] + [(bk, m) for bk in GROUP_BASES for m in GROUP_BASE_MODS]
    for j, (bk, mod) in enumerate(bases):
        seqs = CLIPSEQS if thorough else [CLIPSEQS[(j * 5 + s) % 15] for s in (0, 7)]
        for s, seq in enumerate(seqs):
            mk = new()
            ctx, bd = CONTEXTS[(j + 4 * s) % len(CONTEXTS)]
            run = [mk.clip_base(bk, mod)] + _clips(mk, seq)
            emit(mk, mk.in_context(run, ctx, bd) + ([mk.pixel("inside", "partial", blend=mk.blend())] if j % 2 else []), "clip-base")
    # ---- A2: base kind x clip sequence
    for b3 in KIND3:
        for j, seq in enumerate(CLIPSEQS):
            for content in (["translucent", "opaque"] if thorough else ["translucent"]):
                mk = new()
                base = mk.pixel("full", "partial") if b3 == "pixel" else mk.group(mk.content(content), mk.gblend(b3 if b3 == "group-pt" else "iso"))
                ctx, bd = CONTEXTS[j % len(CONTEXTS)]
                emit(mk, mk.in_context([base] + _clips(mk, seq), ctx, bd), "clip-layers")
    # ---- A3 / A4: context and blend of the run
    for b3 in KIND3:
        for j, (ctx, bd) in enumerate(CONTEXTS):
            mk = new()
            base = mk.pixel("inside", "partial", opacity=200) if b3 == "pixel" else mk.group(mk.content("translucent"), mk.gblend(b3 if b3 == "group-pt" else "iso"))
            emit(mk, mk.in_context([base] + _clips(mk, CLIPSEQS[(j * 2) % 8]), ctx, bd), "clip-context")
        for ck in KIND3:
            for bl in ("normal", "non-normal"):
                if (ck, bl) == ("group-pt", "non-normal"):
                    continue
                mk = new()
                base = mk.pixel("full", "partial") if b3 == "pixel" else mk.group(mk.content("translucent"), mk.gblend(b3 if b3 == "group-pt" else "iso"))
                emit(mk, mk.in_context([base] + _clips(mk, (ck,), blend=bl), "top", "translucent"), "clip-blend")
    # ---- B: knockout
    for k3 in KIND3:
        for ctx in CTX:
            for tr in TRANS:
                for bd in (BACKDROP if thorough else [BACKDROP[(len(docs)) % 3]]):
                    mk = new()
                    kw = {"knockout": True, "blend": mk.maybe_blend()}
                    if tr == "translucent":
                        kw["opacity"] = 128
                    if k3 == "pixel":
                        el = mk.pixel(["full", "inside"][mk.tick(2)], "partial" if tr == "partial-alpha" else "opaque", **kw)
                    else:
                        kw["blend"] = "PASS_THROUGH" if k3 == "group-pt" else mk.gblend("iso")
                        el = mk.group(mk.content("partial-alpha" if tr == "partial-alpha" else "opaque"), **kw)
                    lst = mk.backdrop(bd) + [mk.pixel("inside", "partial")] * (bd != "none") + [el, mk.pixel("inside", "partial", blend=mk.maybe_blend())]
                    if ctx == "top":
                        emit(mk, lst, "knockout")
                    else:
                        emit(mk, [mk.pixel("full", "partial"), mk.group(lst, "PASS_THROUGH" if ctx == "group-pt" else mk.gblend("iso"))], "knockout")
        for bd in BACKDROP:
            mk = new()
            el = mk.pixel("full", "opaque", knockout=True, opacity=128) if k3 == "pixel" else \
                mk.group(mk.content("opaque"), "PASS_THROUGH" if k3 == "group-pt" else "NORMAL", knockout=True, opacity=128)
            emit(mk, mk.backdrop(bd) + [el], "knockout")
    # ---- C: groups
    for g in GKIND:
        for attr in GROUP_ATTRS:
            for content in (["opaque", "partial-alpha", "translucent"] if thorough else [["opaque", "partial-alpha", "translucent"][len(docs) % 3]]):
                mk = new()
                grp = mk.group(mk.content(content), mk.gblend(g))
                if attr == "opacity": grp["opacity"] = 150
                if attr == "zero-opacity": grp["opacity"] = 0
                if attr == "fill": grp["fill"] = 100
                if attr == "hidden": grp["visible"] = False
                if attr == "knockout": grp["knockout"] = True
                if attr == "clip": grp["clip"] = True
                if attr.startswith("mask"):
                    grp["mask"] = mk.mask([0, 0, W, H] if mk.tick(2) else [0, 1, 2, 3], "same", bg=[0, 255][mk.tick(2)],
                                          density=128 if attr == "mask-density" else [None, 255][mk.tick(2)], disabled=attr == "mask-disabled")
                bd = BACKDROP[mk.tick(3)]
                below = mk.backdrop(bd) + ([mk.pixel("inside", "partial", opacity=200)] if attr == "clip" else [])
                emit(mk, below + [grp, mk.pixel("inside", "partial", blend=mk.maybe_blend())], "group-attr")
        for bd in BACKDROP:
            for content in ("translucent", "partial-alpha"):
                mk = new()
                emit(mk, mk.backdrop(bd) + [mk.group(mk.content(content), mk.gblend(g), opacity=[255, 150][mk.tick(2)])], "group-backdrop")
        for c in GROUP_CONTENT:
            mk = new()
            if c in ("opaque", "partial-alpha", "translucent"):
                kids = mk.content(c)
            elif c == "blend":
                kids = [mk.pixel("full", "partial"), mk.pixel("inside", "partial", blend=mk.blend()), mk.pixel("straddle", "opaque", blend=mk.blend(), opacity=128)]
            elif c == "partly-outside":
                kids = [mk.pixel("straddle", "partial"), mk.pixel("canvas-sized-offset", "partial", blend=mk.maybe_blend()), mk.pixel("larger", "partial", opacity=128)]
            elif c == "outside":
                kids = [mk.pixel("inside", "partial"), mk.pixel("outside", "opaque")]
            elif c == "clip-run":
                kids = [mk.pixel("inside", "partial", opacity=200)] + _clips(mk, ("pixel", "group-iso"))
            elif c == "knockout":
                kids = [mk.pixel("full", "partial"), mk.pixel("inside", "opaque", knockout=True, opacity=128, blend=mk.maybe_blend())]
            elif c == "nested-group":
                kids = [mk.pixel("inside", "partial"), mk.group(mk.content("translucent"), ["PASS_THROUGH", "NORMAL"][mk.tick(2)], opacity=200)]
            else:
                kids = [mk.pixel("full", "partial"), mk.pixel("inside", "opaque", visible=False), mk.pixel("inside", "partial", blend=mk.maybe_blend())]
            emit(mk, mk.backdrop(BACKDROP[mk.tick(3)]) + [mk.group(kids, mk.gblend(g), opacity=[255, 150][mk.tick(2)])], "group-content")
        for inner in GKIND:
            for bd in (BACKDROP if thorough else ["translucent"]):
                mk = new()
                ing = mk.group(mk.content("translucent"), mk.gblend(inner), opacity=[255, 150][mk.tick(2)])
                outg = mk.group([mk.pixel("inside", "partial"), ing, mk.pixel("inside", "partial", blend=mk.maybe_blend())], mk.gblend(g),
                                opacity=[150, 255][mk.tick(2)])
                emit(mk, mk.backdrop(bd) + [outg], "group-nest")
    for depth in (2, 3):
        for bd in BACKDROP:
            for op in ((255, 150) if thorough else (150,)):
                mk = new()
                node = mk.group(mk.content("translucent"), "PASS_THROUGH", opacity=op)
                for _ in range(depth - 1):
                    node = mk.group([mk.pixel("inside", "partial", blend=mk.maybe_blend()), node], "PASS_THROUGH", opacity=[255, 150][mk.tick(2)])
                emit(mk, mk.backdrop(bd) + [node, mk.pixel("inside", "partial")], "nested-pt")
    # ---- D: geometry
    for g in GEOM:
        for a in ("partial", "none", "opaque"):
            for k in range(len(RECTS[g])):
                mk = new()
                lay = mk.pixel(RECTS[g][k], a, blend=mk.maybe_blend(), opacity=[255, 128][mk.tick(2)])
                rest = [mk.pixel("inside", "partial", clip=True)] if k % 2 else []
                if k % 3 == 2:
                    emit(mk, [mk.pixel("full", "partial"), mk.group([lay] + rest, ["PASS_THROUGH", "NORMAL"][mk.tick(2)])], "geometry")
                else:
                    emit(mk, mk.backdrop(BACKDROP[mk.tick(3)]) + [lay] + rest, "geometry")
    for rel in MASK_REL:
        for bg in (0, 255):
            for dens in (None, 128):
                mk = new()
                lay = mk.pixel([[0, 0, 2, 2], [1, 1, 3, 3], [0, 0, W, H]][mk.tick(3)], ["partial", "opaque", "none"][mk.tick(3)], blend=mk.maybe_blend())
                lay["mask"] = mk.mask(lay["rect"], rel, bg=bg, density=dens)
                emit(mk, mk.backdrop(BACKDROP[mk.tick(3)]) + [lay], "mask")
    for bg in (0, 255):
        for dens in (None, 128):
            for g in GKIND:
                mk = new()
                grp = mk.group(mk.content(["opaque", "translucent"][mk.tick(2)]), mk.gblend(g))
                grp["mask"] = mk.mask([[0, 0, 2, 3], [1, 0, 3, 2]][mk.tick(2)], "same", bg=bg, density=dens)
                emit(mk, mk.backdrop(BACKDROP[mk.tick(3)]) + [grp], "mask")
    for kind in ("pixel", "group", "clip-layer"):
        for dens in (None, 0, 128, 255):
            for bg in (0, 255):
                mk = new()
                if kind == "group":
                    lay = mk.group(mk.content(["opaque", "partial-alpha"][mk.tick(2)]), mk.gblend(GKIND[mk.tick(3)]))
                    rect = [0, 0, W, H]
                else:
                    lay = mk.pixel([[0, 0, W, H], [0, 0, 2, 3]][mk.tick(2)], ["partial", "opaque"][mk.tick(2)], blend=mk.maybe_blend(), clip=kind == "clip-layer")
                    rect = lay["rect"]
                lay["mask"] = mk.mask(rect, ["same", "inside"][mk.tick(2)], bg=bg, density=dens)
                below = [mk.pixel("full", "partial", opacity=200)] if kind == "clip-layer" else mk.backdrop(BACKDROP[mk.tick(3)])
                emit(mk, below + [lay], "mask-density")
    # ---- E: pixel attributes
    for a in ALPHA_CLASS:
        for bl in ("normal", "non-normal"):
            mk = new()
            emit(mk, mk.backdrop("translucent") + [mk.pixel([0, 0, 2, 3] if a != "none" else [-1, 1, 2, 4], a, blend="NORMAL" if bl == "normal" else mk.blend())], "pixel-attr")
    for o in (255, 128, 0):
        for f in (None, 255, 100, 0):
            mk = new()
            emit(mk, mk.backdrop("translucent") + [mk.pixel("inside", "partial", opacity=o, fill=f, blend=mk.maybe_blend())], "pixel-attr")
    return docs


def coverage(hit):
    """(number of cells, cells of the declared matrix that are missing from `hit`)"""
    u = universe()
    return len(u), [c for c in u if c not in hit]


def covering_docs(tier="quick"):
    """a subset of the quick stream that still exercises every cell (greedy set cover, ties broken by position in the stream) -
    for checks that run many derived cases per document (C13)"""
    docs = matrix_docs("quick")
    sets = [cells(d) for d in docs]
    need = set(universe())
    chosen = []
    while need:
        best = max(range(len(docs)), key=lambda i: (len(sets[i] & need), -i))
        if not sets[best] & need:
            break
        chosen.append(best)
        need -= sets[best]
    if tier == "thorough":
        chosen = sorted(set(chosen) | set(range(0, len(docs), 3)))
    return [docs[i] for i in sorted(chosen)]
