"""C01/C03 extractor: table-shaped facts of the file skeleton, read from the live classes of the
working tree on every run -> lean/PsdVerif/Generated/Codec.lean.

Nothing here is typed by hand: enum value sets come from `constants.py`, accepted signatures
and numeric ranges from the `attr` validators of the classes, the PSB 8-byte-length key set
from `TaggedBlock._BIG_KEYS`, struct formats from the `_FORMAT` class attribute.
"""
from __future__ import annotations

import importlib

from core import Infra


def _bytes(b: bytes) -> str:
    return "[" + ", ".join(str(x) for x in b) + "]"


def _blist(bs) -> str:
    return "[" + ", ".join(_bytes(b) for b in bs) + "]"


def _nlist(ns) -> str:
    return "[" + ", ".join(str(int(n)) for n in ns) + "]"


def _ilist(ns) -> str:
    return "[" + ", ".join(("(%d)" % int(n)) for n in ns) + "]"


def _options(validator):
    o = getattr(validator, "options", None)
    if o is None:
        raise Infra(f"validator without options: {validator!r}")
    return o


def _enum_values(e):
    return [m.value for m in e]


def tables():
    import attr
    H = importlib.import_module("psd_tools.psd.header")
    IR = importlib.import_module("psd_tools.psd.image_resources")
    LM = importlib.import_module("psd_tools.psd.layer_and_mask")
    TB = importlib.import_module("psd_tools.psd.tagged_blocks")
    ID = importlib.import_module("psd_tools.psd.image_data")
    C = importlib.import_module("psd_tools.constants")

    hf = {f.name: f for f in attr.fields(H.FileHeader)}
    t = {}
    t["headerFormat"] = H.FileHeader._FORMAT
    t["headerSignature"] = hf["signature"].default
    # the signature validator is a method: probe it
    try:
        H.FileHeader(signature=b"8BPX")
        raise Infra("FileHeader accepts a wrong signature: the model's validator is out of date")
    except ValueError:
        pass
    t["headerVersions"] = sorted(_options(hf["version"].validator))
    for nm in ("channels", "height", "width"):
        v = hf[nm].validator
        t[nm + "Min"], t[nm + "Max"] = int(v.minimum), int(v.maximum)
    t["headerDepths"] = sorted(_options(hf["depth"].validator))
    t["colorModes"] = sorted(_enum_values(_options(hf["color_mode"].validator)))

    rf = {f.name: f for f in attr.fields(IR.ImageResource)}
    t["resourceSignatures"] = sorted(_options(rf["signature"].validator))

    lr = {f.name: f for f in attr.fields(LM.LayerRecord)}
    t["recordSignatures"] = sorted(_options(lr["signature"].validator))
    t["blendModes"] = sorted(_enum_values(_options(lr["blend_mode"].validator)))
    t["opacityMin"], t["opacityMax"] = int(lr["opacity"].validator.minimum), int(lr["opacity"].validator.maximum)
    t["clippings"] = sorted(_enum_values(_options(lr["clipping"].validator)))
    ci = {f.name: f for f in attr.fields(LM.ChannelInfo)}
    t["channelIds"] = sorted(_enum_values(_options(ci["id"].validator)))
    cd = {f.name: f for f in attr.fields(LM.ChannelData)}
    t["compressions"] = sorted(_enum_values(_options(cd["compression"].validator)))
    idf = {f.name: f for f in attr.fields(ID.ImageData)}
    t["imageCompressions"] = sorted(_enum_values(_options(idf["compression"].validator)))
    gm = {f.name: f for f in attr.fields(LM.GlobalLayerMaskInfo)}
    t["glmKinds"] = sorted(_enum_values(_options(gm["kind"].validator)))
    t["glmDefaultOpacity"] = int(gm["opacity"].default)
    t["glmDefaultKind"] = int(gm["kind"].default)

    tb = {f.name: f for f in attr.fields(TB.TaggedBlock)}
    t["blockSignatures"] = sorted(_options(tb["signature"].validator))
    if tuple(sorted(TB.TaggedBlock._SIGNATURES)) != tuple(t["blockSignatures"]):
        raise Infra("TaggedBlock._SIGNATURES differs from the signature validator")
    t["bigKeys"] = sorted(getattr(k, "value", k) for k in TB.TaggedBlock._BIG_KEYS)
    t["tagKeys"] = sorted(m.value for m in C.Tag)
    return t


def gen_codec(ctx):
    t = tables()
    src = (
        "namespace PsdVerif.Generated.Codec\n"
        f"/-- `FileHeader._FORMAT` -/\ndef headerFormat : String := \"{t['headerFormat']}\"\n"
        f"/-- default (= only accepted) `FileHeader.signature` -/\ndef headerSignature : List UInt8 := {_bytes(t['headerSignature'])}\n"
        f"def headerVersions : List Nat := {_nlist(t['headerVersions'])}\n"
        f"def channelsMin : Nat := {t['channelsMin']}\ndef channelsMax : Nat := {t['channelsMax']}\n"
        f"def heightMin : Nat := {t['heightMin']}\ndef heightMax : Nat := {t['heightMax']}\n"
        f"def widthMin : Nat := {t['widthMin']}\ndef widthMax : Nat := {t['widthMax']}\n"
        f"def headerDepths : List Nat := {_nlist(t['headerDepths'])}\n"
        f"/-- `ColorMode` values -/\ndef colorModes : List Nat := {_nlist(t['colorModes'])}\n"
        f"/-- signatures accepted by `ImageResource` -/\ndef resourceSignatures : List (List UInt8) := {_blist(t['resourceSignatures'])}\n"
        f"/-- signatures accepted by `LayerRecord` -/\ndef recordSignatures : List (List UInt8) := {_blist(t['recordSignatures'])}\n"
        f"/-- `BlendMode` values -/\ndef blendModes : List (List UInt8) := {_blist(t['blendModes'])}\n"
        f"def opacityMin : Nat := {t['opacityMin']}\ndef opacityMax : Nat := {t['opacityMax']}\n"
        f"/-- `Clipping` values -/\ndef clippings : List Nat := {_nlist(t['clippings'])}\n"
        f"/-- `ChannelID` values -/\ndef channelIds : List Int := {_ilist(t['channelIds'])}\n"
        f"/-- `Compression` values accepted by `ChannelData` / `ImageData` -/\ndef compressions : List Nat := {_nlist(t['compressions'])}\n"
        f"def imageCompressions : List Nat := {_nlist(t['imageCompressions'])}\n"
        f"/-- `GlobalLayerMaskKind` values and the attribute defaults of `GlobalLayerMaskInfo` -/\n"
        f"def glmKinds : List Nat := {_nlist(t['glmKinds'])}\n"
        f"def glmDefaultOpacity : Nat := {t['glmDefaultOpacity']}\ndef glmDefaultKind : Nat := {t['glmDefaultKind']}\n"
        f"/-- `TaggedBlock._SIGNATURES` -/\ndef blockSignatures : List (List UInt8) := {_blist(t['blockSignatures'])}\n"
        f"/-- `TaggedBlock._BIG_KEYS` (keys whose length field is 8 bytes in a PSB), sorted -/\n"
        f"def bigKeys : List (List UInt8) := {_blist(t['bigKeys'])}\n"
        "end PsdVerif.Generated.Codec\n"
    )
    ctx.write_generated("Codec", src)
    return {k: (v if not isinstance(v, (bytes, list)) else
                (v.decode("latin1") if isinstance(v, bytes) else
                 [x.decode("latin1") if isinstance(x, bytes) else x for x in v]))
            for k, v in t.items() if k != "tagKeys"}
