"""C20: the pool of "unrelated histories" and of outcome-sensitive sessions (added after C20-r3-2 / C20-r3-3 were missed).

Three generators, all GENERAL (nothing here knows a seeded change):

* `api_scripts(rng, n_random)`: scripted edit histories on freshly built documents through the public API, in the
  degenerate configurations a careful user can still reach: layers created but never attached, grouped before being
  attached, groups that stay detached, layers moved between documents, cycles, operations that raise half-way
  (`extend` with a non-layer in the middle, `group_layers([])`, `insert` at a wild index). A fixed, seed-independent
  matrix of such shapes comes first, then random scripts over the same vocabulary. Each script is ONE session step
  (`c20_session.run_script`), so it is both a history for the others and a session in its own right.

* `refusal_files(files, scratch)`: files the reader has to refuse or to treat specially, made by writing an
  out-of-range value into every header / layer-record / channel / resource field that has a closed value set
  (signature, version, channels, height, width, depth, colour mode; blend-mode signature and key, channel and
  image-data compression, resource signature), at offsets taken from the Lean specification walker. Together with
  `new_doc` / `set_attr` steps with invalid arguments these are the sessions whose *outcome is a refusal* - the kind
  of observable behaviour a leaked "validation off" switch changes.

* `damaged_payload_files(files, scratch, rng, ...)`: documents that open "successfully with a warning": copies of
  fixtures with ONE byte of the interior of ONE tagged block / image resource payload replaced (xor 0xff, 0x00, 0xff,
  "(" - the last turns markup into an unterminated string) at evenly spaced interior offsets given by the walker.
  The copies are classified in a subprocess (`c20_session.classify`: opened / opened+warning:<message> / EXC:<type>)
  and picked per (block key, outcome class), the tolerated-with-a-warning ones first.
"""
from __future__ import annotations

import json
import struct
from pathlib import Path

import c03_extra
import codec_common as cc
from core import hx


# ---------------------------------------------------------------------------------------------
# API edit scripts
# ---------------------------------------------------------------------------------------------
def fixed_scripts():
    D = ["doc", "RGB", 8, 8]
    L = lambda parent=None, d="d0": ["layer", d, parent]
    S = ["save", "d0"]
    return [
        # grouped before being attached (no parent can be derived), then attached
        ("loose-grouped-then-attached", [D, L(), L(), ["group_layers", ["o0", "o1"], None], ["append", "d0", "o2"], S]),
        # the same with the parent given
        ("loose-grouped-into-doc", [D, L(), L(), ["group_layers", ["o0", "o1"], "d0"], S]),
        # attached layers grouped in place
        ("attached-grouped", [D, L("d0"), L("d0"), L("d0"), ["group_layers", ["o0", "o1"], None], S]),
        # layers created and never attached
        ("never-attached", [D, L(), L(), L("d0"), S]),
        # grouped, group never attached
        ("grouped-never-attached", [D, L(), L(), ["group_layers", ["o0", "o1"], None], L("d0"), S]),
        # detached group filled, then attached; another stays detached
        ("detached-group-filled", [D, ["group", None], L("o0"), L("o0"), ["group", None], L("o3"), ["append", "d0", "o0"], S]),
        # nested detached groups, attached bottom-up
        ("nested-detached", [D, ["group", None], ["group", None], L("o1"), ["append", "o0", "o1"], ["append", "d0", "o0"], S]),
        # operations that raise half-way
        ("extend-with-junk", [D, L(), L(), ["extend", "d0", ["o0", "junk", "o1"]], S, ["extend", "d0", ["o0", "o1"]], S]),
        ("group-nothing", [D, L("d0"), ["group_layers", [], None], ["group_layers", [], "d0"], S]),
        ("group-junk", [D, L("d0"), L(), ["group_layers", ["o0", "junk"], None], ["group_layers", ["o1", "junk"], None], S]),
        ("cycle", [D, ["group", "d0"], ["group", "o0"], ["append", "o1", "o0"], ["move_to_group", "o0", "o1"],
                   ["append", "o0", "o0"], S]),
        ("wild-index", [D, L("d0"), L(), ["insert", "d0", 99, "o1"], ["pop", "d0", 7], ["pop", "d0", 0], ["remove", "d0", "o0"], S]),
        # mixed parents / two documents
        ("mixed-parents-grouped", [D, ["doc", "RGB", 6, 6], L("d0"), L("d1", "d1"), L(), ["group_layers", ["o0", "o1", "o2"], None],
                                   S, ["save", "d1"]]),
        ("cross-document-move", [D, ["doc", "L", 6, 6], L("d0"), L("d0"), ["append", "d1", "o0"], ["group_layers", ["o1"], "d1"],
                                 S, ["save", "d1"]]),
        ("loose-grouped-other-doc", [D, ["doc", "RGB", 5, 5], L(), L(None, "d1"), ["group_layers", ["o0", "o1"], None],
                                     ["append", "d1", "o2"], S, ["save", "d1"]]),
        # detach again, delete, clear
        ("attach-detach", [D, L("d0"), L("d0"), ["remove", "d0", "o0"], ["group_layers", ["o0"], None], ["delete", "o0"],
                           ["delete", "o1"], ["clear", "d0"], S]),
        ("move-in-detached", [D, ["group", None], L("o0"), L("o0"), ["move_up", "o1", 1], ["move_up", "o1", -5], ["delete", "o2"],
                              ["move_to_group", "o1", "d0"], S]),
        ("attribute-edits-on-loose", [D, L(), ["set", "o0", "name", "renamed"], ["set", "o0", "visible", False],
                                      ["set", "o0", "opacity", 300], ["set", "o0", "blend_mode", "no such mode"],
                                      ["set", "o0", "clipping_layer", True], ["append", "d0", "o0"], S, ["composite", "d0"]]),
    ]


def random_script(rng):
    ndocs = rng.choice([1, 1, 2])
    acts = [["doc", rng.choice(["RGB", "RGB", "L", "CMYK"]), rng.randrange(3, 9), rng.randrange(3, 9)] for _ in range(ndocs)]
    nobj = 0
    groups = []
    for _ in range(rng.randrange(4, 11)):
        d = "d%d" % rng.randrange(ndocs)
        cont = lambda: rng.choice([d] + groups) if groups else d
        item = lambda: "o%d" % rng.randrange(nobj) if nobj else "junk"
        k = rng.choice(["layer", "layer", "layer-loose", "group", "group-loose", "group_layers", "group_layers", "append",
                        "insert", "extend", "remove", "pop", "move_to_group", "move_up", "delete", "clear", "set", "save"])
        if k == "layer":
            acts.append(["layer", d, cont()]); nobj += 1
        elif k == "layer-loose":
            acts.append(["layer", d, None]); nobj += 1
        elif k == "group":
            acts.append(["group", cont()]); groups.append("o%d" % nobj); nobj += 1
        elif k == "group-loose":
            acts.append(["group", None]); groups.append("o%d" % nobj); nobj += 1
        elif k == "group_layers":
            items = [item() for _ in range(rng.randrange(0, 4))]
            if rng.random() < 0.15:
                items.append("junk")
            acts.append(["group_layers", items, rng.choice([None, None, cont()])]); groups.append("o%d" % nobj); nobj += 1
        elif k == "append":
            acts.append(["append", cont(), item()])
        elif k == "insert":
            acts.append(["insert", cont(), rng.choice([0, 1, -1, 50]), item()])
        elif k == "extend":
            acts.append(["extend", cont(), [item() for _ in range(rng.randrange(1, 3))] + (["junk"] if rng.random() < 0.3 else [])])
        elif k == "remove":
            acts.append(["remove", cont(), item()])
        elif k == "pop":
            acts.append(["pop", cont(), rng.choice([0, -1, 3])])
        elif k == "move_to_group":
            acts.append(["move_to_group", item(), cont()])
        elif k == "move_up":
            acts.append(["move_up", item(), rng.choice([1, -1, 9])])
        elif k == "delete":
            acts.append(["delete", item()])
        elif k == "clear":
            acts.append(["clear", cont()])
        elif k == "set":
            acts.append(["set", item()] + rng.choice([["name", "n"], ["visible", False], ["opacity", 128], ["opacity", 999],
                                                      ["blend_mode", "multiply"], ["blend_mode", "bogus"]]))
        else:
            acts.append(["save", d])
    return acts


def api_scripts(rng, n_random):
    out = [("api_script", json.dumps(s, separators=(",", ":"))) for _, s in fixed_scripts()]
    for _ in range(n_random):
        out.append(("api_script", json.dumps(random_script(rng), separators=(",", ":"))))
    return out


# ---------------------------------------------------------------------------------------------
# walker regions
# ---------------------------------------------------------------------------------------------
def regions_of(blobs):
    """[(bytes)] -> [None | (hdr tuple, [(offset, length, kind)])] through the Lean specification walker"""
    ans = cc.pbatch([("psd.walk", hx(b)) for b in blobs]) if blobs else []
    out = []
    for a in ans:
        if a[0] != "ok":
            out.append(None)
            continue
        regs = []
        for t in (a[3].split() if len(a) > 3 else []):
            o, l, k = t.split(":", 2)
            regs.append((int(o), int(l), k))
        out.append((tuple(int(x) for x in a[1].split()), regs))
    return out


# ---------------------------------------------------------------------------------------------
# files the reader must refuse (closed value sets)
# ---------------------------------------------------------------------------------------------
def refusal_files(files, scratch: Path):
    """-> [(path, what)]"""
    blobs = [f.read_bytes() for f in files]
    out = []
    for f, b, rg in zip(files, blobs, regions_of(blobs)):
        muts = [("signature", 0, b"8BPZ"), ("version-0", 4, b"\x00\x00"), ("version-3", 4, b"\x00\x03"),
                ("channels-0", 12, b"\x00\x00"), ("channels-57", 12, b"\x00\x39"), ("height-0", 14, b"\x00\x00\x00\x00"),
                ("width-0", 18, b"\x00\x00\x00\x00"), ("depth-3", 22, b"\x00\x03"), ("mode-5", 24, b"\x00\x05"),
                ("mode-12", 24, b"\x00\x0c")]
        if rg is not None:
            hdr, regs = rg
            version = hdr[0]
            recs = [r for r in regs if r[2] == "layer-record"]
            if recs:
                o = recs[0][0]
                nch = struct.unpack(">H", b[o + 16:o + 18])[0]
                p = o + 18 + nch * (6 if version == 1 else 10)
                if b[p:p + 4] == b"8BIM":
                    muts += [("blend-signature", p, b"8BIX"), ("blend-key", p + 4, b"zzzz"), ("clipping-7", p + 9, b"\x07")]
            ch = [r for r in regs if r[2] == "channel-data" and r[1] >= 2]
            if ch:
                muts.append(("channel-compression-9", ch[0][0], b"\x00\x09"))
            im = [r for r in regs if r[2] == "image-data" and r[1] >= 2]
            if im:
                muts.append(("image-compression-7", im[0][0], b"\x00\x07"))
            rs = [r for r in regs if r[2] == "image-resource"]
            if rs:
                muts.append(("resource-signature", rs[0][0], b"8BIX"))
            tb = [r for r in regs if r[2] == "tagged-block"]
            if tb:
                muts.append(("block-signature", tb[0][0], b"8BIX"))
        for what, off, new in muts:
            if off + len(new) > len(b) or b[off:off + len(new)] == new:
                continue
            p = scratch / ("refuse-%s-%s%s" % (f.stem, what, f.suffix))
            p.write_bytes(b[:off] + new + b[off + len(new):])
            out.append((p, what))
    return out


# ---------------------------------------------------------------------------------------------
# damaged payload interiors
# ---------------------------------------------------------------------------------------------
BIG = set(c03_extra.SPEC_8 + c03_extra.OBSERVED_8 + c03_extra.UNCONFIRMED)
FRACTIONS = (0.04, 0.125, 0.25, 0.375, 0.5, 0.625, 0.75, 0.875, 0.96)
BYTE_MUTS = (("xor", lambda x: x ^ 0xFF), ("zero", lambda x: 0), ("ff", lambda x: 0xFF), ("paren", lambda x: 0x28))


def damaged_candidates(files, scratch: Path, rng, cap, fractions=FRACTIONS, all_mutations=True):
    """copies with one interior byte of one tagged block / image resource payload replaced -> [(path, key, how)].
    A seed-independent spread comes first: for every distinct key (in the first file that shows it) every fraction
    once, the kind of replacement rotating; with `all_mutations` every (fraction, replacement) pair; what is left of
    `cap` is filled at random from the other occurrences."""
    blobs = [f.read_bytes() for f in files]
    first, rest = [], []
    seen_keys = set()
    for fi, (f, b, rg) in enumerate(zip(files, blobs, regions_of(blobs))):
        if rg is None:
            continue
        hdr, regs = rg
        version = hdr[0]
        here = set()
        for off, ln, kind in regs:
            if kind == "tagged-block":
                key = b[off + 4:off + 8].decode("latin1")
                lw = 8 if version == 2 and b[off + 4:off + 8] in BIG else 4
                start = off + 8 + lw
            elif kind == "image-resource":
                key = "res%d" % struct.unpack(">H", b[off + 4:off + 6])[0]
                nl = b[off + 6]
                start = off + 6 + ((1 + nl + 1) // 2) * 2 + 4
            else:
                continue
            n = off + ln - start
            if n < 8:
                continue
            fresh = key not in seen_keys and key not in here
            here.add(key)
            for k, fr in enumerate(fractions):
                pos = start + int(fr * (n - 1))
                for m, (mname, mf) in enumerate(BYTE_MUTS):
                    nb = mf(b[pos]) & 0xFF
                    if nb == b[pos]:
                        nb = (nb + 0x55) & 0xFF
                    c = (fi, key, pos, nb, "%s@%.3f" % (mname, fr))
                    if fresh and (all_mutations or m == (k + len(key) + ord(key[-1])) % len(BYTE_MUTS)):
                        first.append(c)
                    else:
                        rest.append(c)
        seen_keys |= here
    rng.shuffle(rest)
    chosen = (first + rest)[:max(cap, 0)] if cap is not None else first
    out = []
    for n, (fi, key, pos, nb, how) in enumerate(chosen):
        f, b = files[fi], blobs[fi]
        p = scratch / ("dmg%04d-%s-%s%s" % (n, f.stem[:24], "".join(c if c.isalnum() else "_" for c in key), f.suffix))
        p.write_bytes(b[:pos] + bytes([nb]) + b[pos + 1:])
        out.append((p, key, how))
    return out


def covering_files(files, want=None):
    """greedy choice of files (smallest first on ties) that together show every tagged-block key / resource id of
    `files` (at most `want` files when given)"""
    blobs = [f.read_bytes() for f in files]
    keys = []
    for b, rg in zip(blobs, regions_of(blobs)):
        ks = set()
        if rg is not None:
            for off, ln, kind in rg[1]:
                if kind == "tagged-block":
                    ks.add(b[off + 4:off + 8])
                elif kind == "image-resource":
                    ks.add(b[off + 4:off + 6])
        keys.append(ks)
    chosen, covered = [], set()
    while want is None or len(chosen) < want:
        gain = [(len(keys[i] - covered), -i) for i in range(len(files))]
        if not gain:
            break
        g, mi = max(gain)
        if g == 0:
            break
        chosen.append(-mi)
        covered |= keys[-mi]
    return [files[i] for i in chosen]


# ---------------------------------------------------------------------------------------------
# added after C20-r4-1/2/3 were missed
# ---------------------------------------------------------------------------------------------
def renderer_keys(repo_src: Path):
    """descriptor keys the compositor consumes, derived from its source (`Key.X` mentions in composite/*.py and
    api/effects.py): the items whose absence / out-of-range value the renderer has to tolerate or refuse"""
    import re
    from psd_tools.terminology import Key
    names = set()
    for f in list((repo_src / "composite").glob("*.py")) + [repo_src / "api" / "effects.py"]:
        try:
            names |= set(re.findall(r"\bKey\.(\w+)", f.read_text()))
        except OSError:
            pass
    return {getattr(Key, n).value: n for n in sorted(names) if hasattr(Key, n)}


def descriptor_variants(files, scratch: Path, rng, cap, repo_src: Path):
    """Copies of fixtures with effect / fill / stroke descriptors in which ONE item that the renderer reads is deleted or
    given an out-of-range value (damaged or incomplete in ways a tolerant renderer accepts): (path, description).
    One variant per (descriptor class, item key, mutation); files visited smallest first."""
    import io
    from psd_tools.psd import PSD
    from psd_tools.psd.base import BaseElement
    from psd_tools.psd import descriptor as D
    keys = renderer_keys(repo_src)
    out, seen = [], set()
    plans = []
    for f in files:
        try:
            with open(f, "rb") as fp:
                psd = PSD.read(fp)
            li = psd.layer_and_mask_information.layer_info
            recs = (li.layer_records if li is not None else None) or []
        except Exception:  # noqa
            continue
        for ri, rec in enumerate(recs):
            for bkey, blk in rec.tagged_blocks.items():
                descs = list(BaseElement._traverse(blk.data, lambda e: isinstance(e, D.Descriptor)))
                for di, d in enumerate(descs):
                    for k in list(d.keys()):
                        kb = bytes(k)
                        if kb not in keys:
                            continue
                        v = d[k]
                        muts = ["delete"]
                        if isinstance(v, (D.Integer, D.LargeInteger)):
                            muts += ["negative", "huge"]
                        elif isinstance(v, (D.Double, D.UnitFloat)):
                            muts += ["negative", "huge"]
                        elif isinstance(v, D.Bool):
                            muts += ["flip"]
                        elif isinstance(v, D.List):
                            muts += ["empty"]
                        for m in muts:
                            cls_id = bytes(d.classID)
                            if (cls_id, kb, m) in seen:
                                continue
                            seen.add((cls_id, kb, m))
                            plans.append((f, ri, bkey, di, kb, m, cls_id))
    # the optional items first (deleted), then perturbed values; an even spread over the keys
    plans.sort(key=lambda p: (p[5] != "delete", p[5] != "negative"))
    if cap is not None and len(plans) > cap:
        head = [p for p in plans if p[5] in ("delete", "negative")]
        rest = [p for p in plans if p[5] not in ("delete", "negative")]
        rng.shuffle(rest)
        plans = (head + rest)[:cap] if len(head) <= cap else rng.sample(head, cap)
    for n, (f, ri, bkey, di, kb, m, cls_id) in enumerate(plans):
        try:
            with open(f, "rb") as fp:
                psd = PSD.read(fp)
            blk = psd.layer_and_mask_information.layer_info.layer_records[ri].tagged_blocks[bkey]
            d = list(BaseElement._traverse(blk.data, lambda e: isinstance(e, D.Descriptor)))[di]
            k = next(x for x in d.keys() if bytes(x) == kb)
            v = d[k]
            if m == "delete":
                del d[k]
            elif m == "negative":
                v.value = -77 if isinstance(v, (D.Integer, D.LargeInteger)) else -1.0e9
            elif m == "huge":
                v.value = 2 ** 31 - 1 if isinstance(v, (D.Integer, D.LargeInteger)) else 1.0e9
            elif m == "flip":
                v.value = not v.value
            elif m == "empty":
                del v[:]
            p = scratch / ("dv%03d-%s-%s-%s-%s%s" % (n, Path(f).stem[:24], keys[kb], m,
                                                     getattr(bkey, "name", str(bkey))[:12], Path(f).suffix))
            with open(p, "wb") as fp:
                psd.write(fp)
            out.append((p, "%s: %s.%s %s (block %s of record %d)" % (Path(f).name, cls_id.decode("latin1"), keys[kb], m,
                                                                     getattr(bkey, "name", bkey), ri)))
        except Exception:  # noqa
            continue
    return out


# -- public entry points with options, by reflection
_VALUE_POOL = [1, 2, 0, True, "shift_jis", "utf_8", [0, 0, 2, 2], 0.5, "color", "shape", "mask", -1]


def option_calls():
    """(target, method, {option: non-default value}) for every public entry point of PSDImage / Layer / composite that
    has options: parameters with defaults from the signature, `:param name:` entries of the docstring for entry points
    that pass `**kwargs` on, plus the keyword options of the low-level readers / writers they reach."""
    import codecs
    import inspect
    import re
    from psd_tools import PSDImage
    from psd_tools.api.layers import Layer
    from psd_tools.psd import PSD
    calls = []
    low = {}
    for fn in (PSD.read, PSD.write):
        for n, p in inspect.signature(fn).parameters.items():
            if p.default is not inspect.Parameter.empty:
                low[n] = p.default
    from psd_tools.psd.layer_and_mask import LayerAndMaskInformation, LayerInfo
    for kls in (LayerAndMaskInformation, LayerInfo):
        for fn in (getattr(kls, "read", None), getattr(kls, "write", None)):
            if fn is None:
                continue
            for n, p in inspect.signature(fn).parameters.items():
                if p.default is not inspect.Parameter.empty and n not in ("version",):
                    low.setdefault(n, p.default)

    def values(name, default):
        if isinstance(default, bool):
            return [not default]
        if isinstance(default, int):
            return sorted({1, 2, default * 2} - {default})
        if isinstance(default, float):
            return [0.5 if default != 0.5 else 0.25]
        if isinstance(default, str):
            try:
                codecs.lookup(default)
                return ["shift_jis", "utf_8"]
            except LookupError:
                return ["x"]
        return list(_VALUE_POOL)

    for target, owner in (("doc", PSDImage), ("layer", Layer)):
        for name, fn in sorted(vars(owner).items()):
            if name.startswith("_"):
                continue
            f = fn.__func__ if isinstance(fn, (classmethod, staticmethod)) else fn
            if not inspect.isfunction(f):
                continue
            sig = inspect.signature(f)
            opts = {}
            var_kw = False
            for n, p in sig.parameters.items():
                if p.kind is inspect.Parameter.VAR_KEYWORD:
                    var_kw = True
                elif p.default is not inspect.Parameter.empty:
                    opts[n] = p.default
            if var_kw:
                for n in re.findall(r":param (\w+):", f.__doc__ or ""):
                    if n not in sig.parameters:
                        opts.setdefault(n, low.get(n))
                if name in ("open", "save"):
                    for n, d in low.items():
                        opts.setdefault(n, d)
            if not opts or name not in ENTRY_POINTS:
                continue
            for n, d in sorted(opts.items()):
                for v in values(n, d):
                    calls.append((target, name, {n: v}))
    return calls


# what the sessions know how to call (everything else with options is listed in the evidence as not exercised)
ENTRY_POINTS = ("open", "save", "composite", "topil", "numpy", "new", "frompil")


def option_steps(files, rng, cap):
    calls = option_calls()
    steps = []
    for i, (target, name, kw) in enumerate(calls):
        f = files[i % len(files)]
        steps.append(("kwcall", json.dumps([str(f), target, name, kw], separators=(",", ":"))))
    if cap is not None and len(steps) > cap:
        # keep every (entry point, option) at least once
        first, rest, seen = [], [], set()
        for st in steps:
            a = json.loads(st[1])
            k = (a[1], a[2], tuple(a[3]))
            (first if k not in seen else rest).append(st)
            seen.add(k)
        rng.shuffle(rest)
        steps = (first + rest)[:max(cap, len(first))]
    return steps


def cross_document_scripts(sources, rng, n_random):
    """Sessions with THREE documents and two or more cross-document moves into one target. `sources`: fixture paths whose
    layers carry what the library copies between documents on adoption (pattern effects, linked smart objects, ...).
    Every script is ["xdoc", [paths...], [[src doc, layer index, dst doc] ...]]; document 0 is a freshly built target
    when the path is "new"."""
    out = []
    srcs = [str(s) for s in sources]
    if len(srcs) < 2:
        return out
    pairs = [(a, b) for a in srcs for b in srcs if a != b]
    fixed = pairs[: min(len(pairs), 6)]
    for a, b in fixed:
        out.append(("xdoc_script", json.dumps(["new", a, b, [[1, "fx", 0], [2, "fx", 0]]], separators=(",", ":"))))
    for _ in range(n_random):
        a, b = rng.choice(pairs)
        tgt = rng.choice(["new", "new", rng.choice(srcs)])
        moves = [[rng.choice([1, 2]), rng.choice(["fx", "fx", rng.randrange(0, 4)]), 0] for _ in range(rng.randrange(2, 5))]
        if rng.random() < 0.3:
            moves.append([0, 0, rng.choice([1, 2])])
        out.append(("xdoc_script", json.dumps([tgt, a, b, moves], separators=(",", ":"))))
    return out
