"""C02 extractor: rules of the WRITER that the model shares with the reader or leaves out, observed on the live classes
-> lean/PsdVerif/Generated/WriterTies.lean.

(1) the width of the length field of a tagged block, as the real READER and the real WRITER use it, for every accepted
signature x every key x both versions;
(2) `LayerRecord._legacy_name` (what `_write_extra` puts in the Pascal name field) for every encoded length 0..300 with
and without a `luni` block: the model writes `r.name` itself (`LayerRecord.encT`), which is right only if the fallback
never fires on a name the reader can return (<= 255 bytes): `Props/C02.lean legacy_name_tied` + `legacy_name_identity_on_read`.

The model has ONE function `Psd.tbLenW version key` for both directions and ignores the signature (that is what
`TaggedBlock._length_format(key, version)` does, called by `read` and by `write`).  Nothing in the model could notice
a reader and a writer that choose the width differently (say, by the signature on one side only), so the choice is
observed here on the live class, per direction:

  * writer: `TaggedBlock(signature, key, 4 payload bytes).write(fp, version, padding=1)`; width = bytes emitted - 12;
  * reader: the same block laid out once with a 4-byte and once with an 8-byte length field is given to
    `TaggedBlock.read`; the width is the one for which the payload and the end position come back.

`Props/C02.lean tb_width_tied` states that every row equals `tbLenW` in both directions.  Payload classes are not
involved (the registries are emptied while probing).  A probe that raises is written as width 0: the tie fails (a
changed source is a broken tie, never an infrastructure error).
"""
from __future__ import annotations

import io

PAYLOAD = b"\x01\x02\x03\x04"


def rows():
    import skel
    from psd_tools.constants import Tag
    from psd_tools.psd.tagged_blocks import TaggedBlock
    import logging
    import warnings
    out = []
    keys = sorted(m.value for m in Tag) + [b"zzZ9"]
    sigs = sorted(getattr(TaggedBlock, "_SIGNATURES", (b"8BIM", b"8B64")))
    prev = logging.root.manager.disable
    logging.disable(logging.CRITICAL)
    try:
        with warnings.catch_warnings(), skel.raw_payloads():
            warnings.simplefilter("ignore")
            _probe(out, keys, sigs, Tag, TaggedBlock)
    finally:
        logging.disable(prev)
    return out


def _probe(out, keys, sigs, Tag, TaggedBlock):
    if True:
        for version in (1, 2):
            for sig in sigs:
                for key in keys:
                    try:
                        k = Tag(key)
                    except ValueError:
                        k = key
                    try:
                        f = io.BytesIO()
                        TaggedBlock(signature=sig, key=k, data=PAYLOAD).write(f, version=version, padding=1)
                        w = len(f.getvalue()) - 8 - len(PAYLOAD)
                        if f.getvalue()[:8] != sig + key or not f.getvalue().endswith(PAYLOAD):
                            w = 0
                    except Exception:  # noqa
                        w = 0
                    r = 0
                    for width in (4, 8):
                        try:
                            f = io.BytesIO(sig + key + len(PAYLOAD).to_bytes(width, "big") + PAYLOAD)
                            t = TaggedBlock.read(f, version=version, padding=1)
                            if t is not None and t.data == PAYLOAD and f.tell() == 8 + width + len(PAYLOAD) \
                                    and t.signature == sig:
                                r = width if r == 0 else 0
                        except Exception:  # noqa
                            pass
                    out.append((version, sig, key, r, w))


def _bytes(b: bytes) -> str:
    return "[" + ", ".join(str(x) for x in b) + "]"


LEGACY_MAX = 300


def legacy_rows():
    """(has luni, encoded length L, outcome) for L = 0..LEGACY_MAX: outcome 0 = `_legacy_name` returns the name itself,
    1 = the fallback `?`, 2 = anything else (another string, an exception, the method is gone)"""
    from psd_tools.constants import Tag
    from psd_tools.psd.layer_and_mask import LayerRecord
    from psd_tools.psd.tagged_blocks import TaggedBlock, TaggedBlocks
    out = []
    for luni in (False, True):
        for n in range(LEGACY_MAX + 1):
            name = "".join(chr(0x61 + i % 26) for i in range(n))
            try:
                r = LayerRecord(name=name)
                r.tagged_blocks = TaggedBlocks()
                if luni:
                    r.tagged_blocks[Tag.UNICODE_LAYER_NAME] = TaggedBlock(key=Tag.UNICODE_LAYER_NAME, data=name)
                got = r._legacy_name("macroman")
                code = 0 if got == name else 1 if got == "?" else 2
            except Exception:  # noqa
                code = 2
            out.append((luni, n, code))
    return out


def gen_tb_widths(ctx):
    try:
        rs = rows()
    except Exception as e:  # noqa  (class moved / renamed: sentinel row, the tie fails)
        ctx.notes.append("extract_c02: TaggedBlock could not be probed (%s: %s); sentinel row written" % (type(e).__name__, str(e)[:80]))
        rs = [(0, b"", b"", 0, 0)]
    try:
        lrows = legacy_rows()
    except Exception as e:  # noqa
        ctx.notes.append("extract_c02: LayerRecord._legacy_name could not be probed (%s: %s); sentinel row written" % (type(e).__name__, str(e)[:80]))
        lrows = [(True, 0, 2)]
    body = ",\n  ".join("(%d, %s, %s, %d, %d)" % (v, _bytes(s), _bytes(k), r, w) for v, s, k, r, w in rs)
    src = (
        "namespace PsdVerif.Generated.WriterTies\n"
        "/-- (version, signature, key, width of the length field `TaggedBlock.read` consumes, width `TaggedBlock.write` emits),\n"
        "observed on the live class for every accepted signature, every `Tag` value and one unknown key; 0 = the probe failed -/\n"
        "def tbWidths : List (Nat × List UInt8 × List UInt8 × Nat × Nat) := [\n  " + body + "]\n"
        "/-- (a `luni` block is present, encoded length of the name, what `LayerRecord._legacy_name` returns: 0 the name,\n"
        "1 the fallback `?`, 2 anything else), observed on the live class -/\n"
        "def legacyName : List (Bool × Nat × Nat) := [\n  "
        + ",\n  ".join("(%s, %d, %d)" % ("true" if a else "false", n, c) for a, n, c in lrows) + "]\n"
        "end PsdVerif.Generated.WriterTies\n")
    ctx.write_generated("WriterTies", src)
    diff = [(v, s.decode("latin1"), k.decode("latin1"), r, w) for v, s, k, r, w in rs if r != w]
    return {"rows": len(rs), "reader_writer_differ": diff[:10], "n_differ": len(diff), "legacy_rows": len(lrows),
            "legacy_fallback_from": {("luni" if a else "no luni"): min([n for b, n, c in lrows if b == a and c != 0], default=None)
                                     for a in (False, True)}}
