"""C17, the clause "the merged image equals the composite of the saved layers", on generated documents.

A case = (recipe of comp_common / pixdoc: groups, masks, clip runs, opacity / fill, knockout, layers beyond the canvas;
mode L / RGB / CMYK; depth 8 / 16 / 32; with or without a transparency plane (an extra channel + the merged-transparency
block, so that the document stays transparent however many layers it has); merged-image codec; optionally stored without a
composite) + ONE structural edit through the public API + save + reopen.  Three things are done with it:

* correspondence (model vs code, exact): the per-pixel layer tree of the REOPENED file (comp_common.XDoc: the getters the
  compositor itself uses) is sent to the Lean driver (`mergedpx.pixel`: Model/MergedPixels.lean `compositePsd` through C11's
  tabulating evaluator, `flatten`, `planeEnc`), the source of every plane comes from `merged.routes`
  (Model/Merged.lean `mergedRoutes`), and every stored sample of the reopened file is compared with the model's bytes.
  8 / 16 bit: EQUAL, except that the code computes in float32 what the model computes exactly: a sample whose exact value
  lies within DELTA (in value units) of a rounding boundary may come out one code off (counted, never more than one code);
  32 bit: the stored float within DELTA32 of the exact value (relative to the alpha for unflattened colour).
* correspondence of the sample arithmetic alone (model vs code, from the float32 arrays `composite` returned during
  save(), captured): `mergedpx.sample` on the exact rational value of every captured float32 -> the bytes must be the stored
  ones up to the float32 rounding of `color * alpha + (1.0 - alpha)` and of `* scale` (DELTA_ARITH).
* search (independent of the library's compositor and of the Lean model): the float64 implementation of the published
  model over the RECIPE as edited in recipe space (comp_common.spec_composite), flattened on white with its alpha, against
  the stored samples read from the saved bytes; tolerance = the compositing tolerance of C11 plus half a quantisation step.
"""
from __future__ import annotations

import copy
import io
from fractions import Fraction

import numpy as np

import core  # noqa: F401
import comp_common as cc
import pixdoc

STABLE_BLENDS = ["NORMAL", "MULTIPLY", "SCREEN", "DARKEN", "LIGHTEN", "LINEAR_DODGE", "LINEAR_BURN", "DIFFERENCE",
                 "EXCLUSION", "SUBTRACT", "OVERLAY", "HARD_LIGHT"]
EDITS = ["touch", "rotate", "del-bottom", "del-top", "hide-all", "top-opacity", "group-top", "clear", "hide-top"]
SCALE = {8: 255, 16: 65535}
DELTA = 1e-6          # float32 noise of the whole compositing pipeline, absolute, in value units (observed: < 1e-7)
DELTA_ARITH = 6e-7    # float32 noise of flatten + scale alone
DELTA32 = 2e-6
OLD_FILL = {8: 60, 16: 60 * 257, 32: 0x3E800000}      # the merged image the document starts with (ImageData.new)
NCH = {"L": 1, "RGB": 3, "CMYK": 4}


# ------------------------------------------------------------------------------------------
# cases
# ------------------------------------------------------------------------------------------
def _pix(rect, color, alpha=None, **kw):
    l, t, r, b = rect
    n = {"t": "pixel", "rect": list(rect), "color": np.empty((b - t, r - l, len(color)), np.uint8),
         "alpha": None if alpha is None else np.full((b - t, r - l), alpha, np.uint8),
         "opacity": 255, "fill": None, "blend": "NORMAL", "visible": True, "clip": False, "knockout": False, "mask": None}
    n["color"][...] = np.asarray(color, np.uint8)
    n.update(kw)
    return n


def forced_cases():
    """the shapes that must be there whatever the seed draws"""
    out = []
    for mode in ("L", "RGB", "CMYK"):
        C = NCH[mode]
        col = [40, 200, 90, 10][:C]
        col2 = [220, 30, 160, 120][:C]
        W, H = 3, 2
        full = (0, 0, W, H)
        shapes = {
            # coverage 1, alpha < 1, over empty canvas: through the opacity, the fill opacity, the mask density
            "translucent-opacity": ([_pix(full, col, opacity=128)], "touch"),
            "translucent-fill": ([_pix(full, col, 255, fill=100)], "touch"),
            "translucent-mask-density": ([_pix(full, col, mask={"rect": list(full), "bg": 0, "data": np.full((H, W), 255, np.uint8),
                                                                "disabled": False, "density": 128})], "touch"),
            "translucent-over-half-canvas": ([_pix((0, 0, 2, H), col2, 255), _pix(full, col, opacity=77)], "rotate"),
            # no visible top-level layer after the edit
            "all-hidden": ([_pix(full, col, 255), _pix((1, 0, W, H), col2, 200)], "hide-all"),
            "only-hidden-left": ([_pix(full, col, 255, visible=False), _pix(full, col2, 255)], "del-top"),
            "visible-inside-hidden-group": ([{"t": "group", "blend": "PASS_THROUGH", "opacity": 255, "fill": None, "visible": False,
                                               "clip": False, "knockout": False, "children": [_pix(full, col, 255)]}], "touch"),
            # layers beyond the canvas
            "beyond-canvas": ([_pix((-2, -1, W + 2, H + 1), col, 255, opacity=200), _pix((1, 1, W + 3, H + 2), col2, 128)], "touch"),
            "wholly-outside": ([_pix((W + 1, 0, W + 3, H), col, 255)], "touch"),
            "emptied": ([_pix(full, col, 255)], "clear"),
        }
        for depth in (8, 16, 32):
            for plane in (False, True):
                for name, (recipe, edit) in shapes.items():
                    if depth != 8 and name not in ("translucent-opacity", "all-hidden", "beyond-canvas", "translucent-over-half-canvas"):
                        continue
                    out.append({"kind": "pixdoc", "shape": name, "mode": mode, "depth": depth, "size": [W, H], "plane": plane,
                                "compression": ["RAW", "RLE", "ZIP", "ZIP_WITH_PREDICTION"][(depth // 8 + len(name)) % 4],
                                "store": "plain", "edit": edit, "recipe": cc.name_nodes(copy.deepcopy(recipe))})
    # the witness of Props/C17Pixels.lean `flatten_uses_alpha_not_shape`: a black layer of opacity 128 over empty canvas is stored as 127
    out.append({"kind": "pixdoc", "shape": "witness-black-128", "mode": "L", "depth": 8, "size": [1, 1], "plane": False,
                "compression": "RAW", "store": "plain", "edit": "touch",
                "recipe": cc.name_nodes([_pix((0, 0, 1, 1), [0], None, opacity=128)])})
    return out


def rounding_law_requests(rng):
    """(requests, expected answers from NumPy): np.round is half-to-even on exact ties (scale 256: (2k+1)/512 * 256 = k + 1/2
    exactly, in float32 too), the real scales on float32 values, np.clip outside [0, 1]; np.float32 of doubles = `f32Bits`"""
    reqs, exp = [], []
    for k in range(0, 256):
        v = np.float32((2 * k + 1) / 512.0)
        reqs.append(("mergedpx.code", 256, f"{2 * k + 1}/512"))
        exp.append(str(int(np.round(np.clip(v, 0.0, 1.0) * 256))))
    for scale in (255, 65535):
        for k in list(range(0, scale + 1, max(1, scale // 97))) + [scale]:
            v = np.float32(k / scale)
            reqs.append(("mergedpx.code", scale, f32_rat(v)))
            exp.append(str(int(np.round(np.clip(v, 0.0, 1.0) * scale))))
        for v in (-0.25, 1.5, -1e-9, 1.0000001):
            reqs.append(("mergedpx.code", scale, f32_rat(v)))
            exp.append(str(int(np.round(np.clip(np.float32(v), 0.0, 1.0) * scale))))
    vals = [rng.random() for _ in range(200)] + [rng.random() * 2.0 ** -rng.randrange(1, 150) for _ in range(100)] + \
           [0.0, 1.0, 0.5, 1 / 3, 2.0 ** -126, 2.0 ** -127, 2.0 ** -149, 2.0 ** -150, 1.5 * 2.0 ** -149, 3.0, 1e30, 255.0, -0.75]
    for x in vals:
        f = Fraction(x)
        reqs.append(("mergedpx.f32", f"{f.numerator}/{f.denominator}"))
        with np.errstate(all="ignore"):
            exp.append(str(int(np.array([x], dtype=np.float64).astype(np.float32).view(np.uint32)[0])))
    return reqs, exp


def random_case(rng, nprng):
    mode = rng.choice(["RGB", "RGB", "L", "CMYK"])
    depth = rng.choice([8, 8, 16, 16, 32])
    size = (rng.randrange(1, 7), rng.randrange(1, 7))
    budget = [rng.randrange(1, 7)]
    recipe = cc.gen_list(rng, nprng, size, NCH[mode], STABLE_BLENDS, budget, 0)
    cc.name_nodes(recipe)
    plane = rng.random() < 0.4
    return {"kind": "pixdoc", "shape": "random", "mode": mode, "depth": depth, "size": list(size), "plane": plane,
            # an extra channel that is NOT a transparency (no merged-transparency block, layers present): kept as it is
            "kept": (not plane) and rng.random() < 0.2,
            "compression": rng.choice(["RAW", "RLE", "ZIP", "ZIP_WITH_PREDICTION"]),
            "store": "no-composite" if rng.random() < 0.15 else "plain",
            "edit": rng.choice(EDITS[:-2] + ["touch", "rotate", "hide-top"]), "recipe": recipe}


def case_json(case):
    return dict({k: v for k, v in case.items() if k != "recipe"}, recipe=cc.recipe_to_json(case["recipe"]))


def case_from_json(j):
    return dict(j, recipe=cc.recipe_from_json(j["recipe"]))


# ------------------------------------------------------------------------------------------
# the document, the edit (API) and the edit (recipe space)
# ------------------------------------------------------------------------------------------
def build(case):
    """the document of the case, written with the library's low-level classes and opened from the bytes"""
    from psd_tools.api.psd_image import PSDImage
    from psd_tools.constants import Compression, Resource, Tag
    from psd_tools.psd import PSD
    from psd_tools.psd.base import EmptyElement
    from psd_tools.psd.image_data import ImageData
    from psd_tools.psd.image_resources import ImageResources
    from psd_tools.psd.layer_and_mask import ChannelImageData, GlobalLayerMaskInfo, LayerAndMaskInformation, LayerInfo, LayerRecords
    from psd_tools.psd.tagged_blocks import TaggedBlock, TaggedBlocks
    depth = case["depth"]
    recs, chans = [], []
    pixdoc._records(copy.deepcopy(case["recipe"]), depth, Compression.RAW, recs, chans, [0])
    header = PSDImage._make_header(case["mode"] + ("A" if case["plane"] or case.get("kept") else ""), tuple(case["size"]), depth)
    info = LayerInfo(layer_count=len(recs), layer_records=LayerRecords(recs), channel_image_data=ChannelImageData(chans))
    blocks = TaggedBlocks()
    if case["plane"]:
        key = {8: Tag.SAVING_MERGED_TRANSPARENCY, 16: Tag.SAVING_MERGED_TRANSPARENCY16, 32: Tag.SAVING_MERGED_TRANSPARENCY32}[depth]
        blocks[key] = TaggedBlock(key=key, data=EmptyElement())
    res = ImageResources.new()
    if case.get("store") == "no-composite":
        vi = res.get_data(Resource.VERSION_INFO)
        if vi is not None:
            vi.has_composite = False
    psd = PSD(header=header, image_data=ImageData.new(header, color=OLD_FILL[depth], compression=Compression[case["compression"]]),
              image_resources=res,
              # (tagged blocks are read only behind a global layer mask info: write its - empty - length field)
              layer_and_mask_information=LayerAndMaskInformation(layer_info=info, global_layer_mask_info=GlobalLayerMaskInfo() if blocks else None,
                                                                 tagged_blocks=blocks if blocks else None))
    buf = io.BytesIO()
    psd.write(buf)
    return PSDImage.open(io.BytesIO(buf.getvalue()))


def apply_edit(psd, edit):
    """one structural edit through the public API (plus, for some, an attribute edit afterwards)"""
    from psd_tools.api.layers import Group
    if edit == "touch":
        psd.append(psd.pop())
    elif edit == "rotate":
        psd.insert(0, psd.pop())
    elif edit == "del-bottom":
        del psd[0]
    elif edit == "del-top":
        psd.pop()
    elif edit == "hide-all":
        psd.append(psd.pop())
        for l in psd:
            l.visible = False
    elif edit == "hide-top":
        psd.append(psd.pop())
        psd[-1].visible = False
    elif edit == "top-opacity":
        psd.append(psd.pop())
        psd[-1].opacity = 100
    elif edit == "group-top":
        Group.group_layers([psd[-1]], "wrap", parent=psd)
    elif edit == "clear":
        psd.clear()
    else:
        raise ValueError(edit)


def edit_recipe(recipe, edit):
    """the same edit on the recipe: what the saved file's layers are, independently of the library"""
    r = copy.deepcopy(recipe)
    if edit == "touch":
        return r
    if edit == "rotate":
        return [r[-1]] + r[:-1]
    if edit == "del-bottom":
        return r[1:]
    if edit == "del-top":
        return r[:-1]
    if edit == "hide-all":
        for n in r:
            n["visible"] = False
        return r
    if edit == "hide-top":
        r[-1]["visible"] = False
        return r
    if edit == "top-opacity":
        r[-1]["opacity"] = 100
        return r
    if edit == "group-top":
        return r[:-1] + [{"t": "group", "blend": "PASS_THROUGH", "opacity": 255, "fill": None, "visible": True, "clip": False,
                          "knockout": False, "name": "wrap", "children": [r[-1]]}]
    if edit == "clear":
        return []
    raise ValueError(edit)


class Capture:
    """records what the numeric composite returns while save() runs (with the arguments it was called with)"""

    def __init__(self):
        import psd_tools.composite as C
        self.mod, self.orig, self.calls = C, C.composite, []

    def __enter__(self):
        def wrapped(*a, **k):
            r = self.orig(*a, **k)
            if len(a) >= 1 and type(a[0]).__name__ == "PSDImage":
                self.calls.append((dict(k, nargs=len(a)), tuple(np.array(x, dtype=np.float32, copy=True) for x in r)))
            return r
        self.mod.composite = wrapped
        return self

    def __exit__(self, *exc):
        self.mod.composite = self.orig


# ------------------------------------------------------------------------------------------
# reading the stored planes WITHOUT the library's api layer
# ------------------------------------------------------------------------------------------
def sample_int(plane: bytes, depth: int, i: int) -> int:
    n = depth // 8
    return int.from_bytes(plane[i * n:(i + 1) * n], "big")


def sample_float(plane: bytes, depth: int, i: int) -> float:
    if depth == 32:
        return float(np.frombuffer(plane[4 * i:4 * i + 4], ">f4")[0])
    return sample_int(plane, depth, i) / SCALE[depth]


def frac(s: str) -> Fraction:
    n, _, d = s.partition("/")
    return Fraction(int(n), int(d) if d else 1)


def f32_rat(v) -> str:
    f = Fraction(float(np.float32(v)))
    return f"{f.numerator}/{f.denominator}"


# ------------------------------------------------------------------------------------------
# one case on the real code
# ------------------------------------------------------------------------------------------
def eval_case(case):
    """-> dict: error | (stored planes, header, meta, model requests, captured composite, oracle verdict)"""
    import pixels_common as pc
    from props.C17 import meta_of, image_data_section
    out = {"error": None}
    try:
        psd = build(case)
    except Exception as e:  # noqa
        out["error"] = ("build", type(e).__name__, str(e)[:160])
        return out
    hdr = psd._record.header
    try:
        out["old"] = [bytes(p) for p in psd._record.image_data.get_data(hdr)]
    except Exception:  # noqa
        out["old"] = None
    try:
        apply_edit(psd, case["edit"])
    except Exception as e:  # noqa
        out["error"] = ("edit", type(e).__name__, str(e)[:160])
        return out
    try:
        with Capture() as cap:
            p2, raw = pc.save_reopen(psd)
    except Exception as e:  # noqa
        out["error"] = ("save", type(e).__name__, str(e)[:160])
        return out
    out["dirty"] = bool(getattr(psd, "_updated_layers", False))
    h2 = p2._record.header
    W, H, depth, nch = h2.width, h2.height, h2.depth, h2.channels
    out.update(W=W, H=H, depth=depth, nch=nch, cmode=p2.color_mode.name, has_preview=bool(p2.has_preview()))
    fh, comp, data = image_data_section(raw)
    ok, detail = pc.section_geometry(comp, data, W, H, nch, depth, fh["version"])
    out["geometry"] = (ok, detail)
    try:
        out["stored"] = [bytes(p) for p in p2._record.image_data.get_data(h2)]
    except Exception as e:  # noqa
        out["error"] = ("get_data", type(e).__name__, str(e)[:160])
        return out
    mt, ids, lc = meta_of(p2)
    out["meta"] = (mt, ids, lc)
    out["calls"] = [(k, tuple(a for a in r)) for k, r in cap.calls]
    out["nlayers"] = len(list(p2))
    # the saved layers as the compositor reads them
    try:
        xd = cc.XDoc(p2)
        V = (0, 0, W, H)
        pixels = [(x, y) for y in range(H) for x in range(W)]
        out["pixels"] = pixels
        out["reqs"] = [("mergedpx.pixel", depth, W, H, xd.request(V, x, y)) for x, y in pixels] if out["nlayers"] else []
        out["tree"] = [(n.name, n.kind) for n in xd.layers]
    except Exception as e:  # noqa
        out["error"] = ("extraction", type(e).__name__, str(e)[:160])
        return out
    # independent reference: the published model over the recipe as edited in recipe space
    recipe2 = edit_recipe(case["recipe"], case["edit"])
    out["saved_names"] = [n["name"] for n in recipe2]
    if recipe2:
        sc, ss, sa, uns = cc.spec_composite(recipe2, (0, 0, W, H), case["mode"])
        out["ref"] = (sc, ss, sa, uns)
    else:
        out["ref"] = None
    return out


def reference_verdict(case, res):
    """compare the stored planes with the independent reference -> None | dict(what, pixel, plane, stored, expected)"""
    if res.get("ref") is None:
        return None
    sc, ss, sa, uns = res["ref"]
    W, H, depth, nch = res["W"], res["H"], res["depth"], res["nch"]
    n = NCH[case["mode"]]
    stored = res["stored"]
    if len(stored) != nch or any(len(p) != W * H * depth // 8 for p in stored):
        return {"what": "geometry", "planes": [len(p) for p in stored]}
    step = 0.5 / SCALE[depth] if depth in SCALE else 1e-6
    tol = cc.TOL_COLOR + step
    transparent = case["plane"]
    if case.get("kept") and res.get("old") is not None and stored[n] != res["old"][n]:
        return {"what": "kept-plane", "plane": n, "stored": stored[n][:8].hex(), "expected": res["old"][n][:8].hex()}
    flat = sc * sa[..., None] + (1.0 - sa[..., None])
    worst = None
    for y in range(H):
        for x in range(W):
            if uns[y, x]:
                continue
            i = y * W + x
            if transparent:
                a = sample_float(stored[n], depth, i)
                if not abs(a - sa[y, x]) <= cc.TOL_ALPHA + step:
                    return {"what": "alpha", "pixel": [x, y], "plane": n, "stored": a, "expected": float(sa[y, x])}
            for k in range(n):
                v = sample_float(stored[k], depth, i)
                if not transparent or case["mode"] == "RGB":
                    exp, got = float(flat[y, x, k]), v
                else:
                    if sa[y, x] <= cc.ALPHA_MIN:
                        continue
                    exp, got = float(sc[y, x, k] * sa[y, x]), v * float(sa[y, x])     # colour under its alpha
                d = abs(got - exp)
                if not d <= tol and (worst is None or d > worst["diff"]):
                    worst = {"what": "colour", "pixel": [x, y], "plane": k, "stored": got, "expected": exp, "diff": d,
                             "alpha_at_pixel": float(sa[y, x]), "shape_at_pixel": float(ss[y, x])}
    return worst


def compare_with_model(case, res, routes, answers):
    """stored samples vs the model's bytes.  -> (list of disagreements, counters)"""
    W, H, depth, nch = res["W"], res["H"], res["depth"], res["nch"]
    stored, old = res["stored"], res["old"]
    bad, cnt = [], {"samples": 0, "equal": 0, "one-off-near-boundary": 0, "kept-planes": 0, "float32-samples": 0}
    rs = routes.split(";")
    if len(rs) != nch or len(stored) != nch:
        return [{"what": "plane count", "routes": routes, "stored": len(stored)}], cnt
    size = depth // 8
    for k, r in enumerate(rs):
        if r[0] == "O":
            cnt["kept-planes"] += 1
            if old is None or int(r[1:]) >= len(old) or stored[k] != old[int(r[1:])]:
                bad.append({"what": "kept plane differs from the old one", "plane": k})
            continue
        for (x, y), ans in zip(res["pixels"], answers):
            if ans[0] != "ok":
                bad.append({"what": "model answers " + "/".join(ans[:2]), "pixel": [x, y]})
                break
            Fh, Ch, Ah, fv, cv, av = ans[1:7]
            i = y * W + x
            got = stored[k][i * size:(i + 1) * size]
            if r[0] == "F":
                exp_hex, exact = Fh.split(",")[int(r[1:])], frac(fv.split(",")[int(r[1:])])
            elif r[0] == "C":
                exp_hex, exact = Ch.split(",")[int(r[1:])], frac(cv.split(",")[int(r[1:])])
            elif r == "A":
                exp_hex, exact = Ah, frac(av)
            else:   # "1"
                exp_hex, exact = {8: "ff", 16: "ffff", 32: "3f800000"}[depth], Fraction(1)
            cnt["samples"] += 1
            if got.hex() == exp_hex:
                cnt["equal"] += 1
                continue
            alpha = float(frac(av))
            amp = 1.0 if r[0] != "C" else 1.0 / max(alpha, 1e-6)
            if depth == 32:
                cnt["float32-samples"] += 1
                v = float(np.frombuffer(got, ">f4")[0])
                if abs(v - float(exact)) <= DELTA32 * amp or (r[0] == "C" and alpha <= cc.ALPHA_MIN):
                    continue
                bad.append({"what": "32-bit sample differs", "plane": k, "route": r, "pixel": [x, y], "stored": v, "model": float(exact)})
                continue
            g, e = int.from_bytes(got, "big"), int(exp_hex, 16)
            excess = abs(float(exact) * SCALE[depth] - g) - 0.5     # how far beyond the rounding interval of the exact value
            cnt["max-excess"] = max(cnt.get("max-excess", 0.0), excess / (amp * SCALE[depth]))
            if r[0] == "C" and alpha <= cc.ALPHA_MIN:
                continue        # colour under (almost) zero alpha: 0/0 fallback territory, float32 decides
            if excess <= DELTA * amp * SCALE[depth]:
                cnt["one-off-near-boundary"] += 1
                continue
            bad.append({"what": "stored sample differs from the model", "plane": k, "route": r, "pixel": [x, y],
                        "stored": g, "model": e, "exact_scaled": float(exact) * SCALE[depth]})
    return bad, cnt
