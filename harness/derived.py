"""C14 - "derived values are never stale", evaluated against a FRESH document.

`table(psd)` lists, for every layer of a document by its position path, every derived value the API answers
(the clipping relation - read from the private attributes first, then through the public getters -, boxes, sizes,
inherited visibility, the rendering of every layer / group and of the document). `fresh_twin(psd)` is the same
document written to bytes and opened again: every one of these values is then computed from the records alone,
with no history behind it. `problems(w, d, ...)` compares the two, and the merged image a save() writes with the
one the fresh twin writes after a no-op edit.

`degenerate_histories(recipe, rng)` generates edit histories that END IN DEGENERATE STATES: the last clipping layer
released / deleted / moved away, the last visible layer hidden, the last child of a group removed, the last layer of
the document removed, the only mask disabled. The comparison is made after EVERY step of them.
"""
from __future__ import annotations

import io

import core  # noqa: F401
import treeops as T
from core import err_class

from psd_tools import PSDImage  # noqa: E402
from psd_tools.api.layers import GroupMixin, Layer  # noqa: E402


def _img(r):
    return None if r is None else (r.mode, r.size, T._digest(r.tobytes()))


def paths(psd):
    """[(path, layer)] depth first through `_layers` only; path = tuple of indices"""
    out = []

    def rec(g, prefix):
        for k, l in enumerate(g._layers):
            out.append((prefix + (k,), l))
            if isinstance(l, GroupMixin):
                rec(l, prefix + (k,))
    rec(psd, ())
    return out


def _ask(f):
    try:
        return f()
    except RecursionError:
        return "err:RecursionError"
    except Exception as e:  # noqa
        return "err:" + err_class(e)


def table(psd, pixels=True):
    """{(path, value name): value} for the document `psd`"""
    pl = paths(psd)
    where = {id(l): p for p, l in pl}

    def ref(x):
        return where.get(id(x), ("not-in-the-tree", _ask(lambda: x.name)))

    out = {}
    for p, l in pl:
        # the private attributes first (nothing that a getter could refresh has run yet)
        out[(p, "_clip_layers")] = _ask(lambda: [ref(c) for c in l._clip_layers])
        out[(p, "_has_clip_target")] = _ask(lambda: bool(l._has_clip_target))
    for p, l in pl:
        out[(p, "class")] = type(l).__name__
        out[(p, "clip_layers")] = _ask(lambda: [ref(c) for c in l.clip_layers])
        out[(p, "has_clip_layers")] = _ask(lambda: bool(l.has_clip_layers()))
        out[(p, "clipping_layer")] = _ask(lambda: bool(l.clipping_layer))
        out[(p, "bbox")] = _ask(lambda: tuple(l.bbox))
        out[(p, "size")] = _ask(lambda: tuple(l.size))
        out[(p, "is_visible")] = _ask(lambda: bool(l.is_visible()))
        if isinstance(l, GroupMixin):
            out[(p, "descendants")] = _ask(lambda: [ref(x) for x in l.descendants()])
            out[(p, "len")] = _ask(lambda: len(l))
    out[((), "bbox")] = _ask(lambda: tuple(psd.bbox))
    out[((), "size")] = _ask(lambda: tuple(psd.size))
    out[((), "descendants")] = _ask(lambda: [ref(x) for x in psd.descendants()])
    if pixels:
        out[((), "composite")] = _ask(lambda: _img(psd.composite(force=True)))
        for p, l in pl:
            out[(p, "composite")] = _ask(lambda: _img(l.composite()))
    return out


def written(psd):
    buf = io.BytesIO()
    psd.save(buf)
    return buf.getvalue()


def fresh_twin(psd):
    """the same document with no history: written and opened again (in the same compatibility mode, which is a setting
    of the session, not of the file)"""
    q = PSDImage.open(io.BytesIO(written(psd)))
    if q.compatibility_mode != psd.compatibility_mode:
        q.compatibility_mode = psd.compatibility_mode
    return q


def merged_after_noop_edit(q):
    """the merged image the fresh document `q` writes when it has to render it (a no-op edit - the top layer taken
    out and put back - makes save() render the tree)"""
    if not len(q._layers):
        return None
    x = q.pop()
    q.append(x)
    return _img(PSDImage.open(io.BytesIO(written(q))).topil())


def compare(psd, pixels=True):
    """[(value name, path, live answer, fresh answer)] for one document; [] when it cannot be written (an ill-formed
    tree: reported by C10) - the comparison needs the fresh twin"""
    if pixels == "auto":                 # renderings of small canvases only (a large fixture takes seconds per rendering)
        pixels = psd.width * psd.height <= 40000
    try:
        live = table(psd, pixels)
        fresh_doc = fresh_twin(psd)
    except RecursionError:
        return []
    except Exception:  # noqa
        return []
    fresh = table(fresh_doc, pixels)
    out = []
    for k in live:
        if live[k] != fresh.get(k, "<absent>"):
            out.append((k[1], k[0], live[k], fresh.get(k, "<absent>")))
    for k in fresh:
        if k not in live:
            out.append((k[1], k[0], "<absent>", fresh[k]))
    if pixels:
        # what save() wrote as the merged image (it is what the fresh twin shows as its stored image) against what
        # the fresh twin writes when it renders its own tree
        try:
            wrote = _img(fresh_doc.topil()) if psd._updated_layers and len(psd._layers) else None
            want = merged_after_noop_edit(fresh_doc) if wrote is not None else None
        except Exception:  # noqa
            wrote = want = None
        if wrote != want:
            out.append(("merged-image", (), wrote, want))
    return out


# ------------------------------------------------------------------------------------------
# histories that end in degenerate states
# ------------------------------------------------------------------------------------------
def _kids(w, c):
    return [w.idof(l) for l in w.objs[c]._layers]


def _release(w, rng, x, how, doc):
    """one operation that makes layer x stop being a clipping layer of its container"""
    if how == "unclip":
        return ("clip", x, False)
    if how == "delete":
        return ("delete", x)
    if how == "remove":
        par = next((c for c in w.conts() if x in _kids(w, c)), None)
        return ("remove", par, x) if par is not None else ("delete", x)
    # moved away: into a detached group if there is one, else to the bottom of ... another container
    det = [g for g in w.groups() if g in w.detached() and g != x]
    if det:
        return ("move", x, det[0])
    return ("delete", x)


def degenerate_histories(recipe, rng, reads=True):
    """yields (family, ops); ids refer to T.build(recipe); every history is generated against a scratch world so
    that each operation is legal where it stands"""
    w0 = T.build(recipe)
    att0 = T.attached(w0)
    docs = w0.docs()
    if not docs:
        return
    d = docs[0]

    def fresh():
        return T.build(recipe)

    def read_all(w):
        """read-only calls that fill whatever can be cached, before the step that degenerates the state"""
        X = [x for x in w.layers() if x in T.attached(w)]
        r = [("opaque", "composite", d), ("obs", "bbox", d)]
        r += [("opaque", "clip_layers", x) for x in X]
        r += [("obs", "repr", x) for x in X]
        return r

    # --- 1. the last clipping layer released / deleted / moved away --------------------------------------------------
    for how in ("unclip", "delete", "move", "remove", "mixed"):
        for with_reads in ((False, True) if reads else (False,)):
            w = fresh()
            ops = []
            att = T.attached(w)
            clips = [x for x in w.layers() if x in att and bool(w.objs[x].clipping_layer)]
            if not clips or how == "mixed":
                # make (more) clipping layers: the top children of containers with at least two children
                for c in [c for c in w.conts() if c in att]:
                    ks = _kids(w, c)
                    for x in ks[1:][-2:]:
                        if not bool(w.objs[x].clipping_layer) and rng.random() < 0.8:
                            ops.append(("clip", x, True))
                            T.apply_real(w, ops[-1])
                clips = [x for x in w.layers() if x in T.attached(w) and bool(w.objs[x].clipping_layer)]
            if not clips:
                continue
            order = list(clips)
            rng.shuffle(order)
            for k, x in enumerate(order):
                if with_reads and k == len(order) - 1:
                    ops += read_all(w)
                if x not in T.attached(w) or not bool(w.objs[x].clipping_layer):
                    continue
                h = how if how != "mixed" else rng.choice(["unclip", "delete", "move", "remove"])
                op = _release(w, rng, x, h, d)
                ops.append(op)
                T.apply_real(w, op)
            yield "last-clipping-layer-" + how, ops

    # --- 2. the last visible layer hidden -------------------------------------------------------------------------------
    for level in ("top", "leaves"):
        w = fresh()
        att = T.attached(w)
        if level == "top":
            xs = [x for x in _kids(w, d)]
        else:
            xs = [x for x in w.layers() if x in att and not isinstance(w.objs[x], GroupMixin)]
        xs = [x for x in xs if bool(w.objs[x].visible)]
        rng.shuffle(xs)
        ops = []
        for k, x in enumerate(xs):
            if reads and k == len(xs) - 1:
                ops += read_all(w)
            ops.append(("vis", x, False))
            T.apply_real(w, ops[-1])
        if ops:
            yield "last-visible-layer-hidden-" + level, ops

    # --- 3. the last child of a group removed; 4. the last layer of the document removed ---------------------------------------
    conts = [c for c in w0.conts() if c in att0 and w0.objs[c]._layers]
    for c in conts:
        for how in ("delete", "move", "pop", "clear"):
            w = fresh()
            ops = []
            ks = _kids(w, c)
            if how == "clear":
                ops += read_all(w) if reads else []
                ops.append(("clear", c))
            else:
                order = list(ks)
                rng.shuffle(order)
                for k, x in enumerate(order):
                    if reads and k == len(order) - 1:
                        ops += read_all(w)
                    if how == "delete":
                        op = ("delete", x)
                    elif how == "pop":
                        op = ("pop", c, _kids(w, c).index(x))
                    else:
                        others = [g for g in w.conts() if g != c and g != x and g in T.attached(w)
                                  and not T.Shadow(w).reaches(x, g)]
                        op = ("move", x, others[0]) if others and c != d else ("remove", c, x)
                    ops.append(op)
                    T.apply_real(w, op)
            fam = "last-layer-of-the-document" if c == d else "last-child-of-a-group"
            yield "%s-%s" % (fam, how), ops

    # --- 5. the only mask disabled -----------------------------------------------------------------------------------------
    w = fresh()
    masked = [x for x in w.layers() if x in T.attached(w) and w.objs[x].has_mask()]
    if masked:
        ops = []
        on = [x for x in masked if not bool(w.objs[x].mask.disabled)]
        if not on:                        # every mask is disabled already: the first one enabled, then disabled again
            ops.append(("maskoff", masked[0], False))
            on = [masked[0]]
        for k, x in enumerate(on):
            if reads and k == len(on) - 1:
                ops += read_all(w)
            ops.append(("maskoff", x, True))
        if ops:
            yield "only-mask-disabled", ops
            yield "only-mask-disabled-and-enabled-again", ops + [("maskoff", on[-1], False)]


def clip_input_histories(recipe, rng, reads=True):
    """Histories over the two inputs of the clipping relation that are not structure, visibility or the clipping flag:
    the blend mode of the layer a clip run sits on (pass-through or not) and the compatibility mode of the document.
    For every container child with a sibling directly above it: that sibling made a clipping layer, the compatibility
    mode set (every mode that changes the rule, then back), the blend mode of the base walked through pass-through ->
    normal -> multiply -> pass-through, in both orders (mode first / blend first), everything read in between.
    yields (family, ops)."""
    w0 = T.build(recipe)
    docs = w0.docs()
    if not docs:
        return
    d = docs[0]
    att = T.attached(w0)
    bases = []
    for c in [c for c in w0.conts() if c in att or c == d]:
        ks = _kids(w0, c)
        for below, above in zip(ks, ks[1:]):
            bases.append((below, above))
    rng.shuffle(bases)
    groups_first = sorted(bases, key=lambda p: not isinstance(w0.objs[p[0]], GroupMixin))
    walk = ["PASS_THROUGH", "NORMAL", "MULTIPLY", "PASS_THROUGH", "NORMAL"]

    def read_all():
        X = [x for x in w0.layers() if x in att]
        return [("opaque", "clip_layers", x) for x in X] + [("obs", "repr", x) for x in X[:3]] if reads else []

    for (base, above) in groups_first[:3]:
        for mode in ("CLIP_STUDIO_PAINT", "PAINT_TOOL_SAI"):
            ops = [("clip", above, True), ("compat", d, mode)] + read_all()
            for b in walk:
                ops.append(("blend", base, b))
            ops.append(("compat", d, "PHOTOSHOP"))
            yield "compat-then-blend", ops
            ops = [("clip", above, True)]
            for b in walk[:3]:
                ops += [("blend", base, b), ("compat", d, mode)] + read_all() + [("compat", d, "PHOTOSHOP")]
            yield "blend-then-compat", ops


GROUPS = {"_clip_layers": "clip-relation", "_has_clip_target": "clip-relation", "clip_layers": "clip-relation",
          "has_clip_layers": "clip-relation", "clipping_layer": "clip-relation",
          "class": "tree-structure", "len": "tree-structure", "descendants": "tree-structure"}


def run(recipe, ops, pixels=True, every=True):
    """the history on the real code, the comparison with the fresh twin after EVERY edit (every=False: after the
    last one only): [(signature, what, step)]"""
    w = T.build(recipe)
    out = []
    last = max([k for k, op in enumerate(ops) if op[0] not in ("opaque", "obs")], default=-1)
    for k, op in enumerate(ops):
        if op[0] == "opaque":
            if op[2] is not None and op[2] < len(w.objs) and w.objs[op[2]] is not None:
                T.opaque_answer(w, op[1], op[2])
            continue
        res = T.apply_real(w, op)
        if op[0] == "obs":
            continue
        if any(len(v) > 1 for v in w.listed().values()):
            break                       # ill-formed (C10): nothing to say
        if not every and k != last:
            continue
        for d in w.docs():
            diffs = compare(w.objs[d], pixels)
            if any(GROUPS.get(n) == "tree-structure" for n, _, _, _ in diffs):
                # the document opened again is another TREE (layers missing / extra / elsewhere): every other value
                # differs as a consequence, one report
                diffs = [x for x in diffs if GROUPS.get(x[0]) == "tree-structure"][:1]
            for name, path, live, fresh in diffs:
                out.append(("C14/derived-stale/%s/after-%s" % (GROUPS.get(name, name), op[0]),
                            "after %s (-> %s) %s of the layer at position %s of document %d is %s; the same document "
                            "written and opened again answers %s" % (T.op_str(op), res, name, list(path), d,
                                                                   T._shorten(live), T._shorten(fresh)), k))
    return out
