"""Guarded worker of the C06 watchdog (started by harness/c06_pool.py, one process per pool slot).

Protocol (binary in, JSON lines out, one item at a time):
  parent -> worker   struct '>IIB' (id, length, flags) followed by `length` bytes
                     flags: 1 = also PSD.read with raw payloads (what the Lean skeleton model computes)
                            2 = export level 1 (document composite() and topil()) when the file opens
                            4 = export level 2 (first layers: topil(), numpy())
                            16 = also the typed PSD.read under a COUNTING io.BytesIO (every fp.read call, the bytes it
                                returned, every io.BytesIO(data) the reader creates): what the Lean counting twin
                                `open.cost` bounds; answer field "count"
                            32 = also PSDImage.open(<path of a temporary file holding the bytes>): a buffered file object
                                reserves what read(n) is ASKED for (io.BytesIO allocates what it returns); answer field "path"
                            8 = afterwards run the BATTERY in the same interpreter (state leaking from one open into the
                                next): headers that must be rejected, good files that must open exactly as they did when
                                this process was fresh.  The battery is a JSON file named by env C06_BATTERY
                                ({"reject": [[name, hex], ..], "same": [[name, hex], ..]}); its fresh-state reference is
                                taken right after start-up and reported in the hello line.
                            128 = watchdog self-test: the payload names a misbehaviour (hang, sleep, segv, alloc, exit, die, rss)
  worker -> parent   {"hello":..} once, then per item {"id","stage":"open",...} and, when an export was asked
                     for and the file opened, {"id","stage":"export",...}.
The answers travel on a private duplicate of stdout; fd 1 and fd 2 of the library go to the stderr file, where
`faulthandler` also writes (the Python stack on SIGUSR1, which the parent sends before it kills a hung worker, and
on SIGSEGV/SIGBUS/SIGFPE/SIGABRT).

Limits: RLIMIT_AS = address space measured after importing psd_tools/numpy/PIL/the compositor + HEADROOM,
RLIMIT_CORE = 0.  The wall-clock limit is enforced by the parent.
Memory per item: VmHWM is reset through /proc/self/clear_refs ('5') before each stage when that is permitted, so
`peak_kb` is the peak resident set DURING the stage and `grow_kb` = peak - resident before; otherwise the growth
of ru_maxrss is reported (`hwm_reset` in the hello line says which).
"""
from __future__ import annotations

import gc
import io
import json
import os
import resource
import signal
import struct
import sys
import time
import traceback

HEADROOM = 1200 * 1024 * 1024


def _status():
    d = {}
    try:
        with open("/proc/self/status") as f:
            for line in f:
                if line.startswith(("VmSize", "VmHWM", "VmRSS", "VmPeak")):
                    k, v = line.split(":")
                    d[k] = int(v.split()[0])
    except OSError:
        pass
    return d


def main():
    repo, harness = sys.argv[1], sys.argv[2]
    out = os.fdopen(os.dup(1), "wb", buffering=0)
    os.dup2(2, 1)                      # anything the library prints goes to the stderr file
    inp = os.fdopen(os.dup(0), "rb", buffering=1 << 16)
    sys.path.insert(0, os.path.join(repo, "src"))
    sys.path.insert(0, harness)
    import faulthandler
    faulthandler.enable(file=sys.stderr, all_threads=False)
    import logging
    import warnings
    logging.disable(logging.CRITICAL)
    warnings.simplefilter("ignore")

    import core                        # err_class (same mapping as the model's Err enum)
    import skel                        # raw_payloads
    import numpy  # noqa
    import PIL.Image  # noqa
    import psd_tools
    from psd_tools import PSDImage
    from psd_tools.psd import PSD
    import psd_tools.composite  # noqa
    import psd_tools.api.numpy_io  # noqa
    import psd_tools.api.pil_io  # noqa

    def send(obj):
        out.write(json.dumps(obj, separators=(",", ":")).encode() + b"\n")

    # warm-up on a valid file (lazy imports of the compositor) before the address space is measured
    warm = os.environ.get("C06_WARMUP")
    if warm:
        try:
            d = PSDImage.open(io.BytesIO(bytes.fromhex(warm)))
            d.composite()
            d.topil()
            for l in d:
                l.topil()
                l.numpy()
        except Exception:  # noqa
            pass
    gc.collect()
    st = _status()
    base_vm = st.get("VmSize", 0) * 1024
    limit = base_vm + HEADROOM
    if os.environ.get("C06_NO_RLIMIT") != "1":
        resource.setrlimit(resource.RLIMIT_AS, (limit, limit))
    resource.setrlimit(resource.RLIMIT_CORE, (0, 0))
    hwm_reset = True
    try:
        with open("/proc/self/clear_refs", "w") as f:
            f.write("5")
    except OSError:
        hwm_reset = False

    def reset_hwm():
        if hwm_reset:
            try:
                with open("/proc/self/clear_refs", "w") as f:
                    f.write("5")
            except OSError:
                pass

    def mem_before():
        reset_hwm()
        if hwm_reset:
            return _status().get("VmRSS", 0)
        return resource.getrusage(resource.RUSAGE_SELF).ru_maxrss

    def mem_after(before):
        if hwm_reset:
            peak = _status().get("VmHWM", 0)
        else:
            peak = resource.getrusage(resource.RUSAGE_SELF).ru_maxrss
        return peak, max(0, peak - before)

    def where(tb):
        """innermost psd_tools frame of a traceback: 'module.Class.function' (the reader / mechanism)"""
        best = None
        for fr, _ln in traceback.walk_tb(tb):
            fn = fr.f_code.co_filename
            if "psd_tools" in fn and not fn.startswith("<"):      # "<attrs generated ...>" frames are skipped
                mod = fn.rsplit("/", 1)[-1][:-3]
                if mod == "__init__":
                    mod = fn.rsplit("/", 2)[-2]
                if mod == "utils" and best is not None:
                    continue
                cls = fr.f_locals.get("cls")
                if cls is None and "self" in fr.f_locals:
                    cls = type(fr.f_locals["self"])
                cn = getattr(cls, "__name__", None)
                best = ".".join(x for x in (mod, cn, fr.f_code.co_name) if x)
        return best or "?"

    def site_all(tb):
        """innermost psd_tools frame, utils included: 'module.function'"""
        best = None
        for fr, _ln in traceback.walk_tb(tb):
            fn = fr.f_code.co_filename
            if "psd_tools" in fn and not fn.startswith("<"):
                mod = fn.rsplit("/", 1)[-1][:-3]
                cls = fr.f_locals.get("cls")
                cn = getattr(cls, "__name__", None)
                best = ".".join(x for x in (mod, cn if mod != "utils" else None, fr.f_code.co_name) if x)
        return best or "?"

    def outcome(e):
        kind = "exception"
        if isinstance(e, MemoryError):
            kind = "memory"
        elif not isinstance(e, Exception):
            kind = "non-exception"
        return {"k": kind, "cls": type(e).__name__, "err": core.err_class(e), "msg": str(e)[:160],
                "where": where(e.__traceback__), "site_all": site_all(e.__traceback__)}

    def guarded(fn):
        t = time.perf_counter()
        try:
            r = fn()
            return {"k": "ok", **(r or {})}, time.perf_counter() - t
        except BaseException as e:  # noqa  (SystemExit / KeyboardInterrupt are findings, reported to the parent)
            o = outcome(e)
            del e
            return o, time.perf_counter() - t

    # ---- the counting stream (flag 16)
    _Real = io.BytesIO
    SKELETON = {"PSD", "ImageResources", "ImageResource", "LayerAndMaskInformation", "LayerInfo", "LayerRecords",
                "LayerRecord", "TaggedBlocks", "TaggedBlock", "LayerInfoBlock", "ChannelImageData", "ChannelDataList",
                "ChannelData", "MaskData", "LayerBlendingRanges", "GlobalLayerMaskInfo", "ImageData", "FileHeader"}

    class Counters:
        reads = 0
        bytes = 0
        inits = 0
        init_bytes = 0
        limit = None
        culprit = None

    def culprit():
        """outermost payload class whose read is on the stack (the class the volume is attributed to)"""
        f = sys._getframe(2)
        names = []
        while f is not None:
            if "psd_tools" in f.f_code.co_filename:
                cls = f.f_locals.get("cls")
                cn = getattr(cls, "__name__", None)
                if cn and f.f_code.co_name in ("read", "_read_body", "frombytes"):
                    names.append(cn)
            f = f.f_back
        for cn in reversed(names):
            if cn not in SKELETON:
                return cn
        return names[0] if names else "?"

    class CountingBytesIO(_Real):
        def __init__(self, initial_bytes=b""):
            Counters.inits += 1
            Counters.init_bytes += len(initial_bytes)
            _Real.__init__(self, initial_bytes)

        def read(self, *a):
            b = _Real.read(self, *a)
            Counters.reads += 1
            Counters.bytes += len(b)
            if Counters.limit is not None and Counters.culprit is None and Counters.bytes > Counters.limit:
                Counters.culprit = culprit()
            return b

    def counted(data):
        Counters.reads = Counters.bytes = Counters.inits = Counters.init_bytes = 0
        Counters.culprit = None
        Counters.limit = 400 * len(data) + (1 << 20)
        io.BytesIO = CountingBytesIO
        try:
            f = CountingBytesIO(data)
            Counters.inits, Counters.init_bytes = 0, 0          # the input stream itself is not a copy the reader made
            try:
                PSD.read(f)
                return {"tell": f.tell()}
            finally:
                f.close()
        finally:
            io.BytesIO = _Real

    def counters():
        return {"reads": Counters.reads, "bytes": Counters.bytes, "inits": Counters.inits, "init_bytes": Counters.init_bytes,
                "culprit": Counters.culprit}

    def max_lr16_depth():
        """how many nested Lr16 blocks the counted PSD.read gets through before RecursionError (the `D` of open.cost)"""
        try:
            import c06_gen as G

            def doc(depth):
                return G.document(G.header(), b"", b"", G.lam(G.layer_info(G.nested_lr16(depth)), G.P("I", 0)), None)

            def ok(depth):
                try:
                    counted(doc(depth))
                    return True
                except RecursionError:
                    return False
            lo, hi = 0, 600
            while lo < hi:
                mid = (lo + hi + 1) // 2
                if ok(mid):
                    lo = mid
                else:
                    hi = mid - 1
            return lo
        except Exception:  # noqa
            return None

    # ---- the battery: fresh-state reference
    import hashlib

    def digest(d):
        """what a caller sees of an opened document: the re-written record bytes and the layer tree"""
        h = hashlib.sha1()
        f = io.BytesIO()
        d._record.write(f)
        h.update(f.getvalue())
        for l in d.descendants():
            h.update(repr((l.kind, l.name, l.bbox, l.visible, l.opacity, str(l.blend_mode), l.parent is d)).encode())
        h.update(repr((d.width, d.height, d.depth, d.channels, str(d.color_mode), d.version)).encode())
        return h.hexdigest()[:16]

    bat_reject, bat_same, bat_ref = [], [], {}
    bpath = os.environ.get("C06_BATTERY")
    if bpath:
        try:
            with open(bpath) as f:
                bj = json.load(f)
        except (OSError, ValueError):
            bj = {}
        for nm, hx_ in bj.get("reject", []):
            b_ = bytes.fromhex(hx_)
            o_, _t = guarded(lambda: PSDImage.open(io.BytesIO(b_)) and None)
            bat_ref[nm] = "ok" if o_["k"] == "ok" else "rejected:" + o_["cls"]
            if o_["k"] == "exception":
                bat_reject.append((nm, b_))
        for nm, hx_ in bj.get("same", []):
            b_ = bytes.fromhex(hx_)
            o_, _t = guarded(lambda: {"digest": digest(PSDImage.open(io.BytesIO(b_)))})
            bat_ref[nm] = o_.get("digest") if o_["k"] == "ok" else "raises:" + o_["cls"]
            if o_["k"] == "ok":
                # the same file twice in a fresh process must already agree, otherwise it is useless as a reference
                o2, _t = guarded(lambda: {"digest": digest(PSDImage.open(io.BytesIO(b_)))})
                if o2.get("digest") == o_["digest"]:
                    bat_same.append((nm, b_, o_["digest"]))

    def run_battery():
        t = time.perf_counter()
        bad = []
        for nm, b_ in bat_reject:
            o_, _t = guarded(lambda: PSDImage.open(io.BytesIO(b_)) and None)
            if o_["k"] != "exception":
                bad.append({"name": nm, "kind": "reject", "got": o_["k"] if o_["k"] != "ok" else "opened"})
        for nm, b_, ref in bat_same:
            o_, _t = guarded(lambda: {"digest": digest(PSDImage.open(io.BytesIO(b_)))})
            if o_["k"] != "ok":
                bad.append({"name": nm, "kind": "same", "got": "raises " + o_["cls"] + " at " + o_["where"], "msg": o_["msg"][:100]})
            elif o_["digest"] != ref:
                bad.append({"name": nm, "kind": "same", "got": "digest " + o_["digest"], "ref": ref})
        return {"ran": len(bat_reject) + len(bat_same), "bad": bad, "t": round(time.perf_counter() - t, 4)}

    # the parent sends SIGUSR1 before it kills a worker that exceeded the wall-clock limit: the C-level handler
    # writes the Python stack of the stuck main thread to the stderr file (works inside a C loop as well).
    # (A periodic `dump_traceback_later(repeat=True)` was tried first: its watchdog thread walks the frames of the
    # running main thread without the GIL and segfaulted about once per 15 000 items - a false crash.)
    faulthandler.register(signal.SIGUSR1, file=sys.stderr, all_threads=False)
    send({"hello": 1, "pid": os.getpid(), "base_vm": base_vm, "rlimit_as": limit, "base_rss_kb": st.get("VmRSS", 0),
          "hwm_reset": hwm_reset, "recursion_limit": sys.getrecursionlimit(), "max_lr16_depth": max_lr16_depth(),
          "rle_impl": getattr(__import__("psd_tools.compression", fromlist=["rle_impl"]).rle_impl, "__name__", "?"),
          "python": sys.version.split()[0], "psd_tools": getattr(psd_tools, "__version__", "?"),
          "battery": bat_ref})

    n_items = 0
    while True:
        hdr = inp.read(9)
        if len(hdr) < 9:
            break
        ident, length, flags = struct.unpack(">IIB", hdr)
        data = inp.read(length)
        if len(data) != length:
            break
        n_items += 1
        msg = {"id": ident, "stage": "open"}
        before = mem_before()
        if flags & 128:
            # watchdog self-test (the parent checks that each misbehaviour is detected and attributed)
            def misbehave():
                if data == b"hang":
                    while True:
                        pass
                elif data == b"sleep":
                    time.sleep(600)
                elif data == b"segv":
                    import ctypes
                    ctypes.string_at(0)
                elif data == b"alloc":
                    x = bytearray(3 << 30)
                    return {"len": len(x)}
                elif data == b"exit":
                    raise SystemExit(3)
                elif data == b"die":
                    os._exit(7)
                elif data == b"rss":
                    x = bytearray(200 << 20)
                    x[::4096] = b"\1" * len(x[::4096])
                    return {"len": len(x)}
            msg["open"], msg["t_open"] = guarded(misbehave)
            msg["peak_kb"], msg["grow_kb"] = mem_after(before)
            msg["more"] = False
            send(msg)
            gc.collect()
            continue
        if flags & 1:
            def raw():
                with skel.raw_payloads():
                    with io.BytesIO(data) as f:
                        PSD.read(f)
                        return {"tell": f.tell()}
            msg["raw"], msg["t_raw"] = guarded(raw)
        if flags & 16:
            msg["count"], msg["t_count"] = guarded(lambda: counted(data))
            msg["count"].update(counters())
        if flags & 32:
            def from_path():
                import tempfile
                fd, path = tempfile.mkstemp(suffix=".psd")
                try:
                    with os.fdopen(fd, "wb") as f:
                        f.write(data)
                    PSDImage.open(path)
                finally:
                    try:
                        os.unlink(path)
                    except OSError:
                        pass
            msg["path"], _t = guarded(from_path)
            if msg["path"]["k"] == "memory":
                # the call site that handed the declared length to read(): innermost psd_tools frame, utils included
                msg["path"]["site"] = msg["path"].get("site_all") or msg["path"]["where"]
        holder = {}

        def op():
            holder["doc"] = PSDImage.open(io.BytesIO(data))
        cpu0 = time.process_time()
        msg["open"], msg["t_open"] = guarded(op)
        msg["cpu_open"] = time.process_time() - cpu0          # CPU time of PSDImage.open alone (robust against machine load)
        msg["peak_kb"], msg["grow_kb"] = mem_after(before)
        msg["maxrss_kb"] = resource.getrusage(resource.RUSAGE_SELF).ru_maxrss
        doc = holder.get("doc")
        want_export = bool(flags & 6) and doc is not None
        msg["more"] = want_export
        if want_export:
            def declared():
                # bytes of pixels the header and the layer records DECLARE: what an export may legitimately allocate
                dep = max(1, doc.depth // 8)
                tot = doc.width * doc.height * max(1, doc.channels) * dep
                nl = 0
                for l in doc.descendants():
                    nl += 1
                    tot += max(0, l.width) * max(0, l.height) * max(1, len(l._record.channel_info)) * dep
                return {"bytes": tot, "layers": nl, "w": doc.width, "h": doc.height}
            msg["declared"], _ = guarded(declared)
        if (flags & 8) and not want_export:
            msg["battery"] = run_battery()
        send(msg)
        if want_export:
            ex = {"id": ident, "stage": "export", "ops": {}}
            before = mem_before()
            t0 = time.perf_counter()
            if flags & 2:
                ex["ops"]["composite"], ex["t_composite"] = guarded(lambda: doc.composite() and None)
                ex["ops"]["topil"], ex["t_topil"] = guarded(lambda: doc.topil() and None)
            if flags & 4:
                def layers():
                    res = {}
                    k = 0
                    for l in doc.descendants():
                        if k >= 8:
                            break
                        k += 1
                        for nm, f in (("layer.topil", l.topil), ("layer.numpy", l.numpy)):
                            o, _t = guarded(lambda: f() is None and None)
                            if o["k"] != "ok" and nm not in res:
                                res[nm] = o
                    return {"n": k, "bad": res}
                o, ex["t_layers"] = guarded(layers)
                if o["k"] == "ok":
                    for nm, oo in o.get("bad", {}).items():
                        ex["ops"][nm] = oo
                    ex["ops"].setdefault("layer.topil", {"k": "ok"})
                    ex["ops"].setdefault("layer.numpy", {"k": "ok"})
                    ex["layers_tried"] = o.get("n", 0)
                else:
                    ex["ops"]["layers"] = o
            ex["t"] = time.perf_counter() - t0
            ex["peak_kb"], ex["grow_kb"] = mem_after(before)
            ex["maxrss_kb"] = resource.getrusage(resource.RUSAGE_SELF).ru_maxrss
            if flags & 8:
                ex["battery"] = run_battery()
            send(ex)
        big = length > (1 << 20) or msg["grow_kb"] > 65536 or msg["open"]["k"] == "memory" or want_export
        holder.clear()
        doc = None
        del data
        if n_items % 2000 == 0 or big:
            gc.collect()


if __name__ == "__main__":
    main()
