"""C15 - what the compositor makes of the clipping relation, observed in pixels.

Documents are built through the public API from the node descriptions of harness/props/C15.py
(`(clip, pass_through, kids | None)`, bottom first). Every leaf k (numbered bottom-to-top, depth first) is an opaque
pixel layer of its own colour whose footprint is L-shaped: column k rows 0..k, row k+1 columns k+1..n-1, and the lone
pixel (k, n+1+k). Every leaf owns pixels nobody else covers (at both ends of its box) and any two leaves share exactly
one pixel, so the composite says for every leaf whether it was painted as an ordinary layer, clipped to a base, cropped
by somebody's box, or not at all.

Two oracles, neither reads `clip_layers` / `_has_clip_target`:
* `painter`: who paints each pixel, from the node description, the compatibility mode, the set of hidden layers and the
  layer filter alone (relation = the per-layer specification `spec_level` handed in by the caller);
* the twin: the same document with the clipping flag CLEARED on every clipping layer that has no base ("a clipping
  layer with no base is composited as an ordinary layer") must give the same picture.
"""
from __future__ import annotations

import io

import core  # noqa: F401  (puts REPO/src on sys.path)

RESTRICTIVE = {"PAINT_TOOL_SAI", "CLIP_STUDIO_PAINT"}
FILTERS = ["default", "Layer.is_visible", "function-visible", "lambda-accept-all", "lambda-visible-flag"]


def leaves_of(nodes):
    n = 0
    for _, _, kids in nodes:
        n += 1 if kids is None else leaves_of(kids)
    return n


def colour(k):
    return (40 + (53 * k) % 200, 30 + (97 * k) % 210, 20 + (151 * k) % 230)


def cover(k, n):
    pts = {(k, y) for y in range(k + 1)} | {(x, k + 1) for x in range(k + 1, n)}
    pts.add((k, n + 1 + k))
    return pts


def canvas(n):
    return (max(n, 1), 2 * max(n, 1) + 1)


def make_filter(kind):
    from psd_tools.api.layers import Layer
    if kind == "default":
        return None
    if kind == "Layer.is_visible":
        return Layer.is_visible
    if kind == "function-visible":
        def visible(layer):
            return layer.is_visible()
        return visible
    if kind == "lambda-accept-all":
        return lambda layer: True
    if kind == "lambda-visible-flag":
        return lambda layer: layer.visible
    raise ValueError(kind)


def accepts(kind, hidden_here):
    """Does the filter accept a layer whose own visible flag is off (its ancestors were accepted on the way down)."""
    return True if kind == "lambda-accept-all" else not hidden_here


def build(nodes, hidden=(), mode=None, mode_first=True):
    """-> (PSDImage, layers in pre-order). hidden: pre-order positions whose `visible` is switched off."""
    from PIL import Image
    from psd_tools import PSDImage
    from psd_tools.api.layers import Group, PixelLayer
    from psd_tools.constants import BlendMode, CompatibilityMode
    n = leaves_of(nodes)
    psd = PSDImage.new("RGB", canvas(n), color=0)
    if mode is not None and mode_first:
        psd.compatibility_mode = CompatibilityMode[mode]
    order = []
    counter = [0]

    def add(parent, items):
        for clip, pt, kids in items:
            if kids is None:
                k = counter[0]
                counter[0] += 1
                pts = cover(k, n)
                x0, y0 = min(x for x, _ in pts), min(y for _, y in pts)
                x1, y1 = max(x for x, _ in pts) + 1, max(y for _, y in pts) + 1
                im = Image.new("RGBA", (x1 - x0, y1 - y0), (0, 0, 0, 0))
                for x, y in pts:
                    im.putpixel((x - x0, y - y0), colour(k) + (255,))
                l = PixelLayer.frompil(im, psd, "leaf%d" % k, y0, x0)
                if l._parent is None:
                    parent.append(l)
                elif l._parent is not parent:
                    l.move_to_group(parent)
                order.append(l)
            else:
                l = Group.new("group", parent=parent)
                order.append(l)
                add(l, kids)
                if not pt:
                    l.blend_mode = BlendMode.NORMAL
            if clip:
                l.clipping_layer = True
    add(psd, nodes)
    # pre-order positions
    pre = []

    def walk(group):
        for l in group._layers:
            pre.append(l)
            if hasattr(l, "_layers"):
                walk(l)
    walk(psd)
    for p in hidden:
        if p < len(pre):
            pre[p].visible = False
    if mode is not None and not mode_first:
        psd.compatibility_mode = CompatibilityMode[mode]
    return psd, pre


def reopen(psd):
    buf = io.BytesIO()
    psd.save(buf)
    from psd_tools import PSDImage
    q = PSDImage.open(io.BytesIO(buf.getvalue()))
    q.compatibility_mode = psd.compatibility_mode
    return q


def painter(nodes, hidden, mode, kind, spec_level, target_pos=None):
    """{(x, y): leaf index | None} - who paints each pixel of the canvas (target_pos: the group at that pre-order
    position composited by itself instead of the document)."""
    n = leaves_of(nodes)
    hidden = set(hidden)
    pos = [0]
    leaf = [0]
    index = {}

    def annotate(items):
        out = []
        for clip, pt, kids in items:
            me = {"clip": clip, "pt": pt, "hidden": pos[0] in hidden, "kids": None, "leaf": None, "pos": pos[0]}
            index[pos[0]] = me
            pos[0] += 1
            if kids is None:
                me["leaf"] = leaf[0]
                leaf[0] += 1
            else:
                me["kids"] = annotate(kids)
            out.append(me)
        res = spec_level([(m["clip"], m["kids"] is not None, m["pt"]) for m in out], mode)
        for i, (m, (run, tgt)) in enumerate(zip(out, res)):
            m["run"] = [out[j] for j in run]
            m["ordinary"] = (not m["clip"]) or (not tgt)      # painted in the ordinary pass of its group
        return out

    top = annotate(nodes)

    def drawn(m):
        return accepts(kind, m["hidden"])

    def own(m, p):
        """Does layer m, composited by itself (without its clipping run), cover pixel p."""
        if m["kids"] is None:
            return p in cover(m["leaf"], n)
        return paint_list(m["kids"], p) is not None

    def paint_node(m, p):
        """leaf index painted at p by m together with its clipping run, or None."""
        if not drawn(m) or not own(m, p):
            return None
        for c in reversed(m["run"]):
            if drawn(c) and own(c, p):
                return paint_inner(c, p)
        return paint_inner(m, p)

    def paint_inner(m, p):
        if m["kids"] is None:
            return m["leaf"]
        return paint_list(m["kids"], p)

    def paint_list(items, p):
        for m in reversed(items):
            if m["ordinary"]:
                r = paint_node(m, p)
                if r is not None:
                    return r
        return None

    w, h = canvas(n)
    if target_pos is not None:
        top = index[target_pos]["kids"]
    return {(x, y): paint_list(top, (x, y)) for x in range(w) for y in range(h)}


def observe(psd, nodes, kind, target=None):
    """{(x, y): leaf index | None | ('?', rgb)} as `psd_tools.composite.composite` paints `target` (default: the
    document) over the whole canvas with the filter `kind`."""
    from psd_tools.composite import composite
    n = leaves_of(nodes)
    w, h = canvas(n)
    f = make_filter(kind)
    kw = {} if f is None else {"layer_filter": f}
    color, _, alpha = composite(psd if target is None else target, viewport=(0, 0, w, h), **kw)
    table = {colour(k): k for k in range(n)}
    out = {}
    for x in range(w):
        for y in range(h):
            if float(alpha[y, x, 0]) < 0.5:
                out[(x, y)] = None
            else:
                rgb = tuple(int(round(255 * float(v))) for v in color[y, x][:3])
                out[(x, y)] = table.get(rgb, ("?", rgb))
    return out


def first_difference(got, want, nodes):
    n = leaves_of(nodes)
    for p in sorted(want):
        if got.get(p) != want[p]:
            owners = [k for k in range(n) if p in cover(k, n)]
            return {"pixel": list(p), "covered_by_leaves": owners, "painted": got.get(p), "expected": want[p]}
    return None


def clear_baseless(nodes, mode, spec_level):
    """The same description with the clipping flag cleared on every clipping layer that has no base."""
    res = spec_level([(c, k is not None, p) for c, p, k in nodes], mode)
    out = []
    for (c, p, k), (_, tgt) in zip(nodes, res):
        out.append((c and tgt, p, None if k is None else clear_baseless(k, mode, spec_level)))
    return out


def has_baseless(nodes, mode, spec_level):
    res = spec_level([(c, k is not None, p) for c, p, k in nodes], mode)
    for (c, p, k), (_, tgt) in zip(nodes, res):
        if (c and not tgt) or (k is not None and has_baseless(k, mode, spec_level)):
            return True
    return False
