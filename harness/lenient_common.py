"""Shared by harness/props/C02.py and C06.py: the structural map of a file (obtained by instrumenting the real
parse from the harness process), the structure-aware mutation engine, and the re-save oracle.

No source hooks: during `trace_parse` the name `io.BytesIO` is replaced by a recording subclass, so every
`fp.read(n)` of the real readers (on the main stream and on every nested `io.BytesIO(block)`) is seen with its
absolute file offset; the reader class that issued the read is taken from the Python frame.
"""
from __future__ import annotations

import io
import struct
import sys
import warnings

import core

_RealBytesIO = io.BytesIO


class Field:
    """one primitive read of the real parser"""
    __slots__ = ("off", "size", "got", "label", "kind", "value", "fmt", "site", "ctx", "code")

    def __init__(self, off, size, got, label, site=None, ctx=None):
        self.off, self.size, self.got, self.label = off, size, got, label
        self.kind = "data"      # "num" | "len" | "sig" | "fmt" | "data"
        self.value = None
        self.fmt = None         # the struct format the bytes were unpacked with (read_fmt), when known
        self.site = site        # "Class.function:line" of the reader statement that issued the read
        self.ctx = ctx          # the same for the reader that called that reader
        self.code = None        # struct item code ("B", "d", ...) of this field, when known

    def __repr__(self):
        return f"Field({self.off},{self.size},{self.label},{self.kind},{self.value})"


class _Trace:
    def __init__(self, data):
        self.data = data
        self.fields: list[Field] = []
        self.bases: dict[int, int] = {}
        self.keep = []
        self.unmapped = 0
        self.on = True
        self.last = None        # (id of the bytes last returned by read, its Field)
        self.seeks = set()      # absolute targets of fp.seek(pos, 0): how in-place containers skip to their end


_cur: _Trace | None = None


def _label():
    """-> (class of the innermost psd_tools reader on the stack, its statement "Class.function:line", the same for
    the psd_tools reader that called it)"""
    f = sys._getframe(2)
    depth = 0
    found = []
    while f is not None and depth < 16:
        co = f.f_code
        fn = co.co_filename
        if "psd_tools" in fn and "utils.py" not in fn:
            cls = f.f_locals.get("cls")
            if cls is None:
                s = f.f_locals.get("self")
                cls = type(s) if s is not None else None
            nm = getattr(cls, "__name__", None) or fn.rsplit("/", 1)[-1][:-3]
            found.append((nm, "%s.%s:%d" % (nm, co.co_name, f.f_lineno)))
            if len(found) == 2:
                break
        f = f.f_back
        depth += 1
    if not found:
        return "?", None, None
    return found[0][0], found[0][1], (found[1][1] if len(found) > 1 else None)


class _TBytesIO(_RealBytesIO):
    def __init__(self, initial=b"", *a, **kw):
        super().__init__(initial, *a, **kw)
        t = _cur
        self._base = None
        if t is not None and t.on:
            if initial is t.data:
                self._base = 0
            else:
                self._base = t.bases.get(id(initial))
                if self._base is None and len(initial):
                    t.unmapped += 1

    def read(self, n=-1, *a):
        t = _cur
        if t is None or not t.on or self._base is None:
            return super().read(n, *a)
        pos = self.tell()
        r = super().read(n, *a)
        if n is None or n < 0:
            n = len(r)
        fld = Field(self._base + pos, n, len(r), *_label())
        t.fields.append(fld)
        t.last = (id(r), fld, r)
        if len(r) >= 4:
            t.bases[id(r)] = self._base + pos
            t.keep.append(r)
        return r

    def seek(self, pos, whence=0):
        t = _cur
        if t is not None and t.on and self._base is not None and whence == 0:
            t.seeks.add(self._base + pos)
        return super().seek(pos, whence)


_real_unpack = struct.unpack


def _t_unpack(fmt, data, *a):
    """`struct.unpack` as called by `read_fmt` right after `fp.read`: remember the format of that read"""
    t = _cur
    if t is not None and t.on and t.last is not None and t.last[0] == id(data) and isinstance(fmt, str):
        t.last[1].fmt = fmt
    return _real_unpack(fmt, data, *a)


_ITEM = {"b": 1, "B": 1, "h": 2, "H": 2, "i": 4, "I": 4, "l": 4, "L": 4, "q": 8, "Q": 8, "f": 4, "d": 8, "?": 1, "c": 1}


def split_fmt(f: Field):
    """a composite `read_fmt` read ("4iH", "hI", "4sH6xHIIHH", ...) -> one Field per item"""
    import re as _re
    fmt = f.fmt.lstrip("<>!=@")
    out, off = [], f.off
    j = 0
    for cnt, code in _re.findall(r"(\d*)([a-zA-Z?])", fmt):
        k = int(cnt) if cnt else 1
        if code in ("s", "p"):
            g = Field(off, k, k, f.label, "%s#%d" % (f.site, j), f.ctx)
            g.code = code
            j += 1
            out.append(g)
            off += k
        elif code == "x":
            off += k
        elif code in _ITEM:
            for _ in range(k):
                g = Field(off, _ITEM[code], _ITEM[code], f.label, "%s#%d" % (f.site, j), f.ctx)
                g.code = code
                if code in ("f", "d"):
                    g.fmt = "float"
                out.append(g)
                off += _ITEM[code]
            j += 1
        else:
            return [f]
    if off != f.off + f.size:
        return [f]
    return out


class StructMap:
    """offsets of everything the real parser read"""

    def __init__(self, data: bytes, fields: list[Field], unmapped: int, seeks=()):
        self.data = data
        self.unmapped = unmapped
        fs = []
        for k, f in enumerate(fields):
            if f.got == 0 and f.size == 0:
                continue
            if f.fmt and f.fmt != "float":
                one = f.fmt.lstrip("<>!=@")
                if len(one) == 1 or (len(one) == 2 and one[0] == "1"):
                    f.code = one[-1]
            if f.fmt and f.fmt != "float" and f.got == f.size and f.size not in (1, 2, 4, 8):
                fs.extend(split_fmt(f))        # every item of a composite read_fmt is a field of its own
            else:
                fs.append(f)
        n = len(data)
        for k, f in enumerate(fs):
            raw = data[f.off:f.off + f.got]
            if f.got == f.size and f.size in (1, 2, 4, 8) and f.off + f.size <= n and f.fmt != "float":
                f.value = int.from_bytes(raw, "big")
                f.kind = "num"
                if f.size == 4 and raw in SIGNATURES:
                    f.kind = "sig"
                # a length: the next read on the same stream asks for exactly that many bytes right after the field
                for g in fs[k + 1:k + 3]:
                    if g.off == f.off + f.size and g.size == f.value and f.value > 0 and f.size >= 2:
                        f.kind = "len"
                        break
                    if g.off == f.off + f.size and f.value == 0 and f.size >= 4:
                        pass
            elif f.size <= 26 and f.got == f.size:
                f.kind = "fmt"
        # de-duplicate (the is_readable probes re-read the same bytes)
        seen, out = set(), []
        for f in fs:
            key = (f.off, f.size, f.kind)
            if key in seen:
                continue
            seen.add(key)
            out.append(f)
        self.fields = out
        self.nums = [f for f in out if f.kind in ("num", "len")]
        self.lens = [f for f in out if f.kind == "len"]
        self.sigs = [f for f in out if f.kind == "sig"]
        self.fmts = [f for f in out if f.kind == "fmt"]
        b = {0, n}
        for f in out:
            b.add(f.off)
            b.add(min(n, f.off + f.got))
        self.boundaries = sorted(b)
        # length-prefixed regions [start of the length field, end of the body)
        self.blocks = [(f.off, f.off + f.size + f.value, f.label) for f in self.lens if f.off + f.size + f.value <= n]
        self._payload_index(n, set(seeks))

    # ---- payload-level sites (descriptor-style keys, scalar leaves, length blocks with their enclosing blocks,
    # ---- opaque payloads): everything is derived from the recorded reads, nothing from the names of the readers
    def enclosing(self, lo, hi, but=None):
        """containers whose body holds [lo, hi), innermost first"""
        import bisect
        k = bisect.bisect_right(self._starts, lo)
        res = [c for c in self._cont_sorted[:k] if c[2] >= hi and c[0] is not but and c[0].off + c[0].size <= lo]
        res.sort(key=lambda c: c[2] - c[1])
        return res

    def _payload_index(self, n, seeks):
        import bisect
        out = self.fields
        by_off = sorted(out, key=lambda f: (f.off, -f.got))
        offs = [f.off for f in by_off]

        def inside(lo, hi, but=None):
            """is any recorded read strictly inside [lo, hi) (other than `but`)?"""
            k = bisect.bisect_left(offs, lo)
            while k < len(by_off) and by_off[k].off < hi:
                g = by_off[k]
                if g is not but and g.got > 0 and g.off + g.got <= hi and (g.off, g.got) != (lo, hi - lo):
                    return True
                k += 1
            return False

        # length fields: the detected ones, and in-place containers (value -> a later fp.seek(end, 0))
        cont = []
        for f in self.nums:
            if f.kind == "len":
                cont.append((f, f.off + f.size, f.off + f.size + f.value, False))
            elif f.size >= 2 and f.value and f.value > 0 and f.code not in ("f", "d"):
                end = f.off + f.size + f.value
                if end <= n and end in seeks and inside(f.off + f.size, end):
                    cont.append((f, f.off + f.size, end, True))
        cont = [c for c in cont if c[2] <= n]
        self.containers = cont
        self._cont_sorted = sorted(cont, key=lambda c: (c[1], -c[2]))
        self._starts = [c[1] for c in self._cont_sorted]
        # keys in the `length, bytes[length or 4]` idiom: a 4-byte number followed, in the same reader, by a raw read
        self.keys = []
        pos = {}
        for k, f in enumerate(out):
            pos.setdefault(f.off, []).append(f)
        for f in self.nums:
            if f.size != 4:
                continue
            want = f.value if f.value else 4
            for g in pos.get(f.off + 4, ()):
                if g is not f and g.fmt is None and g.got == g.size == want and g.label == f.label and g.size <= 64 \
                        and (g.site or "").split(":")[0] == (f.site or "").split(":")[0] \
                        and all(0x20 <= c < 0x7F for c in self.data[g.off:g.off + g.got]):
                    self.keys.append((f, g, bool(f.value)))
                    break
        keyoffs = {g.off for _, g, _ in self.keys} | {f.off for f, _, _ in self.keys}
        # scalar leaves (every numeric / float item that is not a key length, a signature or the header)
        self.scalars = [f for f in out if f.got == f.size and f.off not in keyoffs and
                        (f.kind in ("num", "len") or f.fmt == "float" or f.code in ("f", "d"))]
        # opaque payloads: raw reads nobody parsed through a nested stream
        self.opaque = [f for f in out if f.kind in ("data", "fmt") and f.fmt is None and f.got == f.size and f.got >= 8
                       and f.off not in keyoffs and not inside(f.off, f.off + f.got, f)]
        self.opaque_offs = {(f.off, f.got) for f in out if f.fmt is None and f.got == f.size and f.got > 0
                            and not inside(f.off, f.off + f.got, f)}


SKELETON = {"FileHeader", "ColorModeData", "ImageResources", "ImageResource", "LayerAndMaskInformation", "LayerInfo",
            "LayerRecords", "LayerRecord", "ChannelInfo", "LayerFlags", "MaskData", "MaskFlags", "MaskParameters",
            "LayerBlendingRanges", "ChannelImageData", "ChannelDataList", "ChannelData", "GlobalLayerMaskInfo",
            "TaggedBlocks", "TaggedBlock", "ImageData", "PSD", "LayerInfoBlock"}


def trace_parse(data: bytes):
    """-> (('ok', doc, tell) | ('err', class, None), StructMap)"""
    global _cur
    from psd_tools.psd import PSD
    t = _Trace(data)
    _cur = t
    io.BytesIO = _TBytesIO
    struct.unpack = _t_unpack
    try:
        try:
            with warnings.catch_warnings():
                warnings.simplefilter("ignore")
                fp = _TBytesIO(data)
                doc = PSD.read(fp)
                res = ("ok", doc, fp.tell())
        except RecursionError:
            res = ("err", "RecursionError", None)
        except Exception as e:  # noqa
            res = ("err", core.err_class(e), None)
    finally:
        io.BytesIO = _RealBytesIO
        struct.unpack = _real_unpack
        _cur = None
    return res, StructMap(data, t.fields, t.unmapped, t.seeks)


# ---------------------------------------------------------------------------------------------
# mutation engine (all randomness from the caller's rng; mutants are (bytes, recipe) pairs; recipe["edits"] rebuilds
# the bytes from the fixture, so that only the recipe has to travel to a worker process)
# ---------------------------------------------------------------------------------------------
def apply_edits(base: bytes, edits, get_bytes=None) -> bytes:
    """edits: ["put", off, hex] | ["cut", n] | ["rep", s, e, hex | ["fx", name, ds, de] | ["self", ds, de]]"""
    b = base
    for ed in edits:
        if ed[0] == "put":
            raw = bytes.fromhex(ed[2])
            b = b[:ed[1]] + raw + b[ed[1] + len(raw):]
        elif ed[0] == "cut":
            b = b[:ed[1]]
        elif ed[0] == "rep":
            src = ed[3]
            if isinstance(src, str):
                raw = bytes.fromhex(src)
            elif src[0] == "self":
                raw = base[src[1]:src[2]]
            else:
                raw = get_bytes(src[1])[src[2]:src[3]]
            b = b[:ed[1]] + raw + b[ed[2]:]
        else:
            raise ValueError(ed)
    return b


def num_variants(f: Field):
    """(name, new value) for a numeric field"""
    m = 256 ** f.size
    v = f.value
    out = [("+1", (v + 1) % m), ("-1", (v - 1) % m), ("+2", (v + 2) % m), ("-2", (v - 2) % m), ("x2", (v * 2) % m),
           ("max", m - 1), ("zero", 0), ("half", v // 2), ("signbit", v ^ (m >> 1))]
    if f.size >= 2:
        out += [("+4", (v + 4) % m), ("-4", (v - 4) % m), ("max-1", m - 2), ("smax", (m >> 1) - 1)]
    return [(nm, x) for nm, x in out if x != v]


def _num_edit(f: Field, name: str, val: int):
    return ["put", f.off, val.to_bytes(f.size, "big").hex()], {"op": "num", "off": f.off, "size": f.size,
                                                                "label": f.label, "kind": f.kind, "how": name}


def mutate_num(b: bytes, f: Field, name: str, val: int):
    ed, rec = _num_edit(f, name, val)
    rec["edits"] = [ed]
    return apply_edits(b, [ed]), rec


def mutate_bitflip(b: bytes, off: int, bit: int, label="?"):
    ed = ["put", off, bytes([b[off] ^ (1 << bit)]).hex()]
    return apply_edits(b, [ed]), {"op": "bit", "off": off, "bit": bit, "label": label, "edits": [ed]}


def gen_mutants(rng, sm: StructMap, donors: list, n: int, skeleton_bias=0.7, with_bytes=True):
    """n structure-aware mutants of sm.data -> [(bytes | None, recipe)].
    donors: [(name, bytes, StructMap)] (or (bytes, StructMap)) for splices."""
    b = sm.data
    out = []
    skel_nums = [f for f in sm.nums if f.label in SKELETON]
    other_nums = [f for f in sm.nums if f.label not in SKELETON]
    skel_any = [f for f in sm.fields if f.label in SKELETON and f.got > 0 and f.kind != "data"]
    other_any = [f for f in sm.fields if f.label not in SKELETON and f.got > 0]
    dmap = {}
    dlist = []
    for dn in donors:
        if len(dn) == 3:
            dmap[dn[0]] = dn[1]
            dlist.append(dn)
        else:
            nm = "donor%d" % len(dlist)
            dmap[nm] = dn[0]
            dlist.append((nm, dn[0], dn[1]))

    def pick(a, c):
        if a and (not c or rng.random() < skeleton_bias):
            return rng.choice(a)
        return rng.choice(c) if c else None

    def emit(edits, rec):
        rec["edits"] = edits
        out.append((apply_edits(b, edits, dmap.get) if with_bytes else None, rec))

    ops = ["num"] * 40 + ["bit"] * 14 + ["byte"] * 10 + ["multi"] * 8 + ["trunc"] * 8 + ["splice"] * 8 + ["dup"] * 4 + \
          ["del"] * 4 + ["two"] * 6
    for _ in range(n):
        op = rng.choice(ops)
        if op == "num":
            f = pick(skel_nums, other_nums)
            if f is None:
                continue
            nm, v = rng.choice(num_variants(f))
            ed, rec = _num_edit(f, nm, v)
            emit([ed], rec)
        elif op == "bit":
            f = pick(skel_any, other_any)
            if f is None:
                continue
            off = f.off + rng.randrange(max(1, min(f.got, 26)))
            if off < len(b):
                bit = rng.randrange(8)
                emit([["put", off, bytes([b[off] ^ (1 << bit)]).hex()]], {"op": "bit", "off": off, "bit": bit, "label": f.label})
        elif op == "byte":
            f = pick(skel_any, other_any)
            if f is None:
                continue
            off = f.off + rng.randrange(max(1, min(f.got, 26)))
            if off < len(b):
                v = rng.choice([0, 1, 0x7F, 0x80, 0xFF, rng.randrange(256), 0x38, 0x40])
                if v != b[off]:
                    emit([["put", off, bytes([v]).hex()]], {"op": "byte", "off": off, "val": v, "label": f.label})
        elif op == "multi":
            f = pick(skel_any, other_any)
            if f is None:
                continue
            k = min(f.got, rng.choice([2, 3, 4, 8]))
            raw = bytes(rng.choice([0, 0xFF, rng.randrange(256)]) for _ in range(k))
            if b[f.off:f.off + k] != raw:
                emit([["put", f.off, raw.hex()]], {"op": "multi", "off": f.off, "raw": raw.hex(), "label": f.label})
        elif op == "two":
            f1, f2 = pick(skel_nums, other_nums), pick(skel_nums, other_nums)
            if f1 is None or f2 is None or f1.off == f2.off:
                continue
            n1, v1 = rng.choice(num_variants(f1))
            n2, v2 = rng.choice(num_variants(f2))
            e1, r1 = _num_edit(f1, n1, v1)
            e2, r2 = _num_edit(f2, n2, v2)
            emit([e1, e2], {"op": "two", "a": r1, "b": r2, "label": f1.label})
        elif op == "trunc":
            cut = rng.choice(sm.boundaries)
            if rng.random() < 0.3:
                cut = max(0, min(len(b), cut + rng.choice([-2, -1, 1, 2])))
            if cut != len(b):
                emit([["cut", cut]], {"op": "trunc", "at": cut, "label": "boundary"})
        elif op == "splice" and dlist and sm.blocks:
            s, e, lab = rng.choice(sm.blocks)
            dname, db, dm = rng.choice(dlist)
            cands = [x for x in dm.blocks if x[2] == lab and x[1] - x[0] <= 200000] or \
                    [x for x in dm.blocks if x[1] - x[0] <= 200000]
            if not cands:
                continue
            ds, de, dl = rng.choice(cands)
            emit([["rep", s, e, ["fx", dname, ds, de]]], {"op": "splice", "at": s, "end": e, "label": lab,
                                                          "donor": dname, "donor_label": dl, "donor_len": de - ds})
        elif op == "dup" and sm.blocks:
            s, e, lab = rng.choice(sm.blocks)
            if e - s <= 200000:
                emit([["rep", e, e, ["self", s, e]]], {"op": "dup", "at": s, "end": e, "label": lab})
        elif op == "del" and sm.blocks:
            s, e, lab = rng.choice(sm.blocks)
            emit([["rep", s, e, ""]], {"op": "del", "at": s, "end": e, "label": lab})
    return out


def exhaustive_len_mutants(sm: StructMap, hows=("+1", "-1", "+2", "-2", "x2", "max")):
    """every length / count / numeric field of 2, 4 or 8 bytes read by a skeleton class x the given variants"""
    out = []
    for f in sm.nums:
        if f.label not in SKELETON or f.size < 2:
            continue
        for nm, v in num_variants(f):
            if nm in hows:
                ed, rec = _num_edit(f, nm, v)
                rec["op"] = "len-all"
                rec["edits"] = [ed]
                out.append((None, rec))
    return out


def boundary_truncations(sm: StructMap, skeleton_only=True):
    """truncation at the start and at the end of every length-prefixed block"""
    cuts = set()
    for s_, e_, lab in sm.blocks:
        if skeleton_only and lab not in SKELETON:
            continue
        cuts.add(s_)
        cuts.add(e_)
    n = len(sm.data) if sm.data is not None else None
    return [(None, {"op": "trunc-all", "at": c, "label": "boundary", "edits": [["cut", c]]})
            for c in sorted(cuts) if n is None or c < n]


# ---------------------------------------------------------------------------------------------
# payload-level mutation sites and their deterministic variants
# ---------------------------------------------------------------------------------------------
def payload_sites(sm: StructMap):
    """-> list of plain dicts (picklable).  `feat` identifies the reader statement (and its caller) that consumed the
    bytes: the caller picks a few sites per feature over all fixtures, so that every read statement of every payload
    class that occurs in some fixture is exercised, however rare."""
    out = []
    for lf, kf, explicit in sm.keys:
        out.append({"k": "key", "feat": ("key", kf.ctx or kf.site, kf.size if explicit else 0), "off": kf.off,
                    "size": kf.size, "explicit": explicit, "label": kf.label, "lenoff": lf.off})
    for f in sm.scalars:
        if f.off < 26:
            continue
        isf = f.fmt == "float" or f.code in ("f", "d")
        out.append({"k": "num", "feat": ("num", f.site, f.ctx, f.size, isf), "off": f.off, "size": f.size,
                    "float": isf, "label": f.label})
    for f, b0, b1, inplace in sm.containers:
        enc = sm.enclosing(f.off, b1, f)
        opaque = (b0, b1 - b0) in sm.opaque_offs or b1 == b0
        out.append({"k": "block", "feat": ("block", f.site, f.ctx, "opaque" if opaque else "parsed",
                                            "inplace" if inplace else "read"),
                    "lenoff": f.off, "lensize": f.size, "b0": b0, "b1": b1, "opaque": opaque, "label": f.label,
                    "off": f.off, "encl": [(g.off, g.size, g.value, e1) for g, _, e1, _ in enc]})
    for f in sm.opaque:
        out.append({"k": "opaque", "feat": ("opaque", f.site, f.ctx), "off": f.off, "size": f.got, "label": f.label})
    return out


def terminology_terms():
    """every value of every enum of psd_tools.terminology, grouped by length (empty when the module moved)"""
    import enum
    by_len = {}
    try:
        import psd_tools.terminology as T
        for obj in vars(T).values():
            if isinstance(obj, type) and issubclass(obj, enum.Enum):
                for it in obj:
                    if isinstance(it.value, bytes):
                        by_len.setdefault(len(it.value), set()).add(it.value)
    except Exception:  # noqa
        pass
    return {k: sorted(v) for k, v in by_len.items()}


def non_terms(n: int):
    """byte strings of length n that are no terminology value (checked by the caller)"""
    base = [b"Zq" + b"x" * max(0, n - 2), b"z" * n, b"Q" + b" " * max(0, n - 1), (b"notATerm" * 9)[:n]]
    return [x[:n] for x in base if len(x[:n]) == n]


def key_variants(site, data, terms, rng=None, n_rand=6):
    """same-length substitutions of a key: every terminology term of that length (a sample of them for the 4-byte
    ones) and non-terms -> [(name, edits)]"""
    n, off = site["size"], site["off"]
    cur = data[off:off + n]
    pool = [t for t in terms.get(n, []) if t != cur]
    if len(pool) > n_rand + 2:
        # deterministic extremes first, then a sample
        pick = [pool[0], pool[-1]] + (rng.sample(pool[1:-1], n_rand) if rng is not None else pool[1:1 + n_rand])
    else:
        pick = pool
    out = [("term:" + t.decode("latin1"), [["put", off, t.hex()]]) for t in pick]
    tset = set(terms.get(n, []))
    for t in non_terms(n)[:2]:
        if t != cur and t not in tset:
            out.append(("nonterm:" + t.decode("latin1"), [["put", off, t.hex()]]))
    return out


_FLOAT_PATS = {4: (("f:1.0", "3f800000"), ("f:inf", "7f800000"), ("f:-1.5", "bfc00000")),
               8: (("f:1.0", "3ff0000000000000"), ("f:inf", "7ff0000000000000"), ("f:-1.5", "bff8000000000000"))}


def scalar_variants(site, data):
    """boundary values for a scalar leaf: 0, 1, max, sign bit, signed max (as bytes: for a float these are 0.0, the
    smallest denormal, NaN, -0.0 and NaN; 1.0, inf and -1.5 are added) -> [(name, edits)]"""
    n, off = site["size"], site["off"]
    cur = data[off:off + n]
    pats = [("zero", b"\0" * n), ("one", b"\0" * (n - 1) + b"\1"), ("max", b"\xff" * n),
            ("signbit", b"\x80" + b"\0" * (n - 1))]
    if n > 1:
        pats.append(("smax", b"\x7f" + b"\xff" * (n - 1)))
    if site.get("float") and n in _FLOAT_PATS:
        pats += [(nm, bytes.fromhex(h)) for nm, h in _FLOAT_PATS[n]]
    return [(nm, [["put", off, raw.hex()]]) for nm, raw in pats if raw != cur]


def block_variants(site, ks=(1, 2, 3, 4)):
    """length-changing splices of one length block, the enclosing lengths kept valid either by compensation (the bytes
    taken out of the block are put back as filler at the end of the block that encloses it: nothing above changes)
    or by fixing up every enclosing length field -> [(name, edits)], edits ordered from the highest offset down"""
    lo, ls, b0, b1 = site["lenoff"], site["lensize"], site["b0"], site["b1"]
    v = b1 - b0
    enc = site["encl"]
    m = 256 ** ls
    out = []

    def fix(delta):
        eds = []
        for eo, es, ev, _ in enc:
            nv = ev + delta
            if nv < 0 or nv >= 256 ** es:
                return None
            eds.append(["put", eo, nv.to_bytes(es, "big").hex()])
        return eds

    for k in ks:
        if k <= v:
            own = ["put", lo, (v - k).to_bytes(ls, "big").hex()]
            if enc:
                e1 = enc[0][3]
                out.append(("shrink%d+filler" % k, [["rep", e1, e1, "00" * k], ["rep", b1 - k, b1, ""], own]))
            fx = fix(-k)
            if fx is not None:
                out.append(("shrink%d+fixup" % k, [["rep", b1 - k, b1, ""]] + sorted([own] + fx, key=lambda e: -e[1])))
        if v + k < m:
            own = ["put", lo, (v + k).to_bytes(ls, "big").hex()]
            fx = fix(k)
            if fx is not None:
                out.append(("grow%d+fixup" % k, [["rep", b1, b1, "00" * k]] + sorted([own] + fx, key=lambda e: -e[1])))
    if site.get("opaque") and v > 4 and enc:
        e1 = enc[0][3]
        out.append(("empty+filler", [["rep", e1, e1, "00" * v], ["rep", b0, b1, ""], ["put", lo, (0).to_bytes(ls, "big").hex()]]))
    return out


def choose_sites(per_fixture, k, order=None):
    """per_fixture: {name: [site, ...]} -> [(name, site)]: for every feature the first k sites, fixtures taken in
    `order` (smallest first) and at most one site per (feature, fixture) until every fixture with it had its turn"""
    names = order or sorted(per_fixture)
    by_feat = {}
    for nm in names:
        seen_here = {}
        for s in per_fixture.get(nm, ()):
            seen_here.setdefault(s["feat"], []).append(s)
        for ft, lst in seen_here.items():
            if len(lst) > 2:
                lst = [lst[0], lst[-1]] + lst[1:-1]          # first, last, then the ones in between
            by_feat.setdefault(ft, []).append((nm, lst))
    out = []
    for ft in sorted(by_feat, key=repr):
        groups = by_feat[ft]
        picked, rnd = [], 0
        while len(picked) < k:
            took = False
            for nm, lst in groups:
                if rnd < len(lst) and len(picked) < k:
                    picked.append((nm, lst[rnd]))
                    took = True
            if not took:
                break
            rnd += 1
        seen, uniq = set(), []
        for nm, s_ in picked:
            if (nm, s_["off"], s_["k"]) not in seen:
                seen.add((nm, s_["off"], s_["k"]))
                uniq.append((nm, s_))
        out += uniq
    return out


# ---------------------------------------------------------------------------------------------
# structure-level leaf mutation: parse, change a leaf, write
# ---------------------------------------------------------------------------------------------
def _leaves(x, path, out, depth=0):
    import attr
    import enum
    if depth > 9 or len(out) > 4000:
        return
    if attr.has(type(x)):
        for f in attr.fields(type(x)):
            v = getattr(x, f.name)
            if isinstance(v, (bool, int, float, bytes, str, enum.Enum)) or v is None:
                out.append((x, f.name, path + "." + f.name))
            else:
                _leaves(v, path + "." + f.name, out, depth + 1)
    elif isinstance(x, (list, tuple)):
        for k, v in enumerate(list(x)[:40]):
            _leaves(v, f"{path}[{k}]", out, depth + 1)
    elif hasattr(x, "keys") and hasattr(x, "__getitem__"):
        for k in list(x.keys())[:40]:
            try:
                _leaves(x[k], f"{path}[{k!r}]", out, depth + 1)
            except Exception:  # noqa
                pass


def leaf_mutant(rng, data: bytes):
    """-> (bytes, recipe) or None: parse `data`, set one scalar leaf to an extreme, write"""
    import enum
    from psd_tools.psd import PSD
    with warnings.catch_warnings():
        warnings.simplefilter("ignore")
        try:
            doc = PSD.read(_RealBytesIO(data))
        except Exception:  # noqa
            return None
        out = []
        _leaves(doc, "psd", out)
        if not out:
            return None
        for _ in range(6):
            obj, name, path = rng.choice(out)
            v = getattr(obj, name)
            if isinstance(v, bool):
                nv = not v
            elif isinstance(v, enum.Enum):
                continue
            elif isinstance(v, int):
                nv = rng.choice([0, 1, 2, 255, 256, 32767, 65535, -1, -32768, v + 1, v - 1, 2 ** 31 - 1, 2 ** 32 - 1])
            elif isinstance(v, float):
                nv = rng.choice([0.0, -0.0, 1.0, -1.5, 1e300, float("inf"), 5e-324])
            elif isinstance(v, bytes):
                nv = rng.choice([b"", b"\x00", v + b"\x00", v[:-1], v * 2 if len(v) < 5000 else v, b"8BIM", b"\xff" * 5])
            elif isinstance(v, str):
                nv = rng.choice(["", "a", v + "x", v[:-1], "é", "x" * 255, "x" * 33])
            elif v is None:
                continue
            else:
                continue
            if nv == v:
                continue
            try:
                setattr(obj, name, nv)
                f = _RealBytesIO()
                doc.write(f)
                return f.getvalue(), {"op": "leaf", "path": path, "new": repr(nv)[:60], "label": type(obj).__name__}
            except Exception:  # noqa
                return None
    return None


LEAF_HOWS = {"int": ("zero", "one", "minus1", "255", "256", "65535", "smax32", "umax32", "plus1"),
             "float": ("0.0", "-0.0", "1.0", "inf", "denorm"),
             "bytes": ("empty", "drop-last", "append-nul", "drop-first"),
             "str": ("empty", "drop-last", "append-x", "non-ascii"),
             "bool": ("flip",), "enum": ("first", "last", "next")}


def _leaf_type(v):
    import enum
    if isinstance(v, bool):
        return "bool"
    if isinstance(v, enum.Enum):
        return "enum"
    for t, nm in ((int, "int"), (float, "float"), (bytes, "bytes"), (str, "str")):
        if isinstance(v, t):
            return nm
    return None


def _leaf_paths(x, path, out, depth=0):
    import attr
    if depth > 10 or len(out) > 6000:
        return
    if attr.has(type(x)):
        for f in attr.fields(type(x)):
            v = getattr(x, f.name)
            t = _leaf_type(v)
            if t is not None:
                out.append({"path": path + [["a", f.name]], "cls": type(x).__name__, "field": f.name, "type": t})
            elif v is not None:
                _leaf_paths(v, path + [["a", f.name]], out, depth + 1)
    elif isinstance(x, (list, tuple)):
        for k, v in enumerate(list(x)[:40]):
            t = _leaf_type(v)
            if t is not None and isinstance(x, list):
                out.append({"path": path + [["i", k]], "cls": "list", "field": "item", "type": t})
            else:
                _leaf_paths(v, path + [["i", k]], out, depth + 1)
    elif hasattr(x, "keys") and hasattr(x, "__getitem__"):
        for k, key in enumerate(list(x.keys())[:60]):
            try:
                _leaf_paths(x[key], path + [["k", k]], out, depth + 1)
            except Exception:  # noqa
                pass


def leaf_sites(data: bytes):
    """every scalar leaf of the parsed document -> [{"path", "cls", "field", "type", "feat"}] ([] when rejected)"""
    from psd_tools.psd import PSD
    with warnings.catch_warnings():
        warnings.simplefilter("ignore")
        try:
            doc = PSD.read(_RealBytesIO(data))
        except Exception:  # noqa
            return []
    out = []
    _leaf_paths(doc, [], out)
    for s_ in out:
        # the class of the nearest attrs ancestor is part of the feature for list items
        s_["feat"] = ("leaf", s_["cls"], s_["field"], s_["type"], len(s_["path"]) if s_["cls"] == "list" else 0)
    return out


def _resolve(doc, path):
    """-> (container, step) of the last step"""
    x = doc
    for st in path[:-1]:
        x = _step(x, st)
    return x, path[-1]


def _step(x, st):
    if st[0] == "a":
        return getattr(x, st[1])
    if st[0] == "i":
        return x[st[1]]
    return x[list(x.keys())[st[1]]]


def leaf_set(data: bytes, path, how):
    """parse `data`, set the leaf at `path` to the boundary value named `how`, write with the real writer
    -> (bytes, description) or None (rejected / not applicable / the writer refuses the value)"""
    import enum
    from psd_tools.psd import PSD
    with warnings.catch_warnings():
        warnings.simplefilter("ignore")
        try:
            doc = PSD.read(_RealBytesIO(data))
            box, st = _resolve(doc, path)
            v = _step(box, st)
        except Exception:  # noqa
            return None
        t = _leaf_type(v)
        nv = v
        if t == "bool":
            nv = not v
        elif t == "enum":
            mem = list(type(v))
            nv = {"first": mem[0], "last": mem[-1], "next": mem[(mem.index(v) + 1) % len(mem)]}.get(how, v)
        elif t == "int":
            nv = {"zero": 0, "one": 1, "minus1": -1, "255": 255, "256": 256, "65535": 65535, "smax32": 2 ** 31 - 1,
                  "umax32": 2 ** 32 - 1, "plus1": v + 1}.get(how, v)
        elif t == "float":
            nv = {"0.0": 0.0, "-0.0": -0.0, "1.0": 1.0, "inf": float("inf"), "denorm": 5e-324}.get(how, v)
            if struct.pack(">d", nv) == struct.pack(">d", v):
                return None
        elif t == "bytes":
            nv = {"empty": b"", "drop-last": v[:-1], "append-nul": v + b"\0", "drop-first": v[1:]}.get(how, v)
        elif t == "str":
            nv = {"empty": "", "drop-last": v[:-1], "append-x": v + "x", "non-ascii": v + "\u00e9"}.get(how, v)
        else:
            return None
        if t != "float" and (nv == v and type(nv) is type(v)):
            return None
        try:
            if st[0] == "a":
                setattr(box, st[1], nv)
            elif st[0] == "i":
                box[st[1]] = nv
            else:
                return None
            f = _RealBytesIO()
            doc.write(f)
        except Exception:  # noqa
            return None
        return f.getvalue(), "%s := %s" % (".".join(str(x[1]) for x in path), repr(nv)[:50])


# ---------------------------------------------------------------------------------------------
# the re-save oracle (Python only)
# ---------------------------------------------------------------------------------------------
def _eq(a, b, path, diffs, depth=0):
    """structural equality; floats by bit pattern (NaN == NaN), path of the first differences recorded"""
    import attr
    import enum
    if len(diffs) >= 3:
        return
    if a is b:
        return
    ta, tb = type(a), type(b)
    if isinstance(a, float) and isinstance(b, float):
        if struct.pack(">d", a) != struct.pack(">d", b) and not (a != a and b != b):
            diffs.append(path)
        return
    if ta is not tb:
        if isinstance(a, enum.Enum) or isinstance(b, enum.Enum):
            if getattr(a, "value", a) != getattr(b, "value", b):
                diffs.append(path + ":" + ta.__name__ + "/" + tb.__name__)
            return
        if isinstance(a, (list, tuple)) and isinstance(b, (list, tuple)):
            pass
        else:
            diffs.append(path + ":" + ta.__name__ + "/" + tb.__name__)
            return
    if attr.has(ta) and attr.has(tb):
        for f in attr.fields(ta):
            _eq(getattr(a, f.name), getattr(b, f.name, None), path + "." + f.name.lstrip("_"), diffs, depth + 1)
        return
    if isinstance(a, (list, tuple)):
        if len(a) != len(b):
            diffs.append(path + ":len")
            return
        for k, (x, y) in enumerate(zip(a, b)):
            _eq(x, y, f"{path}[]", diffs, depth + 1)
        return
    if isinstance(a, dict) or (hasattr(a, "keys") and hasattr(a, "__getitem__") and not isinstance(a, (bytes, str))):
        ka, kb = list(a.keys()), list(b.keys())
        if ka != kb:
            diffs.append(path + ":keys")
            return
        for k in ka:
            _eq(a[k], b[k], f"{path}[{getattr(k, 'name', k)!s}]", diffs, depth + 1)
        return
    try:
        same = (a == b)
        if hasattr(same, "all"):
            same = bool(same.all())
    except Exception:  # noqa
        same = False
    if not same:
        diffs.append(path)


def struct_diff(a, b):
    diffs: list[str] = []
    _eq(a, b, "psd", diffs)
    return diffs


def _read(data: bytes):
    from psd_tools.psd import PSD
    fp = _RealBytesIO(data)
    d = PSD.read(fp)
    return d, fp.tell()


def _write(doc):
    f = _RealBytesIO()
    n = doc.write(f)
    return f.getvalue(), n


def _layer_infos(doc):
    from psd_tools.psd.layer_and_mask import LayerInfo
    lam = doc.layer_and_mask_information
    out = []
    if lam.layer_info is not None:
        out.append(lam.layer_info)
    tb = lam.tagged_blocks
    if tb is not None:
        for k in list(tb.keys()):
            d = tb[k].data
            if isinstance(d, LayerInfo):
                out.append(d)
    return out


def _channel_lengths(doc):
    out = []
    for li in _layer_infos(doc):
        for r in (li.layer_records or []):
            out.append([c.length for c in r.channel_info])
    return out


def mechanisms(doc):
    """accepted shapes the model proves unstable (Props/C02.lean `MaskData.Stable`): a layer mask without real
    fields whose body is 18 + 17 bytes (both feathers, no densities) - the writer pads it to 36 bytes, which are read
    as real-mask fields"""
    out = []
    for li in _layer_infos(doc):
        for r in (li.layer_records or []):
            m = r.mask_data
            if m is None or m.real_flags is not None or not m.flags.parameters_applied or m.parameters is None:
                continue
            q = m.parameters
            n = 1 + (q.user_mask_density is not None) + 8 * (q.user_mask_feather is not None) + \
                (q.vector_mask_density is not None) + 8 * (q.vector_mask_feather is not None)
            if 18 + n > 32:
                out.append("mask-data/no-real-fields-body-%d-bytes" % (18 + n))
    return sorted(set(out))


def _where(e):
    """innermost psd_tools frame of the traceback of `e` that is not in utils: 'module.Class.function'"""
    import traceback
    best = None
    for fr, _ln in traceback.walk_tb(e.__traceback__):
        fn = fr.f_code.co_filename
        if "psd_tools" in fn and not fn.startswith("<"):
            mod = fn.rsplit("/", 1)[-1][:-3]
            if mod == "utils" and best is not None:
                continue
            cls = fr.f_locals.get("cls")
            if cls is None and "self" in fr.f_locals:
                cls = type(fr.f_locals["self"])
            best = ".".join(x for x in (mod, getattr(cls, "__name__", None), fr.f_code.co_name) if x)
    return best or "?"


def resave_oracle(data: bytes):
    """The property itself on the real code.
    -> ('rejected', class) | ('ok', info) | ('fail', stage, detail, info)"""
    with warnings.catch_warnings():
        warnings.simplefilter("ignore")
        try:
            d0, tell0 = _read(data)
        except RecursionError:
            return ("rejected", "RecursionError")
        except Exception as e:  # noqa
            return ("rejected", core.err_class(e))
        info = {"len": len(data)}
        mech = mechanisms(d0)
        if mech:
            info["mechanisms"] = mech
        before = _channel_lengths(d0)
        try:
            w1, n1 = _write(d0)
        except Exception as e:  # noqa
            info["where"] = _where(e)
            return ("fail", "write-raises", core.err_class(e) + ": " + str(e)[:120], info)
        if n1 != len(w1):
            return ("fail", "written-count", f"write returned {n1}, emitted {len(w1)}", info)
        info["resaved_len"] = len(w1)
        info["lengths_refreshed"] = (_channel_lengths(d0) != before)
        info["identical_to_input"] = (w1 == data)
        try:
            d1, tell1 = _read(w1)
        except Exception as e:  # noqa
            info["where"] = _where(e)
            return ("fail", "reread-raises", core.err_class(e) + ": " + str(e)[:120], info)
        # d0 is the in-memory structure AFTER the save (channel lengths refreshed in place by the writer)
        diffs = struct_diff(d0, d1)
        try:
            w2, _ = _write(d1)
        except Exception as e:  # noqa
            info["where"] = _where(e)
            return ("fail", "rewrite-raises", core.err_class(e) + ": " + str(e)[:120], info)
        if w2 != w1:
            k = next((i for i, (x, y) in enumerate(zip(w1, w2)) if x != y), min(len(w1), len(w2)))
            return ("fail", "second-save-differs", {"first_diff_at": k, "len1": len(w1), "len2": len(w2), "struct": diffs}, info)
        if diffs:
            return ("fail", "reread-differs", diffs, info)
        return ("ok", info)


def classify(res):
    """failing oracle result -> signature `C02/<section>/<mechanism>`"""
    stage, detail = res[1], res[2]
    info = res[3] if len(res) > 3 else {}
    if info.get("mechanisms"):
        return f"C02/{info['mechanisms'][0]}/{stage}"
    if stage in ("reread-differs", "second-save-differs"):
        diffs = detail if stage == "reread-differs" else detail.get("struct") or []
        if diffs:
            p = diffs[0]
            import re
            p = re.sub(r"\[\]", "", p)
            p = re.sub(r"\[[^\]]*\]", "[k]", p)
            p = p.replace("psd.", "")
            return f"C02/{p}/{stage}"
        return f"C02/bytes-only/{stage}"
    if isinstance(detail, str):
        if info.get("where"):
            return f"C02/{stage}/{detail.split(':')[0]}/{info['where']}"
        return f"C02/{stage}/{detail.split(':')[0]}"
    return f"C02/{stage}"


# ---------------------------------------------------------------------------------------------
# signature fields: the accepted alternatives, regenerated from the source
# ---------------------------------------------------------------------------------------------
SIGNATURES = (b"8BIM", b"8B64", b"8BPS", b"MeSa", b"AgHg", b"PHUT", b"DCSR")     # fallback when the scan finds nothing
CONSULTED = frozenset()        # 4-byte keys of the blocks the writer's fallback rules test (set by the caller before forking)


def signature_alternatives():
    """Every 4-byte signature some reader of psd_tools.psd compares against or validates with, from the source of the
    working tree: (a) the `in_((...))` validators of attributes named *signature* (live classes), (b) class attributes
    whose name contains SIGNATURE, (c) the constants of every comparison (`==`, `!=`, `in`, `not in`) one side of which
    mentions a name containing `signature`, (d) the default of such an attribute.  -> (sorted tuple, {where: [sigs]})"""
    import ast
    found = {}

    def add(where, val):
        if isinstance(val, (bytes, bytearray)) and len(val) == 4:
            found.setdefault(where, set()).add(bytes(val))

    root = core.REPO / "src" / "psd_tools" / "psd"
    for path in sorted(root.rglob("*.py")):
        try:
            tree = ast.parse(path.read_text())
        except (OSError, SyntaxError):
            continue
        mod = path.stem

        def consts(node):
            return [n.value for n in ast.walk(node) if isinstance(n, ast.Constant) and isinstance(n.value, bytes)]

        for n in ast.walk(tree):
            if isinstance(n, ast.Compare):
                sides = [n.left] + list(n.comparators)
                if any("signature" in ast.unparse(s_).lower() for s_ in sides):
                    for s_ in sides:
                        for c in consts(s_):
                            add(mod + ":compare", c)
            elif isinstance(n, (ast.Assign, ast.AnnAssign)):
                tg = n.targets if isinstance(n, ast.Assign) else [n.target]
                names = [t.id for t in tg if isinstance(t, ast.Name)]
                if n.value is not None and any("signature" in x.lower() for x in names):
                    for c in consts(n.value):
                        add(mod + ":" + names[0], c)
    try:
        import attr
        import importlib
        import inspect
        for path in sorted(root.rglob("*.py")):
            modname = "psd_tools.psd." + ".".join(path.relative_to(root).with_suffix("").parts)
            if modname.endswith("__init__"):
                modname = modname[:-9]
            try:
                m = importlib.import_module(modname)
            except Exception:  # noqa
                continue
            for _, cls in inspect.getmembers(m, inspect.isclass):
                if cls.__module__ != m.__name__ or not attr.has(cls):
                    continue
                for f in attr.fields(cls):
                    if "signature" in f.name.lower():
                        add(cls.__name__ + ".default", f.default)
                        for o in (getattr(f.validator, "options", None) or ()):
                            add(cls.__name__ + ".validator", o)
    except Exception:  # noqa
        pass
    allsigs = set()
    for v in found.values():
        allsigs |= v
    if not allsigs:
        allsigs = set(SIGNATURES)
    return tuple(sorted(allsigs)), {k: sorted(x.decode("latin1") for x in v) for k, v in sorted(found.items())}


def sig_mutants(sm: StructMap, sigs, cap=None):
    """every signature field of the map x every other accepted signature -> [(None, recipe)];
    cap: at most that many sites per (reader class, reader statement, current value, following key)"""
    sites = []
    for f in sm.sigs:
        nxt = sm.data[f.off + 4:f.off + 8] if sm.data is not None else b""
        sites.append({"feat": (f.label, f.site, f.ctx, bytes(sm.data[f.off:f.off + 4]), bytes(nxt)), "f": f})
    if cap is not None:
        sites = _thin_sites(sites, cap)
    out = []
    for s_ in sites:
        f = s_["f"]
        cur = bytes(sm.data[f.off:f.off + 4])
        for alt in sigs:
            if alt != cur:
                out.append((None, {"op": "sig-alt", "off": f.off, "label": f.label, "site": f.site,
                                   "how": "%s->%s" % (cur.decode("latin1"), alt.decode("latin1")),
                                   "next": sm.data[f.off + 4:f.off + 8].decode("latin1"),
                                   "edits": [["put", f.off, alt.hex()]]}))
    return out


def _thin_sites(sites, cap):
    by = {}
    for s_ in sites:
        by.setdefault(s_["feat"], []).append(s_)
    out = []
    for lst in by.values():
        if len(lst) > cap:
            idx = sorted({0, len(lst) - 1} | {(k * (len(lst) - 1)) // max(1, cap - 1) for k in range(cap)})[:cap]
            lst = [lst[k] for k in idx]
        out += lst
    return out


# ---------------------------------------------------------------------------------------------
# short length-prefixed fields (1- and 2-byte length: Pascal strings, ...): boundary lengths of the field width
# ---------------------------------------------------------------------------------------------
def boundary_lengths(width: int):
    """lengths a `width`-byte length field can hold, at its boundaries: 0, 1, around the powers of two where writers keep
    fallback / truncation rules (2^k - 1, 2^k for k = 2, 5, 7 and, for two bytes, 8, 15), max - 1, max"""
    m = 256 ** width - 1
    ks = (2, 5, 7) if width == 1 else (2, 5, 7, 8, 15)
    return sorted({0, 1, m - 1, m} | {x for k in ks for x in (2 ** k - 1, 2 ** k) if x <= m})


def short_len_sites(sm: StructMap):
    """length fields of 1 or 2 bytes followed by exactly that many raw bytes (and possibly by a padding read of up to 3
    zero bytes): -> [{"off", "width", "len", "pad", "end", "label", "site", "ctx", "feat", "encl"}]"""
    by_off = {}
    for f in sm.fields:
        by_off.setdefault(f.off, []).append(f)
    data = sm.data
    out = []
    for f in sm.fields:
        if f.kind not in ("num", "len") or f.size not in (1, 2) or f.got != f.size or f.code not in ("B", "H") \
                or "#" in (f.site or ""):          # an item of a composite struct is not a length prefix
            continue
        body_end = f.off + f.size + f.value
        if f.value:
            if not any(g.size == g.got == f.value and g.fmt is None and g.code is None and g.label == f.label
                       for g in by_off.get(f.off + f.size, ())):
                continue
        elif f.size != 1:
            continue
        pad = 0
        for h in by_off.get(body_end, ()):
            if h is not f and h.fmt is None and 0 < h.size == h.got <= 3 and h.label == f.label \
                    and not any(data[h.off:h.off + h.got]):
                pad = h.got
                break
        if not f.value and not pad:
            continue            # a lone zero byte: not recognisable as a length
        enc = sm.enclosing(f.off, body_end + pad)
        out.append({"k": "plen", "off": f.off, "width": f.size, "len": f.value, "pad": pad, "end": body_end + pad,
                    "label": f.label, "site": f.site, "ctx": f.ctx, "feat": ("plen", f.label, f.site, f.ctx, f.size),
                    "encl": [(g.off, g.size, g.value, e0, e1) for g, e0, e1, _ in enc]})
    return out


def short_len_sites_with_drops(sm: StructMap):
    """short_len_sites + for the sites of a layer record the first following block with a consulted key ("drop")"""
    out = short_len_sites(sm)
    for s_ in out:
        s_["drop"] = sibling_blocks(sm, s_, CONSULTED)[:1] if (s_["label"] == "LayerRecord" and CONSULTED) else []
    return out


def _filler(n):
    return bytes(0x61 + (i % 26) for i in range(n))


def sibling_blocks(sm: StructMap, site, keys):
    """tagged blocks with one of `keys` (4-byte values) that follow the site inside its innermost enclosing container
    -> [(start, end, key)] (start = the block's signature)"""
    if not site["encl"]:
        return []
    _, _, _, c0, c1 = site["encl"][0]
    sig_offs = sorted(f.off for f in sm.sigs)
    out = []
    for f in sm.lens + [c[0] for c in sm.containers if c[3]]:
        if f.label != "TaggedBlock" or f.off - 8 < site["end"] or f.off + f.size + f.value > c1:
            continue
        key = bytes(sm.data[f.off - 4:f.off])
        if key not in keys:
            continue
        end = f.off + f.size + f.value
        nxt = next((o for o in sig_offs if o >= end), None)
        if nxt is not None and nxt - end < 4:
            end = nxt
        elif end < c1 and c1 - end < 4:
            end = c1
        out.append((f.off - 8, end, key))
    return out


def plen_variants(site, lengths=None, drop=()):
    """the field set to every boundary length, for every padding unit consistent with what was read; the enclosing
    length fields are re-computed.  drop: [(start, end, key)] blocks of the same container deleted in addition (one
    variant set per block) -> [(name, edits)] (edits ordered from the highest offset down)"""
    w, off, end = site["width"], site["off"], site["end"]
    old = end - off
    pads = [p for p in (1, 2, 4) if (-(w + site["len"])) % p == site["pad"]] or [1]
    out = []
    for L in (lengths if lengths is not None else boundary_lengths(w)):
        for p in pads:
            new = L.to_bytes(w, "big") + _filler(L)
            new += b"\0" * (-len(new) % p)
            if L == site["len"] and len(new) == old:
                continue
            for dr in [None] + list(drop):
                delta = len(new) - old - ((dr[1] - dr[0]) if dr else 0)
                eds = []
                ok = True
                for eo, es, ev, e0, e1 in site["encl"]:
                    if dr and not (e0 <= dr[0] and dr[1] <= e1):
                        ok = False
                        break
                    nv = ev + delta
                    if nv < 0 or nv >= 256 ** es:
                        ok = False
                        break
                    eds.append(["put", eo, nv.to_bytes(es, "big").hex()])
                if not ok:
                    continue
                seq = ([["rep", dr[0], dr[1], ""]] if dr else []) + [["rep", off, end, new.hex()]] + \
                    sorted(eds, key=lambda e: -e[1])
                out.append(("len=%d pad%d%s" % (L, p, (" without " + dr[2].decode("latin1")) if dr else ""), seq))
    return out


def writer_consulted_keys():
    """Tag names `X` such that some method of LayerRecord tests `Tag.X in self.tagged_blocks` (what the writer's
    fallback rules look at), with their 4-byte values -> {name: value}"""
    import ast
    out = {}
    try:
        from psd_tools.constants import Tag
        tree = ast.parse((core.REPO / "src" / "psd_tools" / "psd" / "layer_and_mask.py").read_text())
        for cls in ast.walk(tree):
            if isinstance(cls, ast.ClassDef) and cls.name == "LayerRecord":
                for n in ast.walk(cls):
                    if isinstance(n, ast.Compare) and any(isinstance(o, (ast.In, ast.NotIn)) for o in n.ops) \
                            and "tagged_blocks" in ast.unparse(n.comparators[-1]):
                        for a in ast.walk(n.left):
                            if isinstance(a, ast.Attribute) and isinstance(a.value, ast.Name) and a.value.id == "Tag":
                                try:
                                    out[a.attr] = Tag[a.attr].value
                                except KeyError:
                                    pass
    except Exception:  # noqa
        pass
    return out
