"""Shared by harness/props/C02.py and C06.py: the structural map of a file (obtained by instrumenting the real
parse from the harness process), the structure-aware mutation engine, and the re-save oracle.

No source hooks: during `trace_parse` the name `io.BytesIO` is replaced by a recording subclass, so every
`fp.read(n)` of the real readers (on the main stream and on every nested `io.BytesIO(block)`) is seen with its
absolute file offset; the reader class that issued the read is taken from the Python frame.
"""
from __future__ import annotations

import io
import struct
import sys
import warnings

import core

_RealBytesIO = io.BytesIO


class Field:
    """one primitive read of the real parser"""
    __slots__ = ("off", "size", "got", "label", "kind", "value", "fmt")

    def __init__(self, off, size, got, label):
        self.off, self.size, self.got, self.label = off, size, got, label
        self.kind = "data"      # "num" | "len" | "sig" | "fmt" | "data"
        self.value = None
        self.fmt = None         # the struct format the bytes were unpacked with (read_fmt), when known

    def __repr__(self):
        return f"Field({self.off},{self.size},{self.label},{self.kind},{self.value})"


class _Trace:
    def __init__(self, data):
        self.data = data
        self.fields: list[Field] = []
        self.bases: dict[int, int] = {}
        self.keep = []
        self.unmapped = 0
        self.on = True
        self.last = None        # (id of the bytes last returned by read, its Field)


_cur: _Trace | None = None


def _label():
    """class (and method) of the innermost psd_tools reader on the stack"""
    f = sys._getframe(2)
    depth = 0
    while f is not None and depth < 12:
        co = f.f_code
        fn = co.co_filename
        if "psd_tools" in fn and "utils.py" not in fn:
            cls = f.f_locals.get("cls")
            if cls is None:
                s = f.f_locals.get("self")
                cls = type(s) if s is not None else None
            nm = getattr(cls, "__name__", None) or fn.rsplit("/", 1)[-1][:-3]
            return nm
        f = f.f_back
        depth += 1
    return "?"


class _TBytesIO(_RealBytesIO):
    def __init__(self, initial=b"", *a, **kw):
        super().__init__(initial, *a, **kw)
        t = _cur
        self._base = None
        if t is not None and t.on:
            if initial is t.data:
                self._base = 0
            else:
                self._base = t.bases.get(id(initial))
                if self._base is None and len(initial):
                    t.unmapped += 1

    def read(self, n=-1, *a):
        t = _cur
        if t is None or not t.on or self._base is None:
            return super().read(n, *a)
        pos = self.tell()
        r = super().read(n, *a)
        if n is None or n < 0:
            n = len(r)
        fld = Field(self._base + pos, n, len(r), _label())
        t.fields.append(fld)
        t.last = (id(r), fld, r)
        if len(r) >= 4:
            t.bases[id(r)] = self._base + pos
            t.keep.append(r)
        return r


_real_unpack = struct.unpack


def _t_unpack(fmt, data, *a):
    """`struct.unpack` as called by `read_fmt` right after `fp.read`: remember the format of that read"""
    t = _cur
    if t is not None and t.on and t.last is not None and t.last[0] == id(data) and isinstance(fmt, str):
        t.last[1].fmt = fmt
    return _real_unpack(fmt, data, *a)


_ITEM = {"b": 1, "B": 1, "h": 2, "H": 2, "i": 4, "I": 4, "l": 4, "L": 4, "q": 8, "Q": 8, "f": 4, "d": 8, "?": 1, "c": 1}


def split_fmt(f: Field):
    """a composite `read_fmt` read ("4iH", "hI", "4sH6xHIIHH", ...) -> one Field per item"""
    import re as _re
    fmt = f.fmt.lstrip("<>!=@")
    out, off = [], f.off
    for cnt, code in _re.findall(r"(\d*)([a-zA-Z?])", fmt):
        k = int(cnt) if cnt else 1
        if code in ("s", "p"):
            g = Field(off, k, k, f.label)
            out.append(g)
            off += k
        elif code == "x":
            off += k
        elif code in _ITEM:
            for _ in range(k):
                g = Field(off, _ITEM[code], _ITEM[code], f.label)
                if code in ("f", "d"):
                    g.fmt = "float"
                out.append(g)
                off += _ITEM[code]
        else:
            return [f]
    if off != f.off + f.size:
        return [f]
    return out


class StructMap:
    """offsets of everything the real parser read"""

    def __init__(self, data: bytes, fields: list[Field], unmapped: int):
        self.data = data
        self.unmapped = unmapped
        fs = []
        for k, f in enumerate(fields):
            if f.got == 0 and f.size == 0:
                continue
            if f.fmt and f.fmt != "float" and f.got == f.size and f.size not in (1, 2, 4, 8):
                fs.extend(split_fmt(f))        # every item of a composite read_fmt is a field of its own
            else:
                fs.append(f)
        n = len(data)
        for k, f in enumerate(fs):
            raw = data[f.off:f.off + f.got]
            if f.got == f.size and f.size in (1, 2, 4, 8) and f.off + f.size <= n and f.fmt != "float":
                f.value = int.from_bytes(raw, "big")
                f.kind = "num"
                if f.size == 4 and raw in (b"8BIM", b"8B64", b"8BPS", b"MeSa", b"AgHg", b"PHUT", b"DCSR"):
                    f.kind = "sig"
                # a length: the next read on the same stream asks for exactly that many bytes right after the field
                for g in fs[k + 1:k + 3]:
                    if g.off == f.off + f.size and g.size == f.value and f.value > 0 and f.size >= 2:
                        f.kind = "len"
                        break
                    if g.off == f.off + f.size and f.value == 0 and f.size >= 4:
                        pass
            elif f.size <= 26 and f.got == f.size:
                f.kind = "fmt"
        # de-duplicate (the is_readable probes re-read the same bytes)
        seen, out = set(), []
        for f in fs:
            key = (f.off, f.size, f.kind)
            if key in seen:
                continue
            seen.add(key)
            out.append(f)
        self.fields = out
        self.nums = [f for f in out if f.kind in ("num", "len")]
        self.lens = [f for f in out if f.kind == "len"]
        self.sigs = [f for f in out if f.kind == "sig"]
        self.fmts = [f for f in out if f.kind == "fmt"]
        b = {0, n}
        for f in out:
            b.add(f.off)
            b.add(min(n, f.off + f.got))
        self.boundaries = sorted(b)
        # length-prefixed regions [start of the length field, end of the body)
        self.blocks = [(f.off, f.off + f.size + f.value, f.label) for f in self.lens if f.off + f.size + f.value <= n]


SKELETON = {"FileHeader", "ColorModeData", "ImageResources", "ImageResource", "LayerAndMaskInformation", "LayerInfo",
            "LayerRecords", "LayerRecord", "ChannelInfo", "LayerFlags", "MaskData", "MaskFlags", "MaskParameters",
            "LayerBlendingRanges", "ChannelImageData", "ChannelDataList", "ChannelData", "GlobalLayerMaskInfo",
            "TaggedBlocks", "TaggedBlock", "ImageData", "PSD", "LayerInfoBlock"}


def trace_parse(data: bytes):
    """-> (('ok', doc, tell) | ('err', class, None), StructMap)"""
    global _cur
    from psd_tools.psd import PSD
    t = _Trace(data)
    _cur = t
    io.BytesIO = _TBytesIO
    struct.unpack = _t_unpack
    try:
        try:
            with warnings.catch_warnings():
                warnings.simplefilter("ignore")
                fp = _TBytesIO(data)
                doc = PSD.read(fp)
                res = ("ok", doc, fp.tell())
        except RecursionError:
            res = ("err", "RecursionError", None)
        except Exception as e:  # noqa
            res = ("err", core.err_class(e), None)
    finally:
        io.BytesIO = _RealBytesIO
        struct.unpack = _real_unpack
        _cur = None
    return res, StructMap(data, t.fields, t.unmapped)


# ---------------------------------------------------------------------------------------------
# mutation engine (all randomness from the caller's rng; mutants are (bytes, recipe) pairs; recipe["edits"] rebuilds
# the bytes from the fixture, so that only the recipe has to travel to a worker process)
# ---------------------------------------------------------------------------------------------
def apply_edits(base: bytes, edits, get_bytes=None) -> bytes:
    """edits: ["put", off, hex] | ["cut", n] | ["rep", s, e, hex | ["fx", name, ds, de] | ["self", ds, de]]"""
    b = base
    for ed in edits:
        if ed[0] == "put":
            raw = bytes.fromhex(ed[2])
            b = b[:ed[1]] + raw + b[ed[1] + len(raw):]
        elif ed[0] == "cut":
            b = b[:ed[1]]
        elif ed[0] == "rep":
            src = ed[3]
            if isinstance(src, str):
                raw = bytes.fromhex(src)
            elif src[0] == "self":
                raw = base[src[1]:src[2]]
            else:
                raw = get_bytes(src[1])[src[2]:src[3]]
            b = b[:ed[1]] + raw + b[ed[2]:]
        else:
            raise ValueError(ed)
    return b


def num_variants(f: Field):
    """(name, new value) for a numeric field"""
    m = 256 ** f.size
    v = f.value
    out = [("+1", (v + 1) % m), ("-1", (v - 1) % m), ("+2", (v + 2) % m), ("-2", (v - 2) % m), ("x2", (v * 2) % m),
           ("max", m - 1), ("zero", 0), ("half", v // 2), ("signbit", v ^ (m >> 1))]
    if f.size >= 2:
        out += [("+4", (v + 4) % m), ("-4", (v - 4) % m), ("max-1", m - 2), ("smax", (m >> 1) - 1)]
    return [(nm, x) for nm, x in out if x != v]


def _num_edit(f: Field, name: str, val: int):
    return ["put", f.off, val.to_bytes(f.size, "big").hex()], {"op": "num", "off": f.off, "size": f.size,
                                                                "label": f.label, "kind": f.kind, "how": name}


def mutate_num(b: bytes, f: Field, name: str, val: int):
    ed, rec = _num_edit(f, name, val)
    rec["edits"] = [ed]
    return apply_edits(b, [ed]), rec


def mutate_bitflip(b: bytes, off: int, bit: int, label="?"):
    ed = ["put", off, bytes([b[off] ^ (1 << bit)]).hex()]
    return apply_edits(b, [ed]), {"op": "bit", "off": off, "bit": bit, "label": label, "edits": [ed]}


def gen_mutants(rng, sm: StructMap, donors: list, n: int, skeleton_bias=0.7, with_bytes=True):
    """n structure-aware mutants of sm.data -> [(bytes | None, recipe)].
    donors: [(name, bytes, StructMap)] (or (bytes, StructMap)) for splices."""
    b = sm.data
    out = []
    skel_nums = [f for f in sm.nums if f.label in SKELETON]
    other_nums = [f for f in sm.nums if f.label not in SKELETON]
    skel_any = [f for f in sm.fields if f.label in SKELETON and f.got > 0 and f.kind != "data"]
    other_any = [f for f in sm.fields if f.label not in SKELETON and f.got > 0]
    dmap = {}
    dlist = []
    for dn in donors:
        if len(dn) == 3:
            dmap[dn[0]] = dn[1]
            dlist.append(dn)
        else:
            nm = "donor%d" % len(dlist)
            dmap[nm] = dn[0]
            dlist.append((nm, dn[0], dn[1]))

    def pick(a, c):
        if a and (not c or rng.random() < skeleton_bias):
            return rng.choice(a)
        return rng.choice(c) if c else None

    def emit(edits, rec):
        rec["edits"] = edits
        out.append((apply_edits(b, edits, dmap.get) if with_bytes else None, rec))

    ops = ["num"] * 40 + ["bit"] * 14 + ["byte"] * 10 + ["multi"] * 8 + ["trunc"] * 8 + ["splice"] * 8 + ["dup"] * 4 + \
          ["del"] * 4 + ["two"] * 6
    for _ in range(n):
        op = rng.choice(ops)
        if op == "num":
            f = pick(skel_nums, other_nums)
            if f is None:
                continue
            nm, v = rng.choice(num_variants(f))
            ed, rec = _num_edit(f, nm, v)
            emit([ed], rec)
        elif op == "bit":
            f = pick(skel_any, other_any)
            if f is None:
                continue
            off = f.off + rng.randrange(max(1, min(f.got, 26)))
            if off < len(b):
                bit = rng.randrange(8)
                emit([["put", off, bytes([b[off] ^ (1 << bit)]).hex()]], {"op": "bit", "off": off, "bit": bit, "label": f.label})
        elif op == "byte":
            f = pick(skel_any, other_any)
            if f is None:
                continue
            off = f.off + rng.randrange(max(1, min(f.got, 26)))
            if off < len(b):
                v = rng.choice([0, 1, 0x7F, 0x80, 0xFF, rng.randrange(256), 0x38, 0x40])
                if v != b[off]:
                    emit([["put", off, bytes([v]).hex()]], {"op": "byte", "off": off, "val": v, "label": f.label})
        elif op == "multi":
            f = pick(skel_any, other_any)
            if f is None:
                continue
            k = min(f.got, rng.choice([2, 3, 4, 8]))
            raw = bytes(rng.choice([0, 0xFF, rng.randrange(256)]) for _ in range(k))
            if b[f.off:f.off + k] != raw:
                emit([["put", f.off, raw.hex()]], {"op": "multi", "off": f.off, "raw": raw.hex(), "label": f.label})
        elif op == "two":
            f1, f2 = pick(skel_nums, other_nums), pick(skel_nums, other_nums)
            if f1 is None or f2 is None or f1.off == f2.off:
                continue
            n1, v1 = rng.choice(num_variants(f1))
            n2, v2 = rng.choice(num_variants(f2))
            e1, r1 = _num_edit(f1, n1, v1)
            e2, r2 = _num_edit(f2, n2, v2)
            emit([e1, e2], {"op": "two", "a": r1, "b": r2, "label": f1.label})
        elif op == "trunc":
            cut = rng.choice(sm.boundaries)
            if rng.random() < 0.3:
                cut = max(0, min(len(b), cut + rng.choice([-2, -1, 1, 2])))
            if cut != len(b):
                emit([["cut", cut]], {"op": "trunc", "at": cut, "label": "boundary"})
        elif op == "splice" and dlist and sm.blocks:
            s, e, lab = rng.choice(sm.blocks)
            dname, db, dm = rng.choice(dlist)
            cands = [x for x in dm.blocks if x[2] == lab and x[1] - x[0] <= 200000] or \
                    [x for x in dm.blocks if x[1] - x[0] <= 200000]
            if not cands:
                continue
            ds, de, dl = rng.choice(cands)
            emit([["rep", s, e, ["fx", dname, ds, de]]], {"op": "splice", "at": s, "end": e, "label": lab,
                                                          "donor": dname, "donor_label": dl, "donor_len": de - ds})
        elif op == "dup" and sm.blocks:
            s, e, lab = rng.choice(sm.blocks)
            if e - s <= 200000:
                emit([["rep", e, e, ["self", s, e]]], {"op": "dup", "at": s, "end": e, "label": lab})
        elif op == "del" and sm.blocks:
            s, e, lab = rng.choice(sm.blocks)
            emit([["rep", s, e, ""]], {"op": "del", "at": s, "end": e, "label": lab})
    return out


def exhaustive_len_mutants(sm: StructMap, hows=("+1", "-1", "+2", "-2", "x2", "max")):
    """every length / count / numeric field of 2, 4 or 8 bytes read by a skeleton class x the given variants"""
    out = []
    for f in sm.nums:
        if f.label not in SKELETON or f.size < 2:
            continue
        for nm, v in num_variants(f):
            if nm in hows:
                ed, rec = _num_edit(f, nm, v)
                rec["op"] = "len-all"
                rec["edits"] = [ed]
                out.append((None, rec))
    return out


def boundary_truncations(sm: StructMap, skeleton_only=True):
    """truncation at the start and at the end of every length-prefixed block"""
    cuts = set()
    for s_, e_, lab in sm.blocks:
        if skeleton_only and lab not in SKELETON:
            continue
        cuts.add(s_)
        cuts.add(e_)
    n = len(sm.data) if sm.data is not None else None
    return [(None, {"op": "trunc-all", "at": c, "label": "boundary", "edits": [["cut", c]]})
            for c in sorted(cuts) if n is None or c < n]


# ---------------------------------------------------------------------------------------------
# structure-level leaf mutation: parse, change a leaf, write
# ---------------------------------------------------------------------------------------------
def _leaves(x, path, out, depth=0):
    import attr
    import enum
    if depth > 9 or len(out) > 4000:
        return
    if attr.has(type(x)):
        for f in attr.fields(type(x)):
            v = getattr(x, f.name)
            if isinstance(v, (bool, int, float, bytes, str, enum.Enum)) or v is None:
                out.append((x, f.name, path + "." + f.name))
            else:
                _leaves(v, path + "." + f.name, out, depth + 1)
    elif isinstance(x, (list, tuple)):
        for k, v in enumerate(list(x)[:40]):
            _leaves(v, f"{path}[{k}]", out, depth + 1)
    elif hasattr(x, "keys") and hasattr(x, "__getitem__"):
        for k in list(x.keys())[:40]:
            try:
                _leaves(x[k], f"{path}[{k!r}]", out, depth + 1)
            except Exception:  # noqa
                pass


def leaf_mutant(rng, data: bytes):
    """-> (bytes, recipe) or None: parse `data`, set one scalar leaf to an extreme, write"""
    import enum
    from psd_tools.psd import PSD
    with warnings.catch_warnings():
        warnings.simplefilter("ignore")
        try:
            doc = PSD.read(_RealBytesIO(data))
        except Exception:  # noqa
            return None
        out = []
        _leaves(doc, "psd", out)
        if not out:
            return None
        for _ in range(6):
            obj, name, path = rng.choice(out)
            v = getattr(obj, name)
            if isinstance(v, bool):
                nv = not v
            elif isinstance(v, enum.Enum):
                continue
            elif isinstance(v, int):
                nv = rng.choice([0, 1, 2, 255, 256, 32767, 65535, -1, -32768, v + 1, v - 1, 2 ** 31 - 1, 2 ** 32 - 1])
            elif isinstance(v, float):
                nv = rng.choice([0.0, -0.0, 1.0, -1.5, 1e300, float("inf"), 5e-324])
            elif isinstance(v, bytes):
                nv = rng.choice([b"", b"\x00", v + b"\x00", v[:-1], v * 2 if len(v) < 5000 else v, b"8BIM", b"\xff" * 5])
            elif isinstance(v, str):
                nv = rng.choice(["", "a", v + "x", v[:-1], "é", "x" * 255, "x" * 33])
            elif v is None:
                continue
            else:
                continue
            if nv == v:
                continue
            try:
                setattr(obj, name, nv)
                f = _RealBytesIO()
                doc.write(f)
                return f.getvalue(), {"op": "leaf", "path": path, "new": repr(nv)[:60], "label": type(obj).__name__}
            except Exception:  # noqa
                return None
    return None


# ---------------------------------------------------------------------------------------------
# the re-save oracle (Python only)
# ---------------------------------------------------------------------------------------------
def _eq(a, b, path, diffs, depth=0):
    """structural equality; floats by bit pattern (NaN == NaN), path of the first differences recorded"""
    import attr
    import enum
    if len(diffs) >= 3:
        return
    if a is b:
        return
    ta, tb = type(a), type(b)
    if isinstance(a, float) and isinstance(b, float):
        if struct.pack(">d", a) != struct.pack(">d", b) and not (a != a and b != b):
            diffs.append(path)
        return
    if ta is not tb:
        if isinstance(a, enum.Enum) or isinstance(b, enum.Enum):
            if getattr(a, "value", a) != getattr(b, "value", b):
                diffs.append(path + ":" + ta.__name__ + "/" + tb.__name__)
            return
        if isinstance(a, (list, tuple)) and isinstance(b, (list, tuple)):
            pass
        else:
            diffs.append(path + ":" + ta.__name__ + "/" + tb.__name__)
            return
    if attr.has(ta) and attr.has(tb):
        for f in attr.fields(ta):
            _eq(getattr(a, f.name), getattr(b, f.name, None), path + "." + f.name.lstrip("_"), diffs, depth + 1)
        return
    if isinstance(a, (list, tuple)):
        if len(a) != len(b):
            diffs.append(path + ":len")
            return
        for k, (x, y) in enumerate(zip(a, b)):
            _eq(x, y, f"{path}[]", diffs, depth + 1)
        return
    if isinstance(a, dict) or (hasattr(a, "keys") and hasattr(a, "__getitem__") and not isinstance(a, (bytes, str))):
        ka, kb = list(a.keys()), list(b.keys())
        if ka != kb:
            diffs.append(path + ":keys")
            return
        for k in ka:
            _eq(a[k], b[k], f"{path}[{getattr(k, 'name', k)!s}]", diffs, depth + 1)
        return
    try:
        same = (a == b)
        if hasattr(same, "all"):
            same = bool(same.all())
    except Exception:  # noqa
        same = False
    if not same:
        diffs.append(path)


def struct_diff(a, b):
    diffs: list[str] = []
    _eq(a, b, "psd", diffs)
    return diffs


def _read(data: bytes):
    from psd_tools.psd import PSD
    fp = _RealBytesIO(data)
    d = PSD.read(fp)
    return d, fp.tell()


def _write(doc):
    f = _RealBytesIO()
    n = doc.write(f)
    return f.getvalue(), n


def _layer_infos(doc):
    from psd_tools.psd.layer_and_mask import LayerInfo
    lam = doc.layer_and_mask_information
    out = []
    if lam.layer_info is not None:
        out.append(lam.layer_info)
    tb = lam.tagged_blocks
    if tb is not None:
        for k in list(tb.keys()):
            d = tb[k].data
            if isinstance(d, LayerInfo):
                out.append(d)
    return out


def _channel_lengths(doc):
    out = []
    for li in _layer_infos(doc):
        for r in (li.layer_records or []):
            out.append([c.length for c in r.channel_info])
    return out


def mechanisms(doc):
    """accepted shapes the model proves unstable (Props/C02.lean `MaskData.Stable`): a layer mask without real
    fields whose body is 18 + 17 bytes (both feathers, no densities) - the writer pads it to 36 bytes, which are read
    as real-mask fields"""
    out = []
    for li in _layer_infos(doc):
        for r in (li.layer_records or []):
            m = r.mask_data
            if m is None or m.real_flags is not None or not m.flags.parameters_applied or m.parameters is None:
                continue
            q = m.parameters
            n = 1 + (q.user_mask_density is not None) + 8 * (q.user_mask_feather is not None) + \
                (q.vector_mask_density is not None) + 8 * (q.vector_mask_feather is not None)
            if 18 + n > 32:
                out.append("mask-data/no-real-fields-body-%d-bytes" % (18 + n))
    return sorted(set(out))


def resave_oracle(data: bytes):
    """The property itself on the real code.
    -> ('rejected', class) | ('ok', info) | ('fail', stage, detail, info)"""
    with warnings.catch_warnings():
        warnings.simplefilter("ignore")
        try:
            d0, tell0 = _read(data)
        except RecursionError:
            return ("rejected", "RecursionError")
        except Exception as e:  # noqa
            return ("rejected", core.err_class(e))
        info = {"len": len(data)}
        mech = mechanisms(d0)
        if mech:
            info["mechanisms"] = mech
        before = _channel_lengths(d0)
        try:
            w1, n1 = _write(d0)
        except Exception as e:  # noqa
            return ("fail", "write-raises", core.err_class(e) + ": " + str(e)[:120], info)
        if n1 != len(w1):
            return ("fail", "written-count", f"write returned {n1}, emitted {len(w1)}", info)
        info["resaved_len"] = len(w1)
        info["lengths_refreshed"] = (_channel_lengths(d0) != before)
        info["identical_to_input"] = (w1 == data)
        try:
            d1, tell1 = _read(w1)
        except Exception as e:  # noqa
            return ("fail", "reread-raises", core.err_class(e) + ": " + str(e)[:120], info)
        # d0 is the in-memory structure AFTER the save (channel lengths refreshed in place by the writer)
        diffs = struct_diff(d0, d1)
        try:
            w2, _ = _write(d1)
        except Exception as e:  # noqa
            return ("fail", "rewrite-raises", core.err_class(e) + ": " + str(e)[:120], info)
        if w2 != w1:
            k = next((i for i, (x, y) in enumerate(zip(w1, w2)) if x != y), min(len(w1), len(w2)))
            return ("fail", "second-save-differs", {"first_diff_at": k, "len1": len(w1), "len2": len(w2), "struct": diffs}, info)
        if diffs:
            return ("fail", "reread-differs", diffs, info)
        return ("ok", info)


def classify(res):
    """failing oracle result -> signature `C02/<section>/<mechanism>`"""
    stage, detail = res[1], res[2]
    info = res[3] if len(res) > 3 else {}
    if info.get("mechanisms"):
        return f"C02/{info['mechanisms'][0]}/{stage}"
    if stage in ("reread-differs", "second-save-differs"):
        diffs = detail if stage == "reread-differs" else detail.get("struct") or []
        if diffs:
            p = diffs[0]
            import re
            p = re.sub(r"\[\]", "", p)
            p = re.sub(r"\[[^\]]*\]", "[k]", p)
            p = p.replace("psd.", "")
            return f"C02/{p}/{stage}"
        return f"C02/bytes-only/{stage}"
    if isinstance(detail, str):
        return f"C02/{stage}/{detail.split(':')[0]}"
    return f"C02/{stage}"
