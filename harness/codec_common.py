"""Shared by harness/props/C01.py and C03.py: fixture lists, parallel driver batches, document I/O."""
from __future__ import annotations

import io
import os
import subprocess
from concurrent.futures import ThreadPoolExecutor

import core
from core import Infra


def fixtures(max_bytes=None):
    root = core.REPO / "tests" / "psd_files"
    fs = [p for p in root.rglob("*") if p.is_file() and p.suffix.lower() in (".psd", ".psb")]
    fs.sort(key=lambda p: (p.stat().st_size, str(p)))
    if max_bytes is not None:
        fs = [p for p in fs if p.stat().st_size <= max_bytes]
    return fs


def _run_chunk(lines: list[str]) -> list[str]:
    p = subprocess.run([str(core.DRIVER)], input=("\n".join(lines) + "\n").encode(), capture_output=True, timeout=1500)
    if p.returncode != 0:
        raise Infra(f"driver exited {p.returncode}: {p.stderr[-300:]!r}")
    out = p.stdout.decode().split("\n")
    if out and out[-1] == "":
        out.pop()
    return out


def pbatch(reqs: list[tuple], workers: int = 12) -> list[list[str]]:
    """Like core.Driver.batch, but the requests are dealt to `workers` driver processes
    (balanced by request size; answers are put back in request order)."""
    if not reqs:
        return []
    if not core.DRIVER.exists():
        raise Infra(f"model driver not built: {core.DRIVER}")
    lines = ["\t".join([str(k), *[str(x) for x in r]]) for k, r in enumerate(reqs)]
    order = sorted(range(len(lines)), key=lambda k: -len(lines[k]))
    workers = max(1, min(workers, len(lines), os.cpu_count() or 4))
    bins = [[] for _ in range(workers)]
    load = [0] * workers
    for k in order:
        j = load.index(min(load))
        bins[j].append(k)
        load[j] += len(lines[k]) + 50
    res: list = [None] * len(lines)
    with ThreadPoolExecutor(max_workers=workers) as ex:
        outs = list(ex.map(lambda b: _run_chunk([lines[k] for k in b]), bins))
    for b, out in zip(bins, outs):
        if len(out) != len(b):
            raise Infra(f"driver answered {len(out)} lines for {len(b)} requests")
        for k, l in zip(b, out):
            parts = l.split("\t")
            if parts[0] != str(k):
                raise Infra(f"driver answer out of order at {k}: {l[:80]}")
            res[k] = parts[1:]
    return res


def write_doc(doc, encoding="macroman", padding=4):
    """-> ('ok', bytes, written) | ('err', class)"""
    try:
        with io.BytesIO() as f:
            n = doc.write(f, encoding=encoding, padding=padding)
            return ("ok", f.getvalue(), n)
    except RecursionError:
        return ("err", "RecursionError")
    except Exception as e:  # noqa
        return ("err", core.err_class(e))


def read_doc(data: bytes, encoding="macroman"):
    from psd_tools.psd import PSD
    try:
        with io.BytesIO(data) as f:
            d = PSD.read(f, encoding=encoding)
            return ("ok", d, f.tell())
    except RecursionError:
        return ("err", "RecursionError", None)
    except Exception as e:  # noqa
        return ("err", core.err_class(e), None)
