"""C17 - the stored merged image is valid and matches the layers after an edit; untouched otherwise.

Histories may contain several saves ("save" tokens + the implicit final one); the property is evaluated on EVERY file
written: structure edited at some point before that save => merged image = composite of the layers in that file;
never edited => image-data section byte-identical to the original. Which of the two applies is decided by the harness's
own classification of the calls made (STRUCTURAL_NAMES), not by the flag the implementation keeps.

"equals the composite of the saved layers" is a theorem (Props/C17Pixels.lean: merged_equals_composite ... over C11's compositor
model and the arithmetic of _merged_planes, Model/MergedPixels.lean); it is tied to the source by Generated/MergedPixels.lean
(extract_c17: AST of _merged_planes / save / composite) and by the pixel correspondence of `run_pixel_cases` below
(harness/merged_pixels.py: generated documents, every stored sample against the model's bytes), and searched on the real code
with a reference that uses neither the library's compositor nor the Lean model.
"""
from __future__ import annotations

import io
import json
import struct
from fractions import Fraction

import numpy as np
from PIL import Image

import core
import extract_c07
import extract_c17
import pixels_common as pc
from core import err_class

SAVE_TOKEN = "save"
DOC_MODES = ["L", "LA", "RGB", "RGBA", "CMYK", "CMYKA"]
NCOLOR = {"GRAYSCALE": 1, "RGB": 3, "CMYK": 4}
FIXTURES_QUICK = ["1layer.psd", "2layers.psd", "group.psd", "16bit5x5.psd", "32bit5x5.psd", "transparentbg-gimp.psd",
                  "opacity-fill.psd", "mask_parameters.psd", "clipping-mask2.psd", "1layer.psb", "masks3.psd",
                  "vector-mask2.psd"]
STRUCT_OPS = ["append", "insert", "pop-append", "rotate", "remove", "delitem", "setitem", "clear", "moveUp", "moveDown",
              "moveToGroup", "groupLayers", "deleteLayer", "newGroupInParent", "extend",
              # clip-relevant: a clipping layer over whatever lies below it; a base taken away from under its run and put back;
              # a clipping layer sent to the bottom of its list and back; everything wrapped in one group (nesting)
              "appendClip", "baseUpDown", "clipDownUp", "groupAll"]
QUIET_OPS = ["rename", "setVisible", "setOpacity", "setBlendMode", "setOffset", "setClipping", "setCompatibilityMode", "readTopil", "readNumpy",
             "readComposite", "readForcedComposite", "readIterate", "readBbox", "readSave"]
OP_MODEL_NAME = {"pop-append": "pop,append", "rotate": "pop,insert", "hideAll": "setVisible", "appendClip": "append,setClipping",
                 "baseUpDown": "moveUp,moveDown", "groupAll": "groupLayers"}
# histories that pass through clip-relevant intermediate states (a clip run temporarily WITHOUT its base) and end in a well-formed
# run: the file written holds base + clipping layer, and its merged image must show exactly that
CLIP_HISTORIES = [["appendClip"], ["appendClip", "moveUp", "moveDown"], ["appendClip", "baseUpDown"], ["appendClip", "delitem", "insert"],
                  ["appendClip", "setClipping", "setClipping"], ["appendClip", "clipDownUp"], ["appendClip", "groupAll", "baseUpDown"],
                  ["appendClip", "groupAll", "clipDownUp"], ["appendClip", "rotate", "pop-append", "baseUpDown"],
                  ["appendClip", "setClipping", SAVE_TOKEN, "setClipping"], ["appendClip", "baseUpDown", SAVE_TOKEN, "setVisible"]]
CLIP_HISTORIES_UNSAVED = [["appendClip", "insert"], ["appendClip", "insert", "baseUpDown"], ["append", "appendClip", "delitem", "insert"]]
# the token "save" inside a history is a CHECKED save: the file it writes is examined like the final one
# (every history ends with an implicit checked save). For the model it is `readSave`: not structural, and
# it does not reset the flag.
SAVE = "save"
ATTR_OPS = ["setVisible", "setOpacity", "setOffset", "setBlendMode", "rename", "setClipping"]
VISIBLE_ATTR_OPS = ["setVisible", "setOpacity", "setOffset", "hideAll"]
# what the PROPERTY counts as an edit of the layer structure (model op names) - the harness's own
# classification of the public calls, independent of the flag the implementation keeps
STRUCTURAL_NAMES = {"setitem", "delitem", "append", "extend", "insert", "remove", "pop", "clear", "deleteLayer",
                    "moveToGroup", "moveUp", "moveDown", "groupLayers", "newGroupInParent"}


def two_save_history(rng, shape=None):
    """histories with more than one save: edit* ; save ; attribute-edit* ; (save)   and relatives"""
    shape = shape or rng.choice(["edit-save-attr"] * 6 + ["save-save", "attr-save-attr", "edit-save-edit", "edit-save-save"])
    attrs = [rng.choice(VISIBLE_ATTR_OPS)] + [rng.choice(ATTR_OPS) for _ in range(rng.randrange(0, 2))]
    rng.shuffle(attrs)
    edits = ["append"] + [rng.choice(STRUCT_OPS + QUIET_OPS[:-1]) for _ in range(rng.randrange(0, 2))]
    if shape == "edit-save-attr":
        return edits + [SAVE] + attrs
    if shape == "save-save":
        return [SAVE]
    if shape == "attr-save-attr":
        return [rng.choice(ATTR_OPS), SAVE] + attrs
    if shape == "edit-save-edit":
        return edits + [SAVE, rng.choice(STRUCT_OPS)] + attrs[:1]
    return edits + [SAVE, SAVE] + attrs


# ---- the image-data section of a saved file, found without the library -----------------------
def image_data_section(raw: bytes):
    """(header fields, compression, data) from the bytes of a PSD/PSB file"""
    sig, version = raw[:4], struct.unpack(">H", raw[4:6])[0]
    assert sig == b"8BPS"
    channels, height, width, depth, mode = struct.unpack(">HIIHH", raw[12:26])
    pos = 26
    for _ in range(2):                       # colour mode data, image resources
        (n,) = struct.unpack(">I", raw[pos:pos + 4])
        pos += 4 + n
    if version == 1:                         # layer and mask information
        (n,) = struct.unpack(">I", raw[pos:pos + 4])
        pos += 4 + n
    else:
        (n,) = struct.unpack(">Q", raw[pos:pos + 8])
        pos += 8 + n
    (comp,) = struct.unpack(">H", raw[pos:pos + 2])
    return dict(version=version, channels=channels, height=height, width=width, depth=depth, mode=mode), comp, raw[pos + 2:]


def _call(f, *a, **k):
    try:
        return ("ok", f(*a, **k))
    except Exception as e:  # noqa
        return ("err", err_class(e), str(e)[:140])


def meta_of(psd):
    from psd_tools.constants import Resource, Tag
    keys = (Tag.SAVING_MERGED_TRANSPARENCY, Tag.SAVING_MERGED_TRANSPARENCY16, Tag.SAVING_MERGED_TRANSPARENCY32)
    tb = psd.tagged_blocks
    mt = bool(tb and any(k in tb for k in keys))
    ids = psd.image_resources.get_data(Resource.ALPHA_IDENTIFIERS)
    ids = list(ids) if ids else []
    li = psd._record.layer_and_mask_information.layer_info
    lc = li.layer_count if li is not None else 0
    return mt, ids, abs(lc or 0)


# ---- how other writers store a document: variants of an API-created document ---------------------
STORES = ["plain", "merged-transparency-tag", "layers-in-Lr16-Lr32", "no-composite-flag"]      # + "unsaved" (make_api_doc)
ALPHA_MODES = ["LA", "RGBA", "CMYKA"]


def restage(psd, store, depth):
    """the freshly saved document `psd`, re-stored the way Photoshop stores such documents, and reopened -> (document, bytes)
      merged-transparency-tag : the Mtrn / Mt16 / Mt32 block that marks the first extra plane as the transparency of the merged
                                image (the document keeps counting as transparent however many layers it has)
      layers-in-Lr16-Lr32     : the layers of a 16 / 32-bit document live in the Lr16 / Lr32 block, the plain layer info is empty
      no-composite-flag       : VersionInfo.has_composite = false (saved with 'maximize compatibility' off)"""
    from psd_tools import PSDImage
    from psd_tools.constants import Resource, Tag
    from psd_tools.psd.base import EmptyElement
    from psd_tools.psd.layer_and_mask import LayerInfo, LayerInfoBlock
    from psd_tools.psd.tagged_blocks import TaggedBlock, TaggedBlocks
    rec = psd._record
    lmi = rec.layer_and_mask_information
    if lmi.tagged_blocks is None:
        lmi.tagged_blocks = TaggedBlocks()
    if store == "merged-transparency-tag":
        key = {8: Tag.SAVING_MERGED_TRANSPARENCY, 16: Tag.SAVING_MERGED_TRANSPARENCY16, 32: Tag.SAVING_MERGED_TRANSPARENCY32}[depth]
        lmi.tagged_blocks[key] = TaggedBlock(key=key, data=EmptyElement())
    elif store == "layers-in-Lr16-Lr32":
        key = Tag.LAYER_16 if depth == 16 else Tag.LAYER_32
        li = lmi.layer_info
        lmi.tagged_blocks[key] = TaggedBlock(key=key, data=LayerInfoBlock(layer_count=li.layer_count, layer_records=li.layer_records,
                                                                          channel_image_data=li.channel_image_data))
        lmi.layer_info = LayerInfo()
    elif store == "no-composite-flag":
        rec.image_resources.get_data(Resource.VERSION_INFO).has_composite = False
    elif store != "plain":
        raise ValueError(store)
    b = io.BytesIO()
    rec.write(b)
    raw = b.getvalue()
    return PSDImage.open(io.BytesIO(raw)), raw


def storage_class(psd):
    """classification of a document by how it is stored, read from the record (not through the library's predicates):
    {'no-composite'} when VersionInfo says there is no merged image; {'stays-transparent'} when the merged image has a plane
    beyond the colour planes that keeps being the transparency after a structural edit (merged-transparency block, or layers
    kept in Lr16 / Lr32 so that the plain layer count stays 0)"""
    from psd_tools.constants import Resource, Tag
    out = set()
    try:
        vi = psd.image_resources.get_data(Resource.VERSION_INFO)
        if vi is not None and not vi.has_composite:
            out.add("no-composite")
        n = NCOLOR.get(psd.color_mode.name)
        if n is not None and psd._record.header.channels > n:
            mt, ids, lc = meta_of(psd)
            tb = psd._record.layer_and_mask_information.tagged_blocks
            deep = bool(tb) and any(k in tb for k in (Tag.LAYER_16, Tag.LAYER_32))
            if not (ids and all(x > 0 for x in ids)) and (mt or (deep and lc == 0)):
                out.add("stays-transparent")
    except Exception:  # noqa  (classification only)
        pass
    return out


def special_fixtures(fdir, quick, area_limit):
    """fixtures (searched recursively) stored without a merged image or with a merged transparency that survives an edit:
    the quick tier takes the three smallest of each class, the thorough tier all below the area limit"""
    from psd_tools import PSDImage
    found = {"no-composite": [], "stays-transparent": []}
    for f in sorted(fdir.rglob("*.ps[db]")):
        if f.stat().st_size > 400_000:
            continue
        try:
            psd = PSDImage.open(f)
        except Exception:  # noqa  (broken fixtures belong to C06)
            continue
        if psd.width * psd.height > area_limit:
            continue
        for c in storage_class(psd):
            found[c].append((psd.width * psd.height, str(f.relative_to(fdir)), f))
    out = []
    for c, lst in found.items():
        lst.sort(key=lambda x: x[:2])
        out += [(c, f) for _, _, f in (lst[:3] if quick else lst)]
    return out


# ---- histories -------------------------------------------------------------------------------
def apply_op(psd, op, rng, img_seed):
    """apply one operation of the public API; returns the model's name(s) for it or None when not applicable"""
    from psd_tools.api.layers import Group, PixelLayer
    from psd_tools.constants import BlendMode
    layers = list(psd)
    if op == "append":
        im = pc.make_image(rng.choice(["RGBA", "RGB", "LA", "L"]), 3, 2, img_seed)
        psd.append(PixelLayer.frompil(im, psd, "new", 1, 1))
    elif op == "insert":
        im = pc.make_image("RGBA", 2, 3, img_seed)
        psd.insert(0, PixelLayer.frompil(im, psd, "new0", 0, 1))
    elif op == "extend":
        im = pc.make_image("RGBA", 2, 2, img_seed)
        psd.extend([PixelLayer.frompil(im, psd, "ext", 0, 0)])
    elif op == "newGroupInParent":
        Group.new("g", parent=psd)
    elif op == "appendClip":
        # a clipping layer as large as the canvas: it sticks out of whatever base it gets
        im = pc.make_image("RGBA", psd.width, psd.height, img_seed)
        lay = PixelLayer.frompil(im, psd, "clip", 0, 0)
        psd.append(lay)
        lay.clipping_layer = True
    elif op == "setCompatibilityMode":
        # a rendering configuration of the object in memory: nothing of it is stored, no layer is added / removed / reordered
        from psd_tools.constants import CompatibilityMode
        psd.compatibility_mode = rng.choice(list(CompatibilityMode))
    elif not layers:
        return None
    elif op == "pop-append":
        psd.append(psd.pop())
    elif op == "rotate":
        psd.insert(0, psd.pop())
    elif op == "remove":
        psd.remove(layers[-1])
    elif op == "delitem":
        del psd[0]
    elif op == "setitem":
        im = pc.make_image("RGBA", 3, 3, img_seed)
        psd[0] = PixelLayer.frompil(im, psd, "set", 0, 0)
    elif op == "clear":
        psd.clear()
    elif op == "moveUp":
        layers[0].move_up()
    elif op == "moveDown":
        layers[-1].move_down()
    elif op == "moveToGroup":
        g = Group.new("dest", parent=psd)
        layers[-1].move_to_group(g)
        return "newGroupInParent,moveToGroup"
    elif op == "groupLayers":
        Group.group_layers([layers[-1]], "grouped", parent=psd)
    elif op == "deleteLayer":
        layers[-1].delete_layer()
    elif op == "setClipping":
        layers[-1].clipping_layer = not layers[-1].clipping_layer
    elif op == "baseUpDown":
        # the base of a clip run (anywhere in the tree) is moved above its run and back: the run is base-less in between
        bases = [l for l in _walk(psd) if not l.clipping_layer and _above_is_clip(l)]
        if not bases:
            return None
        bases[0].move_up()
        bases[0].move_down()
    elif op == "clipDownUp":
        # a clipping layer (anywhere in the tree) goes to the bottom of its list - nothing to clip to - and back
        clips = [l for l in _walk(psd) if l.clipping_layer and list(l.parent).index(l) > 0]
        if not clips:
            return None
        k = list(clips[0].parent).index(clips[0])
        clips[0].move_down(k)
        clips[0].move_up(k)
        return "moveDown,moveUp"
    elif op == "groupAll":
        Group.group_layers(layers, "all", parent=psd)
    elif op == "rename":
        layers[-1].name = "renamed"
    elif op == "setVisible":
        layers[-1].visible = not layers[-1].visible
    elif op == "hideAll":
        # no visible layer left at the top level (an attribute edit of each)
        for l in layers:
            l.visible = False
    elif op == "setOpacity":
        layers[-1].opacity = 128
    elif op == "setBlendMode":
        layers[-1].blend_mode = BlendMode.MULTIPLY
    elif op == "setOffset":
        # position is writable for pixel / type / smart-object / fill / adjustment layers only (C16)
        movable = [l for l in layers if l.kind in ("pixel", "type", "smartobject")]
        if not movable:
            return None
        movable[-1].offset = (movable[-1].left + 1, movable[-1].top + 1)
    elif op == "readTopil":
        psd.topil()
        layers[-1].topil()
    elif op == "readNumpy":
        psd.numpy()
    elif op == "readComposite":
        psd.composite()
    elif op == "readForcedComposite":
        psd.composite(force=True)
    elif op == "readIterate":
        [repr(l) for l in psd.descendants()]
    elif op == "readBbox":
        psd.bbox, [l.bbox for l in psd.descendants()]
    elif op == "readSave":
        psd.save(io.BytesIO())
    else:
        raise ValueError(op)
    return OP_MODEL_NAME.get(op, op)


def _walk(g):
    for l in g:
        yield l
        if l.is_group():
            yield from _walk(l)


def _above_is_clip(layer):
    sib = list(layer.parent)
    k = [i for i, x in enumerate(sib) if x is layer][0]
    return k + 1 < len(sib) and bool(sib[k + 1].clipping_layer)


def quantise(x, depth):
    if depth == 32:
        return x.astype(">f4").tobytes()
    scale = 255 if depth == 8 else 65535
    return np.round(np.clip(x, 0.0, 1.0) * scale).astype(">u%d" % (depth // 8)).tobytes()


def planes_from_routes(routes, color, alpha, old, depth):
    out = []
    for r in routes.split(";"):
        if r[0] == "F":
            k = int(r[1:])
            out.append(quantise(color[:, :, k] * alpha[:, :, 0] + (1.0 - alpha[:, :, 0]), depth))
        elif r[0] == "C":
            out.append(quantise(color[:, :, int(r[1:])], depth))
        elif r == "A":
            out.append(quantise(alpha[:, :, 0], depth))
        elif r[0] == "O":
            out.append(bytes(old[int(r[1:])]))
        elif r == "1":
            out.append(quantise(np.ones_like(alpha[:, :, 0]), depth))
        else:
            raise ValueError(r)
    return out


def to_float(plane: bytes, depth, h, w):
    if depth == 8:
        return np.frombuffer(plane, ">u1").astype(np.float64).reshape(h, w) / 255.0
    if depth == 16:
        return np.frombuffer(plane, ">u2").astype(np.float64).reshape(h, w) / 65535.0
    return np.frombuffer(plane, ">f4").astype(np.float64).reshape(h, w)


class Capture:
    """records what the numeric composite returns while save() runs"""

    def __init__(self):
        import psd_tools.composite as C
        self.mod = C
        self.orig = C.composite
        self.calls = []

    def __enter__(self):
        def wrapped(*a, **k):
            r = self.orig(*a, **k)
            if k.get("force") and len(a) >= 1 and type(a[0]).__name__ == "PSDImage":
                self.calls.append(tuple(np.array(x, dtype=np.float32, copy=True) for x in r))
            return r
        self.mod.composite = wrapped
        return self

    def __exit__(self, *exc):
        self.mod.composite = self.orig


# ---- one case --------------------------------------------------------------------------------
def run_case(ctx, label, make_doc, ops, case, original_section=None):
    """make_doc() -> a freshly opened document; apply ops; every "save" token and the end of the history is a
    checked save: the property is evaluated on EVERY file the history writes."""
    import random
    rng = random.Random(case["op_seed"])
    r = _call(make_doc)
    if r[0] == "err":
        ctx.skipped.append(f"{label}: cannot build the document ({r[1]})")
        return "skipped"
    psd = r[1]
    nocomp = "no-composite" in storage_class(psd)
    names = []
    results = []
    nsave = 0
    for op in list(ops) + [SAVE]:
        if op != SAVE:
            a = _call(apply_op, psd, op, rng, rng.randrange(1 << 30))
            if a[0] == "err":
                ctx.hist("op_raises", f"{op}:{a[1]}")
                ctx.skipped.append(f"{label}: op {op} raises {a[1]} ({a[2][:60]})") if len(ctx.skipped) < 40 else None
                return "/".join(dict.fromkeys(results + ["skipped"]))
            if a[1]:
                names.append(a[1])
            continue
        nsave += 1
        res, go_on = check_save(ctx, label, psd, names, case, original_section, nsave, nocomp)
        results.append(res)
        names.append("readSave")
        if not go_on:
            break
    ctx.hist("saves_per_history", nsave)
    return "/".join(dict.fromkeys(results))


def check_save(ctx, label, psd, names, case, original_section, nsave, nocomp=False):
    """save `psd` (whose history so far is `names`) and evaluate C17 on the file. -> (result, continue the history?)"""
    from psd_tools.api.numpy_io import has_transparency, get_transparency_index
    from psd_tools.composite import composite as np_composite
    later = "" if nsave == 1 else "/later-save"
    nth = "" if nsave == 1 else f" (file written by save number {nsave} of the history)"
    flat_names = [n for x in names for n in x.split(",")]
    edited = any(n in STRUCTURAL_NAMES for n in flat_names)
    ctx.corr_cases += 1
    dirty_impl = bool(getattr(psd, "_updated_layers", False))
    m_dirty = ctx.driver().batch([("merged.dirty", ",".join(names) or "-")])[0]
    if m_dirty[0] != "ok" or (m_dirty[1] == "1") != dirty_impl:
        ctx.disagree("dirty flag differs from the model", {**case, "save_number": nsave, "impl": dirty_impl, "model": m_dirty})
    if m_dirty[0] == "ok" and (m_dirty[1] == "1") != edited:
        ctx.disagree("the model's notion of a structural edit differs from the harness's", {**case, "model": m_dirty})
    hdr = psd._record.header
    cm = psd.color_mode.name
    w, h, depth, nch = hdr.width, hdr.height, hdr.depth, hdr.channels
    old_ok = _call(lambda: [bytes(p) for p in psd._record.image_data.get_data(hdr)])
    before = (int(psd._record.image_data.compression), bytes(psd._record.image_data.data))
    # metadata as save() will see it
    _call(psd._update_record)
    mt, ids, lc = meta_of(psd)
    with Capture() as cap:
        s = _call(lambda: pc.save_reopen(psd))
    tag = f"{cm}-ch{nch}-depth{depth}"
    if bool(getattr(psd, "_updated_layers", False)) != dirty_impl:
        ctx.disagree("save() changed the structural-edit flag (model: save_keeps_dirty)",
                     {**case, "save_number": nsave, "before": dirty_impl, "after": bool(getattr(psd, "_updated_layers", False))})
    if s[0] == "err":
        ctx.fail(f"C17/save-raises/{tag}/{s[1]}", f"save() after {'a structural edit' if edited else 'no structural edit'} raises {s[1]}: {s[2]}"
                 + nth, case, s[1:], "a file")
        return "save raises " + s[1], False
    p2, raw = s[1]
    fh, comp, data = image_data_section(raw)
    ctx.hist("class", f"{tag}/{['RAW', 'RLE', 'ZIP', 'ZIPP'][comp]}/{'edited' if edited else 'unedited'}{later}")

    # ---------------- the layer structure was not edited (the harness's classification of the calls made, not the
    # implementation's flag): the image-data section of EVERY file written is the original one, byte for byte
    if not edited:
        ref = original_section if original_section is not None else before
        if (comp, data) != ref:
            ctx.fail(f"C17/unedited-changed/{tag}{later}", "the image-data section changed although nothing structural was edited"
                     + nth, case, {"len": len(data), "compression": comp}, {"len": len(ref[1]), "compression": ref[0]})
            return "unedited changed", True
        return "preserved", True

    # ---------------- edited: the model's routes
    if cm not in NCOLOR:
        model = ("ok", "none")
    else:
        model = ctx.driver().batch([("merged.routes", cm, nch, depth, "1" if mt else "0",
                                     ",".join(map(str, ids)) or "-", lc, "1" if old_ok[0] == "ok" else "0")])[0]
    result = "valid"
    if model[0] == "ok" and model[1] == "none":
        if (comp, data) != before:
            ctx.disagree("model: merged image left alone, implementation rewrote it", case)
        return "left alone (unsupported mode/depth)", True
    if model[0] != "ok":
        ctx.disagree("model answers " + "/".join(model), case)
    # ---------------- the property: plane count and sizes, independent of the library's decoders
    ok, detail = pc.section_geometry(comp, data, w, h, nch, depth, fh["version"])
    if not ok:
        pl = detail.get("planes")
        why = f"{pl:g}-planes-for-{nch}-channels" if isinstance(pl, (int, float)) and pl else "wrong-size"
        ctx.fail(f"C17/plane-count/{tag}/{why}", "the merged image written after a structural edit does not have the planes "
                 "and size the header declares" + nth, case, detail, {"planes": nch, "bytes_per_plane": w * h * depth // 8})
        result = "wrong geometry"
    got = _call(lambda: [bytes(p) for p in p2._record.image_data.get_data(p2._record.header)])
    if got[0] == "err":
        ctx.fail(f"C17/unreadable/{tag}/{['RAW', 'RLE', 'ZIP', 'ZIPP'][comp]}/{got[1]}",
                 "ImageData.get_data of the reopened file fails" + nth, case, got[1:], "the planes")
        return "unreadable", True
    if len(got[1]) != nch or any(len(p) != w * h * depth // 8 for p in got[1]):
        ctx.fail(f"C17/plane-count/{tag}/get_data-shape", "get_data returns planes of another shape than the header declares",
                 case, [len(p) for p in got[1]], [w * h * depth // 8] * nch)
    # ---------------- correspondence: which plane received what
    if model[0] == "ok" and cap.calls:
        color, _shape, alpha = cap.calls[-1]
        try:
            exp = planes_from_routes(model[1], color, alpha, old_ok[1] if old_ok[0] == "ok" else [], depth)
            if exp != got[1]:
                bad = [k for k, (a, b) in enumerate(zip(exp, got[1])) if a != b]
                ctx.disagree("stored planes differ from the model's sources applied to the captured composite",
                             {**case, "model": model[1], "planes_differing": bad})
        except Exception as e:  # noqa
            ctx.disagree(f"model sources cannot be realised: {e}", {**case, "model": model})
    elif model[0] == "ok":
        ctx.disagree("save() of a structurally edited document did not call the numeric composite" + nth, case)
    vi = p2.has_preview()
    if not vi:
        ctx.fail(f"C17/preview-flag/{tag}/has_preview-false", "the reopened document says it has no merged image although save() wrote one",
                 case, False, True)
    # ---------------- oracle: the merged image equals the composite of the SAVED layers
    def walk(g):
        # own traversal: descendants() yields clipped layers twice (C10)
        for l in g:
            yield l
            if l.is_group():
                yield from walk(l)

    def shape(d):
        return [(l.kind, l.name, tuple(l.bbox), l.visible, str(l.blend_mode), l.opacity) for l in walk(d)]
    s1, s2 = shape(psd), shape(p2)
    if [x[:2] for x in s1] != [x[:2] for x in s2]:
        kind = "file-with-Lr16-Lr32" if depth in (16, 32) and case.get("fixture") else "other"
        ctx.fail(f"C17/merged-vs-composite/{kind}/layers-lost-on-save",
                 "the reopened document has other layers than the saved one, so the merged image cannot match them",
                 case, [x[1] for x in s2], [x[1] for x in s1])
        return "layers lost", True
    if s1 != s2:
        attrs = ["kind", "name", "bbox", "visible", "blend_mode", "opacity"]
        diff = sorted({f"{attrs[i]}-of-{a[0]}" for a, b in zip(s1, s2) for i in range(6) if a[i] != b[i]})
        ctx.fail(f"C17/merged-vs-composite/attribute-not-persisted/{'+'.join(diff)}",
                 "a layer attribute that the composite depends on is not the same in the reopened file, so the merged "
                 "image (rendered from the layers in memory) cannot match the saved layers", case,
                 [x for x, y in zip(s2, s1) if x != y][:3], [y for x, y in zip(s2, s1) if x != y][:3])
        return "attribute not persisted", True
    c2 = _call(lambda: np_composite(p2, force=True))
    if c2[0] == "err":
        ctx.skipped.append(f"{label}: composite of the reopened document raises {c2[1]}")
        return result, True
    color2, _s2, alpha2 = [np.asarray(x, dtype=np.float64) for x in c2[1]]
    if cap.calls:
        c1, _x, a1 = cap.calls[-1]
        f1 = c1.astype(np.float64) * a1 + (1.0 - a1)
        f2 = color2 * alpha2 + (1.0 - alpha2)
        if c1.shape == color2.shape and not (float(np.abs(f1 - f2).max()) <= 1e-4 and float(np.abs(a1 - alpha2).max()) <= 1e-4):
            # same layers, same attributes, yet the document in memory renders differently from the reopened file:
            # derived render state of the edited tree is stale (the merged image is the in-memory rendering)
            clip = any(getattr(l, "clipping_layer", False) or getattr(l, "_clip_layers", None)
                       for d in (psd, p2) for l in walk(d))
            feat = "clipping" if clip else "other"
            ctx.fail(f"C17/merged-vs-composite/stale-render-state/{feat}",
                     "the edited document in memory composites differently from the same layers after reopening, so the "
                     "merged image (rendered in memory) does not match the saved layers", case,
                     float(np.abs(f1 - f2).max()), "same rendering")
            return "stale render state", True
    n = NCOLOR[cm]
    r_planes = check_extra_planes(ctx, case, tag, later, nth, n, nch, depth, w, h, mt, ids, lc, old_ok, got[1], alpha2)
    if r_planes:
        result = r_planes
    flat_comp = color2 * alpha2 + (1.0 - alpha2)
    transparent = nch > n and bool(has_transparency(p2))
    semi = bool(((alpha2 > 0.02) & (alpha2 < 0.98)).any())
    ctx.hist("edited_documents_compared_with_their_composite",
             f"{cm}/depth{depth}/{'transparency plane kept' if transparent else 'extra plane not a transparency' if nch > n else 'no extra plane'}"
             f"/{'semi-transparent result' if semi else 'result without partial alpha'}"
             + ("/declared no composite before the edit" if nocomp else ""))
    lsb = 1.0 / 255 + 1e-6
    arr = _call(lambda: np.asarray(p2.numpy(), dtype=np.float64))
    if arr[0] == "err":
        ctx.fail(f"C17/unreadable/{tag}/numpy-{arr[1]}", "numpy() of the reopened file fails", case, arr[1:], "an array")
        return "unreadable", True
    a = arr[1]
    if transparent:
        ti = get_transparency_index(p2) % nch
        al = a[:, :, ti:ti + 1]
        flat_re = a[:, :, :n] * al + (1.0 - al)
        d_alpha = float(np.abs(al - alpha2).max())
    else:
        flat_re = a[:, :, :n]
        d_alpha = 0.0
    d_col = float(np.abs(flat_re - flat_comp).max())
    worst = max(d_col, d_alpha)
    # (a non-finite difference - garbage planes read back as float32 - is a difference)
    ctx.hist("merged_vs_composite_lsb", min(int(round(worst * 255)), 9) if np.isfinite(worst) else "non-finite")
    if not (d_col <= lsb and d_alpha <= lsb):
        ctx.fail(f"C17/merged-vs-composite/{tag}/{'colour' if d_alpha <= lsb else 'alpha'}-differs{later}",
                 "numpy() of the reopened file differs from composite(force=True) of its layers by more than 1 LSB" + nth,
                 case, {"colour": d_col, "alpha": d_alpha}, "<= 1/255")
        result = "differs from composite"
    # topil() against the same composite
    im = _call(lambda: p2.topil(apply_icc=False))
    if im[0] == "err" or im[1] is None:
        ctx.fail(f"C17/unreadable/{tag}/topil-{im[1] if im[0] == 'err' else 'None'}", "topil() of the reopened file fails",
                 case, im[1:], "an image")
    else:
        b = np.asarray(im[1]).astype(np.float64).reshape(h, w, -1) / 255.0
        if cm == "CMYK":
            b = 1.0 - b
        ref = flat_comp
        if im[1].mode == "RGBA":
            # an 8-bit image cannot hold un-matted values outside [0, 1]
            ref = np.clip(color2, 0.0, 1.0) * alpha2 + (1.0 - alpha2)
        if im[1].mode in ("LA", "RGBA"):
            fl = b[:, :, :n] * b[:, :, n:n + 1] + (1.0 - b[:, :, n:n + 1])
        else:
            fl = b[:, :, :n]
            if transparent:
                # PIL has no alpha band for this mode (CMYK): topil() shows the colour planes as stored,
                # i.e. the straight colour that belongs to the transparency plane numpy() returns
                ref = color2
        tol = 2.0 / 255 + 1e-6      # 8-bit truncation in _create_image / matte removal on top of the stored rounding
        d = float(np.abs(fl - ref).max())
        if not d <= tol:
            ctx.fail(f"C17/merged-vs-composite/{tag}/topil-differs{later}",
                     "topil() of the reopened file differs from composite(force=True) of its layers" + nth, case, d, "<= 2/255")
            result = "differs from composite"
    return result, True


def transparency_plane(n, nch, mt, ids, lc):
    """Which plane of the merged image is its transparency, by the published layout (stated here independently of the library's
    predicates): there is one when the header has planes beyond the colour planes AND (a merged-transparency block says so, or there
    are no layers and ALPHA_IDENTIFIERS does not list positive identifiers only); it is the plane ALPHA_IDENTIFIERS marks with 0 -
    the identifiers describe the LAST len(ids) planes - or the last plane when none is marked. -> index | None"""
    if nch <= n:
        return None
    if not mt and ((ids and all(x > 0 for x in ids)) or lc > 0):
        return None
    if ids and 0 in ids:
        return max(nch - len(ids) + ids.index(0), n)
    return nch - 1


def ids_class(n, nch, ids):
    k = nch - n
    if not ids:
        return f"{k}-extra/no-identifiers"
    if 0 not in ids:
        return f"{k}-extra/transparency-unlisted"
    p = ids.index(0)
    return f"{k}-extra/transparency-" + ("only" if len(ids) == 1 else "first" if p == 0 else "last" if p == len(ids) - 1 else "middle")


def check_extra_planes(ctx, case, tag, later, nth, n, nch, depth, w, h, mt, ids, lc, old_ok, got, alpha2):
    """every plane beyond the colour planes against its source: the transparency plane (transparency_plane) = the alpha of the
    composite of the REOPENED layers; every other extra plane (saved selections, spot channels) = what it was, byte for byte"""
    if nch <= n or len(got) != nch:
        return None
    tp = transparency_plane(n, nch, mt, ids, lc)
    cls = ids_class(n, nch, ids) + ("/merged-transparency-block" if mt else "")
    ctx.hist("extra_planes", f"{cls}/{'transparency plane ' + str(tp - n) if tp is not None else 'no transparency plane'}")
    res = None
    old = old_ok[1] if old_ok[0] == "ok" and len(old_ok[1]) == nch else None
    for k in range(n, nch):
        if k == tp:
            al = to_float(got[k], depth, h, w)
            d = float(np.abs(al - alpha2[:, :, 0]).max())
            if not d <= 1.0 / 255 + 1e-6:
                ctx.fail(f"C17/merged-planes/{tag}/{cls}/transparency-plane-is-not-the-composite-alpha{later}",
                         f"plane {k} of the merged image is the transparency (ALPHA_IDENTIFIERS {ids or 'absent'}) but does not hold the alpha of "
                         "the composite of the saved layers" + nth, case, {"plane": k, "max_difference": d}, "<= 1/255")
                res = "transparency plane differs"
        elif old is not None and got[k] != old[k]:
            ctx.fail(f"C17/merged-planes/{tag}/{cls}/extra-channel-not-preserved{later}",
                     f"plane {k} of the merged image is not derived from the layers (ALPHA_IDENTIFIERS {ids or 'absent'}: a saved selection / "
                     "spot channel) and was changed by save()" + nth, case,
                     {"plane": k, "bytes_differing": sum(a != b for a, b in zip(got[k], old[k]))}, "byte-identical to the plane before the save")
            res = "extra channel changed"
    return res


def make_channel_doc(mode, depth, comp, size, extra, ids, mtrn, seed):
    """a document with `extra` planes beyond the colour planes (random content), ALPHA_IDENTIFIERS `ids` (None: no resource) and
    optionally the merged-transparency block, one imported layer; saved and reopened -> (document, bytes)"""
    from psd_tools import PSDImage
    from psd_tools.api.layers import PixelLayer
    from psd_tools.constants import ColorMode, Resource
    from psd_tools.psd import PSD, FileHeader, ImageData, ImageResources
    from psd_tools.psd.image_resources import AlphaIdentifiers, ImageResource
    cmode = {"L": ColorMode.GRAYSCALE, "RGB": ColorMode.RGB, "CMYK": ColorMode.CMYK}[mode]
    n = NCOLOR[cmode.name]
    W, H = size
    header = FileHeader(version=1, width=W, height=H, depth=depth, channels=n + extra, color_mode=cmode)
    g = np.random.default_rng(seed)
    planes = [quantise(g.random((H, W)), depth) for _ in range(n + extra)]
    idata = ImageData(compression=comp)
    idata.set_data(planes, header)
    psd = PSDImage(PSD(header=header, image_data=idata, image_resources=ImageResources.new()))
    if ids is not None:
        psd.image_resources[Resource.ALPHA_IDENTIFIERS] = ImageResource(key=Resource.ALPHA_IDENTIFIERS, data=AlphaIdentifiers(list(ids)))
    im = pc.make_image("RGBA", max(1, W - 1), max(1, H - 1), seed % 100000)
    psd.append(PixelLayer.frompil(im, psd, "base", 0, 0))
    p, raw = pc.save_reopen(psd)
    if mtrn:
        p, raw = restage(p, "merged-transparency-tag", depth)
    return p, raw


def channel_layouts():
    """(extra, ids): 0-3 extra planes x every place of the transparency in ALPHA_IDENTIFIERS (first / middle / last / unlisted) and no resource"""
    out = []
    for extra in range(4):
        out.append((extra, None))
        if extra:
            other = [7, 9, 12]
            for pos in range(extra):
                out.append((extra, [0 if q == pos else other[q] for q in range(extra)]))
            out.append((extra, other[:extra]))
    return out


class Probe:
    """stands in for the run while a failing history is shrunk: same driver, failures recorded, nothing counted"""

    def __init__(self, ctx):
        self._ctx = ctx
        self.failures, self.skipped, self.corr_cases = [], [], 0

    def driver(self):
        return self._ctx.driver()

    def hist(self, *a, **k):
        pass

    disagree = count = hist

    def fail(self, signature, what, input, observed=None, expected=None, how="search"):
        self.failures.append(dict(signature=signature, what=what, observed=observed, expected=expected))


def shrink_failures(ctx, n_before, make_doc, case, original_section, st):
    """the failures this case added are re-reported on the shortest sub-history that still fails with the same signature"""
    new = [f for f in ctx.failures[n_before:] if f["input"] is case]
    for f in new:
        if len(case["ops"]) <= 1 or st["shrunk"] >= 8:
            continue
        st["shrunk"] += 1

        def fails(sub, f=f):
            pr = Probe(ctx)
            try:
                run_case(pr, "shrink", make_doc, sub, dict(case, ops=sub), original_section)
            except Exception:  # noqa
                return None
            hit = [x for x in pr.failures if x["signature"] == f["signature"]]
            return hit[0] if hit else None
        small = core.ddmin(case["ops"], lambda sub: fails(list(sub)) is not None)
        if len(small) < len(case["ops"]):
            hit = fails(list(small))
            if hit:
                f["input"] = dict(case, ops=list(small), shrunk_from=list(case["ops"]))
                f["observed"], f["what"] = hit["observed"], hit["what"]


def make_api_doc(mode, depth, comp, size, op_seed, store="plain"):
    """a new document with one imported layer (alpha 0 / partial / 255, smaller than the canvas), saved and reopened - the
    starting point of a history - optionally re-stored as `store` says -> (document, bytes of the file it was read from)"""
    from psd_tools import PSDImage
    from psd_tools.api.layers import PixelLayer
    psd = PSDImage.new(mode, tuple(size), color=200 if depth == 8 else 0, depth=depth, compression=comp)
    if store == "unsaved":
        # the new document itself, never saved, without layers: the history's first save is the document's first save
        return psd, None
    im = pc.make_image("RGBA", max(1, size[0] - 1), max(1, size[1] - 1), op_seed % 100000)
    psd.append(PixelLayer.frompil(im, psd, "base", 0, 0))
    p, raw = pc.save_reopen(psd)
    if store != "plain":
        p, raw = restage(p, store, depth)
    return p, raw


# ---- the merged image sample by sample, on generated documents (harness/merged_pixels.py) ----------------
def pixel_tag(case):
    return f"{case['mode']}-depth{case['depth']}/{'transparency-plane' if case['plane'] else 'flattened+kept-plane' if case.get('kept') else 'flattened'}"


def eval_pixel_case(ctx, case, st, shrink=True):
    """one generated document + one structural edit + save + reopen: property oracle (independent reference), correspondence
    with the model sample by sample, correspondence of the sample arithmetic on the captured composite"""
    import comp_common as cc
    import merged_pixels as mpx
    tag = pixel_tag(case)
    cj = mpx.case_json(case)
    res = mpx.eval_case(case)
    ctx.corr_cases += 1
    if res["error"]:
        stage, cls, msg = res["error"]
        if stage in ("build", "edit"):
            ctx.skipped.append(f"pixel case {case['shape']}/{tag}/{case['edit']}: {stage} raises {cls} ({msg[:80]})") if len(ctx.skipped) < 40 else None
            return "skipped"
        if stage == "extraction":
            ctx.disagree(f"the layers of the reopened file cannot be read with the compositor's getters: {cls}: {msg}", cj)
            return "extraction failed"
        ctx.fail(f"C17/{'save-raises' if stage == 'save' else 'unreadable'}/{tag}/{cls}",
                 f"{'save()' if stage == 'save' else 'ImageData.get_data of the reopened file'} after a structural edit raises {cls}: {msg}",
                 cj, [cls, msg], "a file whose merged image can be read")
        return stage + " raises"
    W, H, depth, nch = res["W"], res["H"], res["depth"], res["nch"]
    if case["shape"] == "witness-black-128" and res["stored"] != [bytes([127])]:
        ctx.disagree("the witness of flatten_uses_alpha_not_shape is not reproduced by the real code (expected the sample 127)",
                     dict(cj, stored=[p.hex() for p in res["stored"]]))
    if not res["dirty"]:
        ctx.disagree("the structural edit did not set the flag (model: dirtyAfter)", cj)
    ok, detail = res["geometry"]
    if not ok:
        ctx.fail(f"C17/plane-count/{tag}/wrong-size", "the merged image written after a structural edit does not have the planes and "
                 "size the header declares", cj, detail, {"planes": nch, "bytes_per_plane": W * H * depth // 8})
    if not res["has_preview"]:
        ctx.fail(f"C17/preview-flag/{tag}/has_preview-false", "the reopened document says it has no merged image although the "
                 "structure was edited and saved", cj, False, True)
    # the call save() makes into the compositor (run-time side of `composite_call_tied`)
    calls = res["calls"]
    if len(calls) != 1 or calls[0][0] != {"force": True, "nargs": 1}:
        ctx.disagree("save() does not call composite(psd, force=True) exactly once (model: compositePsd / Generated compositeCall)",
                     dict(cj, calls=[k for k, _ in calls]))
    mt, ids, lc = res["meta"]
    reqs = [("merged.routes", res["cmode"], nch, depth, "1" if mt else "0", ",".join(map(str, ids)) or "-", lc,
             "1" if res["old"] is not None else "0")]
    reqs += res["reqs"]
    # sample arithmetic alone: every value the captured composite holds, through the model's flatten / plane()
    cap = calls[-1][1] if calls else None
    npx = len(res["pixels"])
    nsamp = 0
    if cap is not None and cap[0].shape[:2] == (H, W) and cap[2].shape[:2] == (H, W):
        ccol, _cs, calp = cap
        for (x, y) in res["pixels"]:
            for k in range(ccol.shape[2]):
                reqs.append(("mergedpx.sample", depth, mpx.f32_rat(ccol[y, x, k]), mpx.f32_rat(calp[y, x, 0])))
                nsamp += 1
    answers = ctx.driver().batch(reqs)
    routes = answers[0]
    result = "equal to the model"
    if routes[0] != "ok" or routes[1] == "none":
        ctx.disagree("model: no regeneration for this document (" + "/".join(routes) + ")", cj)
        return "no routes"
    rs = routes[1].split(";")
    st["routes"][routes[1]] = st["routes"].get(routes[1], 0) + 1
    # ---- correspondence: every stored sample against the model's bytes (saved layers -> compositeDoc -> flatten -> plane())
    if res["nlayers"]:
        bad, cnt = mpx.compare_with_model(case, res, routes[1], answers[1:1 + len(res["reqs"])])
        for k, v in cnt.items():
            if k == "max-excess":
                st["max_excess"] = max(st["max_excess"], v)
            else:
                st["cnt"][k] = st["cnt"].get(k, 0) + v
        if bad:
            ctx.disagree("stored samples differ from the model (Model/MergedPixels.lean on the per-pixel tree of the saved layers)",
                         dict(cj, routes=routes[1], first=bad[:3], differing=len(bad)))
            result = "differs from the model"
    # ---- correspondence of the arithmetic: captured float32 composite -> model bytes
    if nsamp:
        sa = answers[1 + len(res["reqs"]):]
        size = depth // 8
        n_col = cap[0].shape[2]
        worst = None
        for pi, (x, y) in enumerate(res["pixels"]):
            i = y * W + x
            for k, r in enumerate(rs):
                if r[0] in "FC":
                    ch = int(r[1:])
                    if ch >= n_col:
                        continue
                    a = sa[pi * n_col + ch]
                elif r == "A":
                    a = sa[pi * n_col]
                else:
                    continue
                if a[0] != "ok" or len(a) < 6:
                    worst = {"what": "model answers " + "/".join(a[:2])}
                    continue
                if r[0] == "F":
                    hexes, exact = a[1], mpx.frac(a[5])
                elif r[0] == "C":
                    hexes, exact = a[2], Fraction(float(cap[0][y, x, int(r[1:])]))
                else:
                    hexes, exact = a[3], Fraction(float(cap[2][y, x, 0]))
                got = res["stored"][k][i * size:(i + 1) * size]
                st["arith"]["samples"] += 1
                if got.hex() == hexes:
                    st["arith"]["equal"] += 1
                    continue
                if depth == 32:
                    d = abs(float(np.frombuffer(got, ">f4")[0]) - float(exact))
                    okk = r[0] == "F" and d <= mpx.DELTA_ARITH
                else:
                    g = int.from_bytes(got, "big")
                    d = abs(float(exact) * mpx.SCALE[depth] - g) - 0.5
                    okk = d <= mpx.DELTA_ARITH * mpx.SCALE[depth]
                if okk:
                    st["arith"]["within float32 rounding of flatten / scale"] += 1
                else:
                    worst = {"what": "stored sample is not plane() of the captured composite", "plane": k, "route": r, "pixel": [x, y],
                             "stored": got.hex(), "model": hexes}
        if worst:
            ctx.disagree("sample arithmetic differs from the model (flatten / np.round / scale / dtype on the captured composite)",
                         dict(cj, routes=routes[1], first=worst))
            result = "differs from the model"
    # ---- the property itself, against the independent reference
    v = mpx.reference_verdict(case, res)
    recipe2 = mpx.edit_recipe(case["recipe"], case["edit"])
    if res["ref"] is not None:
        sc, ss, sal, uns = res["ref"]
        semi = bool(((ss - sal > 0.02) & (sal < 0.98)).any())
        ctx.hist("pixel_cases_translucent_over_empty_canvas", "some pixel has coverage > alpha < 1" if semi else "none")
        st["checked_pixels"] += int((~uns).sum())
    novis = bool(recipe2) and not any(n.get("visible", True) for n in recipe2)
    ctx.hist("pixel_cases", f"{tag}/{case['edit']}" + ("/no visible top-level layer" if novis else "") + ("/layerless" if not recipe2 else "")
             + ("/stored without composite" if case.get("store") == "no-composite" else ""))
    ctx.hist("pixel_case_features", cc.feature_sig({"recipe": recipe2, "size": case["size"], "mode": case["mode"]}) if recipe2 else "layerless")
    if v:
        what = v["what"]
        failing = cj
        if shrink and st["shrunk"] < 3 and what != "geometry":
            st["shrunk"] += 1

            def fails(d, what=what):
                c2 = dict(case, recipe=d["recipe"])
                if len(c2["recipe"]) < (2 if case["edit"] in ("del-top", "del-bottom") else 1):
                    return False
                r2 = mpx.eval_case(c2)
                if r2["error"]:
                    return False
                v2 = mpx.reference_verdict(c2, r2)
                return bool(v2) and v2["what"] == what
            small = cc.shrink_doc({"recipe": case["recipe"], "size": case["size"], "mode": case["mode"]}, fails, budget=40)
            if cc.count_layers(small["recipe"]) < cc.count_layers(case["recipe"]) or True:
                c2 = dict(case, recipe=small["recipe"])
                r2 = mpx.eval_case(c2)
                v2 = None if r2["error"] else mpx.reference_verdict(c2, r2)
                if v2 and v2["what"] == what:
                    failing, v = dict(mpx.case_json(c2), shrunk_from_layers=cc.count_layers(case["recipe"])), v2
        ctx.fail(f"C17/merged-vs-reference/{tag}/{what}-differs",
                 "the merged image of the saved file differs from the composite of its layers (published compositing model over the "
                 "saved layers, flattened on white with the alpha; tolerance: C11's plus half a quantisation step)",
                 failing, {k: v[k] for k in v if k != "what"}, "stored = quantise(flatten(composite of the saved layers))")
        return "differs from the reference"
    return result


def run_pixel_cases(ctx, src, note):
    import merged_pixels as mpx
    rng = ctx.rng
    nprng = np.random.RandomState(rng.randrange(2 ** 32))
    cases = mpx.forced_cases()
    corpus = core.VERIF / "harness" / "corpus" / "C17.json"
    if corpus.exists():
        cases += [mpx.case_from_json(c) for c in json.loads(corpus.read_text()) if c.get("kind") == "pixdoc"]
    cases += [mpx.random_case(rng, nprng) for _ in range(110 if ctx.quick else 1500)]
    st = {"cnt": {}, "arith": {"samples": 0, "equal": 0, "within float32 rounding of flatten / scale": 0}, "max_excess": 0.0,
          "routes": {}, "shrunk": 0, "checked_pixels": 0}
    # np.round / np.clip / scale / np.float32 against the model's `code` and `f32Bits`
    reqs, exp = mpx.rounding_law_requests(rng)
    nbad = 0
    for rq, a, e in zip(reqs, ctx.driver().batch(reqs), exp):
        ctx.corr_cases += 1
        if a[0] != "ok" or a[1] != e:
            nbad += 1
            if nbad <= 3:
                ctx.disagree("rounding law: NumPy and the model differ (np.round half-even / np.clip / scale / float32)",
                             {"request": list(rq), "numpy": e, "model": list(a)})
    ctx.hist("rounding_law_requests", f"{len(reqs)} compared, {nbad} differ")
    for case in cases:
        key = json.dumps(mpx.case_json(case), sort_keys=True)
        ctx.count(("pixdoc", hash(key)), nontrivial=len(case["recipe"]) > 1)
        res = eval_pixel_case(ctx, case, st)
        note(f"generated {pixel_tag(case)}", res)
    ctx.sample({"pixel_case": {k: v for k, v in mpx.case_json(cases[-1]).items() if k != "recipe"}})
    ctx.extra["pixel_correspondence"] = {
        "cases": len(cases), "stored samples compared with the model (whole pipeline)": st["cnt"],
        "largest float32 deviation beyond the rounding interval, value units": st["max_excess"],
        "allowed": {"DELTA": mpx.DELTA, "DELTA_ARITH": mpx.DELTA_ARITH, "DELTA32": mpx.DELTA32},
        "stored samples compared with plane() of the captured composite": st["arith"],
        "routes seen": st["routes"], "pixels compared with the independent reference": st["checked_pixels"]}



# ---- the check -------------------------------------------------------------------------------
def run(ctx: core.Run):
    ctx.regenerate(extract_c07.gen_pixels)
    src = ctx.regenerate(extract_c17.gen_merged_pixels)
    ctx.prove(["PsdVerif.Props.C17", "PsdVerif.Props.C17Pixels"])
    ctx.trusted_base += [
        "Lean 4.33 kernel; axioms allowed: propext, Classical.choice, Quot.sound (audited per theorem)",
        "Model/Merged.lean: hand transliteration of PSDImage.save / _merged_planes / ImageData.get_data / set_data and of "
        "what sets _updated_layers; tied by this run's correspondence check (dirty flag per history before and after every "
        "save, source of every stored plane against the captured composite)",
        "Model/MergedPixels.lean: hand transliteration of the numbers of _merged_planes (the composite call, flatten with the alpha, "
        "np.round half-to-even, scale, dtype, binary32) - tied by Generated/MergedPixels.lean (AST, every run) and by the pixel "
        "correspondence (every stored sample of generated documents against the model's bytes)",
        "Model/Composite.lean (C11) is the numeric composite; the channel codecs (C04) are parameters of the model",
        "comp_common.XDoc: the per-pixel layer tree is read from the REOPENED file with the getters the compositor uses",
        "harness/pixels_common.section_geometry: independent reading of RAW / RLE (row table + PackBits) / ZIP sections",
    ]
    ctx.assumptions += [
        "Composite.WF: composite(force=True) returns channels(colour mode) colour planes and an alpha plane of the "
        "document size (checked on every case through the captured arrays)",
        "Quant.Lawful: a sample is written as depth/8 bytes",
        "decompress(compress(x)) = x for the geometry used (C04)",
        "merged_equals_composite is a theorem about the models (C17's save / _merged_planes composed with C11's compositor); the code "
        "computes in float32 what the models compute over Rat: stored samples are compared exactly, a sample whose exact value is "
        "within 1e-6 of a rounding boundary may be one code off",
        "effects, vector masks, fills, strokes, adjustment layers, 'real' combined masks are outside the compositor model (as in C11); "
        "for documents with such layers only the oracle on the real code applies",
    ]
    from psd_tools import PSDImage
    from psd_tools.constants import Compression
    rng = ctx.rng
    quick = ctx.quick
    results = {}
    comps = [Compression.RAW, Compression.RLE, Compression.ZIP, Compression.ZIP_WITH_PREDICTION]

    def note(key, res):
        results.setdefault(key, {})
        results[key][res] = results[key].get(res, 0) + 1

    shrink_st = {"shrunk": 0}
    corpus = core.VERIF / "harness" / "corpus" / "C17.json"
    corp = json.loads(corpus.read_text()) if corpus.exists() else []

    # ---------------- API-created documents
    api_cases = []
    for c in corp:
        if c.get("kind") == "api":
            api_cases.append((c["mode"], c["depth"], Compression(c["compression"]), c["size"], c["ops"], c.get("store", "plain")))
    for mode in DOC_MODES:
        for depth in (8, 16, 32):
            for comp in comps:
                size = rng.choice([(4, 4), (1, 5), (6, 1), (9, 3)] if quick else [(4, 4), (1, 5), (6, 1), (9, 3), (129, 2), (16, 16)])
                # one structural history and one quiet history per configuration
                k = rng.randrange(1, 4)
                sops = ["append"] + [rng.choice(STRUCT_OPS + QUIET_OPS) for _ in range(k)]
                qops = [rng.choice(QUIET_OPS) for _ in range(k + 1)]
                api_cases.append((mode, depth, comp, size, sops, "plain"))
                api_cases.append((mode, depth, comp, size, qops, "plain"))
                # a history with more than one save: every file it writes is examined
                api_cases.append((mode, depth, comp, size, two_save_history(rng), "plain"))
    for mode in DOC_MODES:
        # the shapes that must be there whatever the seed draws
        for shape in ("edit-save-attr", "save-save", "attr-save-attr"):
            api_cases.append((mode, 8, rng.choice(comps), (5, 4), two_save_history(rng, shape), "plain"))
        # a translucent layer (opacity 128: coverage 1, alpha < 1) sticking out over empty canvas; no visible top-level layer
        # left after the edit; the choice of a compatibility mode alone (NOT a structural edit: byte-for-byte preservation),
        # alone on a document stored without a composite, and after a structural edit
        api_cases.append((mode, 8, rng.choice(comps), (5, 4), ["append", "setOpacity"], "plain"))
        api_cases.append((mode, rng.choice([8, 16, 32]), rng.choice(comps), (5, 4), ["insert", "hideAll"], "plain"))
        api_cases.append((mode, 8, rng.choice(comps), (4, 4), ["append", "hideAll", SAVE, "setVisible"], "plain"))
        api_cases.append((mode, rng.choice([8, 16, 32]), rng.choice(comps), (4, 4), ["setCompatibilityMode"], "plain"))
        api_cases.append((mode, 8, rng.choice(comps), (4, 4), ["setCompatibilityMode", SAVE, "setOpacity"], "no-composite-flag"))
        api_cases.append((mode, 8, rng.choice(comps), (4, 4), ["append", "setCompatibilityMode"], "plain"))
    # the same documents stored the way other writers store them (every mode x depth x storage that applies, whatever the
    # seed draws): a merged transparency that survives the edit, layers in Lr16 / Lr32, no merged image declared - each with
    # a structural edit, a quiet history and (thorough) a history with two saves
    for mode in DOC_MODES:
        for depth in (8, 16, 32):
            for store in STORES[1:]:
                if store == "merged-transparency-tag" and mode not in ALPHA_MODES:
                    continue
                if store == "layers-in-Lr16-Lr32" and depth == 8:
                    continue
                size = rng.choice([(4, 4), (5, 3), (3, 5)])
                api_cases.append((mode, depth, rng.choice(comps), size, [rng.choice(["append", "insert", "pop-append", "rotate", "groupLayers"])], store))
                api_cases.append((mode, depth, rng.choice(comps), size, ["append"] + [rng.choice(STRUCT_OPS + QUIET_OPS)], store))
                if mode in ALPHA_MODES or store == "no-composite-flag":
                    api_cases.append((mode, depth, rng.choice(comps), size, [rng.choice(QUIET_OPS[:-1]) for _ in range(2)], store))
                if not quick:
                    api_cases.append((mode, depth, rng.choice(comps), size, two_save_history(rng, "edit-save-attr"), store))
                    api_cases.append((mode, depth, rng.choice(comps), size, two_save_history(rng), store))
    # a document edited before its FIRST save (PSDImage.new, layers added, saved): that first file is examined too
    for mode in DOC_MODES:
        for depth in (8, 16, 32):
            api_cases.append((mode, depth, rng.choice(comps), rng.choice([(4, 4), (5, 3)]), ["append"] + [rng.choice(STRUCT_OPS + QUIET_OPS[:-1])
                                                                                         for _ in range(rng.randrange(0, 2))], "unsaved"))
        api_cases.append((mode, 8, rng.choice(comps), (4, 3), [rng.choice(QUIET_OPS[5:])], "unsaved"))
    if not quick:
        for mode in DOC_MODES:
            for op in STRUCT_OPS:
                api_cases.append((mode, 8, rng.choice(comps), (5, 4), ["append", op], "plain"))
    # histories through clip-relevant intermediate states, whatever the seed draws (top level and nested; saved and never-saved documents)
    for k, mode in enumerate(DOC_MODES):
        for q, ops in enumerate(CLIP_HISTORIES):
            if quick and (k + q) % 2 and mode not in ("RGB", "RGBA"):
                continue
            api_cases.append((mode, [8, 16, 32][(k + q) % 3] if mode not in ("RGB", "RGBA") else 8, comps[(k + q) % 4], (5, 4), list(ops), "plain"))
        for ops in CLIP_HISTORIES_UNSAVED:
            api_cases.append((mode, 8, comps[k % 4], (5, 4), list(ops), "unsaved"))
    for (mode, depth, comp, size, ops, store) in api_cases:
        case = {"kind": "api", "mode": mode, "depth": depth, "compression": int(comp), "size": list(size), "ops": ops,
                "op_seed": rng.randrange(1 << 30)}
        if store != "plain":
            case["store"] = store

        def make(mode=mode, depth=depth, comp=comp, size=size, case=case, store=store):
            p, raw = make_api_doc(mode, depth, comp, size, case["op_seed"], store)
            case["_section"] = image_data_section(raw)[1:] if raw is not None else None
            return p
        ctx.count(("api", mode, depth, int(comp), tuple(size), tuple(ops), store))
        ctx.hist("api_storage", f"{store}/{mode}/depth{depth}")
        r0 = _call(make)
        if r0[0] == "err":
            ctx.fail(f"C17/save-raises/{mode}-depth{depth}/{r0[1]}", f"saving a new {mode} document with one layer raises {r0[1]}: {r0[2]}",
                     case, r0[1:], "a file")
            note(f"api {mode}/{depth}", "save raises " + r0[1])
            continue
        section = case.pop("_section")
        nf = len(ctx.failures)
        res = run_case(ctx, f"api {mode}/{depth}", lambda r0=r0: r0[1], ops, case, original_section=section)
        if len(ctx.failures) > nf:
            shrink_failures(ctx, nf, lambda a=(mode, depth, comp, size, case["op_seed"], store): make_api_doc(*a)[0], case, section, shrink_st)
        note(f"api {mode}/{depth}" + ("" if store == "plain" else f" [{store}]"), res)
    ctx.sample({"api_case": {k: v for k, v in case.items()}})

    # ---------------- channel layouts: 0-3 extra planes x every order of ALPHA_IDENTIFIERS x merged-transparency block
    nlay = 0
    for mode in ("L", "RGB", "CMYK"):
        for (extra, ids) in channel_layouts():
            for mtrn in (False, True):
                if mtrn and not extra:
                    continue        # (a merged-transparency block without any plane beyond the colour planes is not a layout writers produce)
                nlay += 1
                for depth in ([(8, 16, 32)[nlay % 3]] if quick else [8, 16, 32]):
                    hists = [rng.choice([["append"], ["insert", "setOpacity"], ["rotate"], ["appendClip"], ["append", SAVE, "setVisible"]])]
                    if nlay % 3 == 0 or not quick:
                        hists.append([rng.choice(QUIET_OPS[:-1]) for _ in range(2)])
                    for ops in hists:
                        comp = comps[(nlay + len(ops)) % 4]
                        case = {"kind": "channels", "mode": mode, "depth": depth, "compression": int(comp), "size": [5, 4], "extra": extra,
                                "ids": ids, "mtrn": mtrn, "ops": ops, "op_seed": rng.randrange(1 << 30)}
                        mk = lambda c=case: make_channel_doc(c["mode"], c["depth"], Compression(c["compression"]), c["size"], c["extra"],
                                                             c["ids"], c["mtrn"], c["op_seed"])
                        ctx.count(("channels", mode, depth, extra, tuple(ids or ()), mtrn, tuple(ops)))
                        r0 = _call(mk)
                        if r0[0] == "err":
                            ctx.skipped.append(f"channel layout {mode}/{extra}/{ids}/{mtrn}: cannot build the document ({r0[1]}: {r0[2][:60]})")
                            continue
                        section = image_data_section(r0[1][1])[1:]
                        nf = len(ctx.failures)
                        res = run_case(ctx, f"channels {mode}/{depth}", lambda r0=r0: r0[1][0], ops, case, original_section=section)
                        if len(ctx.failures) > nf:
                            shrink_failures(ctx, nf, lambda mk=mk: mk()[0], case, section, shrink_st)
                        note(f"channels {mode}/+{extra}" + (" [merged-transparency-tag]" if mtrn else ""), res)

    # ---------------- documents read from files
    fdir = core.REPO / "tests" / "psd_files"
    if quick:
        files = [fdir / n for n in FIXTURES_QUICK if (fdir / n).exists()]
    else:
        files = [f for f in sorted(fdir.glob("*.ps[db]")) if f.stat().st_size < 400_000]
    area_limit = 160 * 160 if quick else 400 * 400
    special = {}
    for cls, f in special_fixtures(fdir, quick, area_limit):
        special.setdefault(f, set()).add(cls)
        ctx.hist("fixture_storage_class", f"{cls}: {f.relative_to(fdir)}")
    files += [f for f in special if f not in files]
    for f in files:
        raw0 = f.read_bytes()
        rel = str(f.relative_to(fdir))
        try:
            fh, comp0, data0 = image_data_section(raw0)
        except Exception as e:  # noqa
            ctx.skipped.append(f"{rel}: cannot locate the image-data section ({e})")
            continue
        if fh["width"] * fh["height"] > area_limit:
            continue
        hist = [[rng.choice(["pop-append", "rotate", "remove", "groupLayers"])],
                [rng.choice(QUIET_OPS[:-1]) for _ in range(2)], ["append"], ["setCompatibilityMode"],
                two_save_history(rng, rng.choice(["edit-save-attr", "edit-save-attr", "attr-save-attr", "save-save"]))]
        if not quick:
            hist += [[rng.choice(STRUCT_OPS)], [rng.choice(STRUCT_OPS), rng.choice(QUIET_OPS)], [rng.choice(QUIET_OPS)] * 2,
                     ["readSave"] + [rng.choice(QUIET_OPS)], two_save_history(rng), two_save_history(rng, "edit-save-attr")]
        if any(l.clipping_layer for l in _walk(PSDImage.open(f))):
            # fixtures with clipping layers: the run loses its base / the clipping layer its place, and gets it back
            hist += [["baseUpDown"], ["clipDownUp"]]
        if f in special:
            # whatever the seed draws: an appended translucent layer and a reordering on these documents
            hist += [["append"], ["insert", "setOpacity"]]
        for ops in hist:
            case = {"kind": "fixture", "fixture": rel, "ops": ops, "op_seed": rng.randrange(1 << 30)}
            ctx.count(("fixture", rel, tuple(ops)))
            nf = len(ctx.failures)
            res = run_case(ctx, rel, lambda f=f: PSDImage.open(f), ops, case, original_section=(comp0, data0))
            if len(ctx.failures) > nf:
                shrink_failures(ctx, nf, lambda f=f: PSDImage.open(f), case, (comp0, data0), shrink_st)
            note(f"file {fh['mode']}/ch{fh['channels']}/d{fh['depth']}" + "".join(f" [{c}]" for c in sorted(special.get(f, ()))), res)
    ctx.sample({"fixture_case": case})

    # ---------------- geometry of get_data vs the model, by lengths
    reqs, exp = [], []
    from psd_tools.psd.image_data import ImageData
    from psd_tools.psd.header import FileHeader
    from psd_tools.constants import ColorMode
    for comp in (0, 2):
        for ch in (1, 3, 4):
            for planes in (ch - 1, ch, ch + 1):
                if planes <= 0:
                    continue
                w, h, d = 4, 3, 8
                hd = FileHeader(width=w, height=h, depth=d, channels=ch, color_mode=ColorMode.RGB)
                idata = ImageData(compression=comp)
                hd2 = FileHeader(width=w, height=h, depth=d, channels=planes, color_mode=ColorMode.RGB)
                idata.set_data([bytes([7]) * (w * h)] * planes, hd2)
                r = _call(lambda: idata.get_data(hd))
                reqs.append(("merged.geometry", comp, w * h * planes, ch, d, w, h))
                exp.append(r)
    for rq, a, r in zip(reqs, ctx.driver().batch(reqs), exp):
        ctx.corr_cases += 1
        impl = ("ok", str(len(r[1])), ",".join(str(len(p)) for p in r[1])) if r[0] == "ok" else ("err", r[1])
        if tuple(a[:len(impl)]) != impl:
            ctx.disagree("get_data geometry differs from the model", {"request": rq[1:], "impl": impl, "model": a})

    # ---------------- the merged image, sample by sample, on generated documents
    run_pixel_cases(ctx, src, note)

    ctx.rule = (
        "API-created documents {L, LA, RGB, RGBA, CMYK, CMYK+alpha} x depth {8,16,32} x merged-image compression "
        "{RAW, RLE, ZIP, ZIP+prediction} with one imported layer, saved and reopened, then a seeded history that does "
        "(append/insert/extend/setitem/delitem/remove/pop/clear/move/group ...) or does not (attribute edits, read-only "
        "operations, an intermediate save) touch the structure, and histories with several saves (edit* ; save ; "
        "attribute-edit* ; save, save ; save, attribute-edit ; save ; attribute-edit, edit ; save ; edit, three saves) "
        "where EVERY file written is examined; the same API-created documents re-stored the way other writers store them, whatever "
        "the seed draws: with a merged-transparency block (Mtrn / Mt16 / Mt32; modes with an extra plane: the document stays "
        "transparent after the edit, and the imported layer has alpha 0 / partial / 255), with the layers in Lr16 / Lr32 (16 / 32 bit), "
        "with VersionInfo.has_composite = false, each x every mode x depth with a structural edit and a quiet history; documents of the "
        "test corpus with the same kinds of history, among them (searched recursively, classified from the record: "
        "histograms.fixture_storage_class) those stored without a merged image and those whose merged transparency survives an edit. "
        "Whatever the seed draws: histories through CLIP-RELEVANT intermediate states (CLIP_HISTORIES: a clipping layer appended over its base, "
        "the base moved above its run and back, the base deleted and replaced, the clipping flag toggled off and on, the clipping layer sent "
        "to the bottom of its list and back, the same inside a group, the clipping layer created before its base on a never-saved document) "
        "on every document mode, and on every fixture that has clipping layers; CHANNEL LAYOUTS: {L, RGB, CMYK} x 0-3 planes beyond the "
        "colour planes (random content) x ALPHA_IDENTIFIERS {absent, transparency first / middle / last / only / unlisted} x merged-"
        "transparency block {absent, present} x depth, a structural edit (and quiet histories), where EVERY plane is compared with its "
        "source: the transparency plane (the one the identifiers mark with 0, else the last) with the alpha of the composite of the "
        "REOPENED layers, every other extra plane byte for byte with what it was. "
        "Failing histories are shrunk (ddmin over the operations, same signature). "
        "Generated documents (harness/merged_pixels.py): recipes of the compositing checks (1-6 layers, groups, raster masks with "
        "density, clip runs, opacity / fill, knockout, hidden layers, layers straddling / beyond / outside the canvas, twelve continuous "
        "blend modes) x {L, RGB, CMYK} x depth {8, 16, 32} x {no extra plane, transparency plane} x merged codec x {plain, stored "
        "without composite} x one structural edit {touch, rotate, delete bottom / top, hide every top-level layer, hide the top layer, "
        "top opacity 100, wrap the top layer in a group, clear}; whatever the seed: translucent layers over empty canvas through "
        "opacity / fill / mask density, no visible top-level layer after the edit, a visible layer in a hidden group, layers beyond the "
        "canvas, an emptied document; every stored sample is compared with the model, every pixel with the independent reference. "
        "Each case = (document, history); distinct = distinct (document configuration, history) tuples."
    )
    ctx.model_coverage = {
        "modelled": ["PSDImage.save (dirty flag, has_composite)", "PSDImage._merged_planes (supported modes/depths, source "
                     "of every plane, flattening decision)", "ImageData.set_data / get_data geometry per compression",
                     "what sets _updated_layers"],
        "modelled_pixels": ["composite(self, force=True): backdrop, viewport, filter, the layerless branch", "flattening on white with the "
                            "alpha", "plane(): np.round half-even, clip, scale 255 / 65535, big-endian, binary32", "row-major planes",
                            "Compositor (C11 model)"],
        "parameters": ["channel codecs (C04)", "blend functions (C12: any B with BlendOk)"],
        "opaque": ["merged image of BITMAP/INDEXED/MULTICHANNEL/DUOTONE/LAB documents (left as it is by save())"],
    }
    ctx.extra["results"] = results
    ctx.notes += [
        "the composite the stored merged image is compared with is that of the REOPENED file (a fresh object without history: "
        "check_save's c2 / p2), and the in-memory render captured during save() is compared with it too (signature "
        "C17/merged-vs-composite/stale-render-state/...): derived render state that survives a history (a clipping layer that was "
        "base-less at some point) shows as a difference between the two.",
        "merged_equals_composite: theorem (Props/C17Pixels.lean) + pixel correspondence (extra.pixel_correspondence) + two oracles on the "
        "real code: reopened numpy()/topil() against composite(force=True) of the reopened layers (histories on API documents and "
        "fixtures, 1-2 LSB), and the stored samples of generated documents against a float64 implementation of the published model "
        "over the recipe (independent of the library's compositor).",
        "a document WITHOUT layers (everything deleted) is not composited: composite() returns the stored image, so the regenerated "
        "merged image is the old one re-quantised (theorem layerless_document_keeps_image); the independent reference is not applied "
        "to that case (the image data is the document).",
        "documents whose extra channel is not taken for the transparency by the readers (layers present, no "
        "merged-transparency block) keep that channel as it is: it is not derived from the layers.",
        "several saves: a document whose structure was edited regenerates on every later save (theorems save_keeps_dirty, "
        "second_save_still_regenerates, second_save_uses_second_composite; oracle on every file written). A document that was "
        "ONLY attribute-edited after open (visible / opacity / offset ...) keeps its original merged image in every file - it no "
        "longer shows the layers, but that is what the property's second sentence demands (byte-for-byte preservation when "
        "nothing structural was edited), so it is checked as byte identity and not flagged.",
    ]
    if ctx.tier == "thorough":
        ctx.recheck(["PsdVerif.Props.C17", "PsdVerif.Props.C17Pixels"])


def replay(ctx, data):
    from psd_tools import PSDImage
    from psd_tools.constants import Compression
    from psd_tools.api.layers import PixelLayer
    inp = data.get("input") or {}
    print("replaying", data.get("signature"))
    if inp.get("kind") == "pixdoc":
        import merged_pixels as mpx
        st = {"cnt": {}, "arith": {"samples": 0, "equal": 0, "within float32 rounding of flatten / scale": 0}, "max_excess": 0.0,
              "routes": {}, "shrunk": 0, "checked_pixels": 0}
        print("result:", eval_pixel_case(ctx, mpx.case_from_json({k: v for k, v in inp.items() if k != "shrunk_from_layers"}), st, shrink=False))
    elif inp.get("kind") == "api":
        def make():
            p, raw = make_api_doc(inp["mode"], inp["depth"], Compression(inp["compression"]), inp["size"], inp["op_seed"],
                                  inp.get("store", "plain"))
            sec.append(image_data_section(raw)[1:] if raw is not None else None)
            return p
        sec = []
        r0 = _call(make)
        if r0[0] == "err":
            print("building the document raises", r0[1:])
            return 0
        print("result:", run_case(ctx, "replay", lambda: r0[1], inp["ops"], inp, original_section=sec[0]))
    elif inp.get("kind") == "channels":
        r0 = _call(lambda: make_channel_doc(inp["mode"], inp["depth"], Compression(inp["compression"]), inp["size"], inp["extra"], inp["ids"],
                                            inp["mtrn"], inp["op_seed"]))
        if r0[0] == "err":
            print("building the document raises", r0[1:])
            return 0
        print("result:", run_case(ctx, "replay", lambda: r0[1][0], inp["ops"], inp, original_section=image_data_section(r0[1][1])[1:]))
    elif inp.get("kind") == "fixture":
        f = core.REPO / "tests" / "psd_files" / inp["fixture"]
        sec = image_data_section(f.read_bytes())[1:]
        print("result:", run_case(ctx, "replay", lambda: PSDImage.open(f), inp["ops"], inp, original_section=sec))
    for f in ctx.failures:
        print("observed:", f["signature"], "-", f["what"], "| observed", f["observed"], "| expected", f["expected"])
    if not ctx.failures:
        print("no failure reproduced on this tree")
    print("expected:", data.get("expected"))
    return 0
