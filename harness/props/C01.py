"""C01 - every constructible document survives write -> read, and re-writes identically.

Proof: lean/PsdVerif/Props/C01.lean (typed file skeleton, payload classes opaque).
Correspondence: the model's writer/reader against PSD.write / PSD.read, byte for byte and token for
token, on documents built from the real classes and on the fixtures.
Search: Python-only oracles (whole documents with raw payloads; every element class instance
harvested from the fixtures; hand-made variants).
"""
from __future__ import annotations

import collections
import io
import json
import struct
import time

import core
import codec_common as cc
import extract_c01
import gen_c01
import payload_oracle as po
import skel
from core import hx, unhx, err_class


# ---------------------------------------------------------------------------------------------
# primitives
# ---------------------------------------------------------------------------------------------
FMT = {1: "B", 2: "H", 4: "I", 8: "Q"}


def prim_cases(rng, n):
    import psd_tools.utils as U

    def call(f):
        try:
            return ("ok", *f())
        except Exception as e:  # noqa
            return ("err", err_class(e))

    cases = []
    for _ in range(n):
        skip = rng.choice([0, 0, 0, 1])
        w = rng.choice([1, 2, 4, 4, 8])
        pad = rng.choice([1, 2, 4])
        body = bytes(rng.randrange(256) for _ in range(rng.choice([0, 1, 2, 3, 4, 5, 7, 9, 255, 256, 300])))
        fmt = "x" * skip + FMT[w]

        def wr(body=body, fmt=fmt, pad=pad):
            with io.BytesIO() as f:
                k = U.write_length_block(f, lambda g: U.write_bytes(g, body), fmt=fmt, padding=pad)
                return (f.getvalue(), k)
        cases.append((("codec.lenBlock", skip, w, pad, hx(body)), call(wr), "lenBlock.write"))
        r = call(wr)
        if r[0] == "ok":
            pre = bytes(rng.randrange(256) for _ in range(rng.choice([0, 1, 3])))
            post = bytes(rng.randrange(256) for _ in range(rng.choice([0, 0, 1, 5])))
            data = pre + r[1] + post
            cut = rng.choice([len(data)] * 3 + [rng.randrange(len(pre), len(data) + 1)])
            data = data[:cut]

            def rd(data=data, fmt=fmt, pad=pad, pos=len(pre)):
                with io.BytesIO(data) as f:
                    f.seek(pos)
                    v = U.read_length_block(f, fmt=fmt, padding=pad)
                    return (v, f.tell())
            cases.append((("codec.readLenBlock", skip, w, pad, hx(data), len(pre)), call(rd), "lenBlock.read"))
        # pascal
        s = bytes(rng.randrange(32, 127) for _ in range(rng.choice([0, 1, 2, 3, 4, 5, 254, 255, 256])))

        def pw(s=s, pad=pad):
            with io.BytesIO() as f:
                k = U.write_pascal_string(f, s.decode("ascii"), "ascii", pad)
                return (f.getvalue(), k)
        cases.append((("codec.pascal", pad, hx(s)), call(pw), "pascal.write"))
        r = call(pw)
        if r[0] == "ok":
            pre = bytes(rng.randrange(256) for _ in range(rng.choice([0, 1, 2])))
            data = pre + r[1] + bytes(rng.randrange(256) for _ in range(rng.choice([0, 2])))
            data = data[:rng.choice([len(data)] * 3 + [rng.randrange(len(pre), len(data) + 1)])]

            def pr(data=data, pad=pad, pos=len(pre)):
                with io.BytesIO(data) as f:
                    f.seek(pos)
                    v = U.read_pascal_string(f, "ascii", pad)
                    return (v.encode("ascii"), f.tell())
            cases.append((("codec.readPascal", pad, hx(data), len(pre)), call(pr), "pascal.read"))
        # integers
        w = rng.choice([1, 2, 4, 8])
        v = rng.choice([0, 1, 256 ** w - 2, 256 ** w - 1, 256 ** w, rng.randrange(256 ** w)])
        cases.append((("codec.u", w, v), call(lambda w=w, v=v: (struct.pack(">" + FMT[w], v),)), "u.write"))
        wi = rng.choice([2, 4])
        lim = 2 ** (8 * wi - 1)
        z = rng.choice([-lim - 1, -lim, -lim + 1, -1, 0, 1, lim - 2, lim - 1, lim, rng.randrange(-lim, lim)])
        cases.append((("codec.i", wi, z), call(lambda wi=wi, z=z: (struct.pack(">" + {2: "h", 4: "i"}[wi], z),)), "i.write"))
        data = bytes(rng.randrange(256) for _ in range(rng.choice([0, 1, 2, 3, 4, 8, 9])))
        pos = rng.randrange(0, len(data) + 2)

        def ru(data=data, pos=pos, w=w):
            with io.BytesIO(data) as f:
                f.seek(pos)
                return (U.read_fmt(FMT[w], f)[0], f.tell())
        cases.append((("codec.readU", w, hx(data), pos), call(ru), "u.read"))

        def ri(data=data, pos=pos, wi=wi):
            with io.BytesIO(data) as f:
                f.seek(pos)
                return (U.read_fmt({2: "h", 4: "i"}[wi], f)[0], f.tell())
        cases.append((("codec.readI", wi, hx(data), pos), call(ri), "i.read"))
        k = rng.choice([1, 4, 8, 17])

        def ir(data=data, pos=pos, k=k):
            with io.BytesIO(data) as f:
                f.seek(pos)
                return (1 if U.is_readable(f, k) else 0,)
        cases.append((("codec.isReadable", k, hx(data), pos), call(ir), "is_readable"))
        size, dv = rng.randrange(0, 40), rng.choice([1, 2, 4])

        def wp(size=size, dv=dv):
            with io.BytesIO() as f:
                return (U.write_padding(f, size, dv),)
        cases.append((("codec.pad", size, dv), call(wp), "write_padding"))
    return cases


def canon_answer(a):
    """driver answer fields -> comparable tuple"""
    if a[0] == "ok":
        out = ["ok"]
        for x in a[1:]:
            out.append(x)
        return tuple(out)
    return ("err", a[1] if len(a) > 1 else a[0])


def canon_py(r):
    if r[0] == "err":
        return r
    out = ["ok"]
    for x in r[1:]:
        if isinstance(x, (bytes, bytearray)):
            out.append(hx(x))
        else:
            out.append(str(int(x)))
    return tuple(out)


# ---------------------------------------------------------------------------------------------
# documents
# ---------------------------------------------------------------------------------------------
def doc_tokens(doc, enc):
    try:
        return skel.tokens(skel.t_psd(doc, enc)), None
    except skel.NotSkeleton as e:
        return None, "not-skeleton: %s" % e
    except Exception as e:  # a payload object that cannot be written in this context
        return None, "payload-write-failed: %s" % type(e).__name__


def raw_parse_tokens(data, enc):
    with skel.raw_payloads():
        r = cc.read_doc(data, enc)
    if r[0] == "ok":
        try:
            return ("ok", skel.tokens(skel.t_psd(r[1], enc)), r[2], r[1])
        except skel.NotSkeleton as e:
            return ("notskel", str(e), None, None)
    return ("err", r[1], None, None)


def break_doc(g, doc, kind):
    """out-of-width / invalid-version mutations of a clean document (validators do not run on assignment)"""
    lam = doc.layer_and_mask_information
    if lam.layer_info is None or not lam.layer_info.layer_records:
        doc.layer_and_mask_information = lam = g.LM.LayerAndMaskInformation(
            g.layer_info(doc.header.version, "ascii", n=1, typed=False), g.glm(), g.TB.TaggedBlocks())
    rec = lam.layer_info.layer_records[0]
    if kind == "opacity-256":
        rec.opacity = 256
    elif kind == "name-256":
        rec.name = "x" * 256
    elif kind == "version-3":
        doc.header.version = 3
    elif kind == "version-0":
        doc.header.version = 0
    elif kind == "version-70000":
        doc.header.version = 70000
    elif kind == "top-out-of-range":
        rec.top = 2 ** 31
    elif kind == "overlay-4-items":
        lam.global_layer_mask_info = g.LM.GlobalLayerMaskInfo([1, 2, 3, 4], 0, 128)
    elif kind == "resource-key-65536":
        doc.image_resources = g.IR.ImageResources([(65536, g.IR.ImageResource(key=65536))])
    elif kind == "channels-65536":
        doc.header.channels = 65536
    elif kind == "mask-bg-256":
        rec.mask_data = g.LM.MaskData(background_color=256)
    elif kind == "range-65536":
        rec.blending_ranges = g.LM.LayerBlendingRanges([(0, 65536), (0, 1)], [])
    else:
        raise ValueError(kind)


BREAKS = ["opacity-256", "name-256", "version-3", "version-0", "version-70000", "top-out-of-range", "overlay-4-items",
          "resource-key-65536", "channels-65536", "mask-bg-256", "range-65536"]


def run(ctx: core.Run):
    t0 = time.time()
    tables = ctx.regenerate(extract_c01.gen_codec) or {}     # a reshaped source is a broken tie, never exit 2
    ctx.prove(["PsdVerif.Props.C01", *__import__("desc_common").regenerate(ctx), *__import__("payload_common").regenerate(ctx),
               *__import__("payload3_common").regenerate(ctx), *__import__("typeddoc_common").regenerate(ctx)])
    ctx.trusted_base += [
        "Lean 4.33 kernel; axioms allowed: propext, Classical.choice, Quot.sound (audited per theorem)",
        "Model/Codec.lean, Model/Psd.lean: hand transliteration of utils.py and the skeleton classes "
        "(header, colour mode, image resources, layer & mask section, tagged blocks, image data); tied by this run's "
        "correspondence check, byte for byte (writer) and token for token (reader)",
        "harness/extract_c01.py: enum value sets, accepted signatures, numeric ranges, _BIG_KEYS read from the live classes",
        "harness/skel.py: conversion of the real object graph to the typed skeleton (payload = what the payload object writes)",
    ]
    ctx.assumptions += [
        "payload classes (tagged-block data, image-resource data, descriptors, effects, patterns, ...) are opaque bytes in "
        "the model: searched with Python's == (every fixture instance + variants), not proved",
        "the pascal-string text encoding is C19's: names are byte strings in the model",
        "compressed pixel data is bytes here (C04)",
        "float fields (mask feathers) are compared as IEEE bit patterns",
    ]
    quick = ctx.quick
    rng = ctx.rng
    import logging
    import warnings
    warnings.simplefilter("ignore")

    # ------------------------------------------------------------------ primitives
    pc = prim_cases(rng, 150 if quick else 3000)
    ans = cc.pbatch([c[0] for c in pc])
    for (req, py, what), a in zip(pc, ans):
        ctx.corr_cases += 1
        ctx.count(("prim", req), nontrivial=True)
        ctx.hist("primitive", what)
        if canon_answer(a) != canon_py(py):
            ctx.disagree(f"primitive {what}: model != utils.py", {"req": [str(x)[:200] for x in req], "py": canon_py(py), "model": a[:3]})

    # ------------------------------------------------------------------ documents
    fx_all = cc.fixtures()
    fx_small = [f for f in fx_all if f.stat().st_size <= 60000]
    pool = gen_c01.harvest(fx_small[: (40 if quick else 400)])
    g = gen_c01.Gen(rng, pool)
    ndocs = 36 if quick else 1500
    cases = []
    for i in range(ndocs):
        force = g.FORCES[(i // 5) % len(g.FORCES)] if i % 5 == 4 else None
        typed = (i % 2 == 0) and not force
        version = 1 + (i % 2) if i < 12 else None
        doc, enc, forced = g.document(version=version, typed=typed, force=force)
        pad = [1, 2, 4][i % 3]
        cases.append(dict(doc=doc, enc=enc, forced=forced, pad=pad, typed=typed, kind="generated"))
    # every (F) clause at least once, every break once
    for force in g.FORCES:
        doc, enc, forced = g.document(typed=False, force=force)
        cases.append(dict(doc=doc, enc=enc, forced=forced, pad=4, typed=False, kind="forced"))
    for kind in BREAKS * (1 if quick else 4):
        doc, enc, _ = g.document(typed=False)
        break_doc(g, doc, kind)
        cases.append(dict(doc=doc, enc=enc, forced={"broken:" + kind}, pad=4, typed=False, kind="broken", brk=kind))

    reqs, live = [], []
    for c in cases:
        toks, why = doc_tokens(c["doc"], c["enc"])
        if toks is None:
            ctx.hist("document_skipped", why.split(":")[0])
            continue
        c["toks"] = toks
        c["w"] = cc.write_doc(c["doc"], c["enc"], c["pad"])
        c["after"], _ = doc_tokens(c["doc"], c["enc"]) if c["w"][0] == "ok" else (None, None)
        reqs.append(("psd.enc", c["pad"], toks))
        live.append(c)
    enc_ans = cc.pbatch(reqs)
    wf_ans = cc.pbatch([("psd.wf", c["pad"], c["toks"]) for c in live])
    dec_reqs, dec_cases = [], []
    for c, a, wf in zip(live, enc_ans, wf_ans):
        ctx.corr_cases += 1
        ctx.count(("doc", c["toks"][:4000], c["pad"]), nontrivial=True)
        ctx.hist("document_kind", c["kind"])
        ctx.hist("version_x_padding", "v%s/pad%d" % (c["doc"].header.version, c["pad"]))
        w = c["w"]
        if w[0] == "ok":
            if a[0] != "ok" or unhx(a[1]) != w[1]:
                ctx.disagree("PSD.write bytes != model enc", {"doc": c["toks"][:3000], "pad": c["pad"], "model": a[0],
                                                           "py_len": len(w[1])})
            elif int(a[2]) != w[2]:
                ctx.disagree("PSD.write returned count != model count", {"doc": c["toks"][:3000], "py": w[2], "model": a[2]})
            elif a[3] != c["after"]:
                ctx.disagree("object state after write (channel lengths) != model refresh", {"doc": c["toks"][:3000]})
            dec_reqs.append(("psd.dec", hx(w[1])))
            dec_cases.append(c)
        else:
            ctx.hist("writer_rejects", w[1])
            if a[0] != "err" or a[1] != w[1]:
                ctx.disagree("PSD.write exception class != model", {"doc": c["toks"][:3000], "py": w[1], "model": a[:2],
                                                                  "break": c.get("brk")})
        if c["kind"] != "broken":
            iswf = len(wf) > 1 and wf[1] == "1"
            if iswf != (not c["forced"]):
                ctx.disagree("model PSD.WF disagrees with the generator's construction (WF too strong or too weak)",
                             {"doc": c["toks"][:3000], "forced": sorted(c["forced"]), "model_wf": iswf})
    dec_ans = cc.pbatch(dec_reqs)
    for c, a in zip(dec_cases, dec_ans):
        ctx.corr_cases += 1
        r = raw_parse_tokens(c["w"][1], c["enc"])
        if r[0] == "ok":
            if a[0] != "ok" or a[1] != r[1] or int(a[2]) != r[2]:
                ctx.disagree("PSD.read structure != model dec", {"doc": c["toks"][:3000], "model": a[0]})
        elif r[0] == "err":
            ctx.hist("reader_rejects", r[1])
            if a[0] != "err" or a[1] != r[1]:
                ctx.disagree("PSD.read exception class != model dec", {"doc": c["toks"][:3000], "py": r[1], "model": a[:2]})
        # ---- search oracle on whole documents with raw payloads (skeleton-level property, Python ==)
        if not c["typed"] and c["kind"] != "broken":
            ok, obs = False, None
            if r[0] == "ok":
                same = (r[3] == c["doc"])
                w2 = cc.write_doc(r[3], c["enc"], c["pad"])
                ok = same and w2[0] == "ok" and w2[1] == c["w"][1]
                obs = {"reread_equal": bool(same), "rewrite_identical": w2[0] == "ok" and w2[1] == c["w"][1]}
            else:
                obs = {"read": r[1]}
            ctx.count(("oracle", c["toks"][:4000]), nontrivial=True)
            if ok and not c["forced"]:
                ctx.hist("document_oracle", "round-trips")
            elif not ok:
                sigs = sorted(c["forced"]) or ["C01/document/not-round-trip/unexplained"]
                ctx.hist("document_oracle", "fails:" + sigs[0])
                ctx.fail(sigs[0], "document built from the library's classes does not survive write -> read",
                         {"doc": c["toks"], "encoding": c["enc"], "padding": c["pad"], "file": hx(c["w"][1])}, obs,
                         "PSD.read(PSD.write(d)) == d and identical re-write")
            else:
                ctx.hist("document_oracle", "forced-but-round-trips")
    if live:
        ctx.sample({"document": live[0]["toks"][:300], "padding": live[0]["pad"]})

    # ------------------------------------------------------------------ corpus of past failures / witnesses (bytes)
    corpus_file = core.VERIF / "harness" / "corpus" / "C01.json"
    if corpus_file.exists():
        corpus = json.loads(corpus_file.read_text())
        creq = [("psd.dec", e["file"]) for e in corpus]
        for e, a in zip(corpus, cc.pbatch(creq)):
            ctx.corr_cases += 1
            ctx.count(("corpus", e["file"][:200]), nontrivial=True)
            r = raw_parse_tokens(unhx(e["file"]), e.get("encoding", "macroman"))
            if r[0] == "ok" and (a[0] != "ok" or a[1] != r[1] or int(a[2]) != r[2]):
                ctx.disagree("corpus: PSD.read structure != model dec", {"note": e.get("note"), "model": a[0]})
            elif r[0] == "err" and (a[0] != "err" or a[1] != r[1]):
                ctx.disagree("corpus: PSD.read exception != model dec", {"note": e.get("note"), "py": r[1], "model": a[:2]})
        ctx.hist("corpus", "entries", len(corpus))

    # ------------------------------------------------------------------ reader error paths (spot check; C02/C06 own this)
    trunc_reqs, trunc_exp = [], []
    ok_docs = [c for c in dec_cases if not c["forced"]]
    for c in ok_docs[: (12 if quick else 150)]:
        b = c["w"][1]
        for _ in range(6 if quick else 12):
            cut = rng.randrange(0, len(b))
            bb = b[:cut]
            r = raw_parse_tokens(bb, c["enc"])
            if r[0] == "notskel":
                continue
            trunc_reqs.append(("psd.dec", hx(bb)))
            trunc_exp.append((r, len(bb)))
    for (r, n), a in zip(trunc_exp, cc.pbatch(trunc_reqs)):
        ctx.corr_cases += 1
        ctx.hist("truncated_outcome", r[1] if r[0] == "err" else "accepted")
        if r[0] == "ok":
            if a[0] != "ok" or a[1] != r[1] or int(a[2]) != r[2]:
                ctx.disagree("truncated file: PSD.read structure != model dec", {"len": n, "model": a[:1]})
        elif a[0] != "err" or a[1] != r[1]:
            ctx.disagree("truncated file: PSD.read exception class != model dec", {"len": n, "py": r[1], "model": a[:2]})

    # ------------------------------------------------------------------ fixtures
    fx = fx_small[:20] if quick else fx_all
    dreq, dexp, ereq, eexp = [], [], [], []
    for f in fx:
        b = f.read_bytes()
        dexp.append((f, raw_parse_tokens(b, "macroman")))
        dreq.append(("psd.dec", hx(b)))
        r = cc.read_doc(b)
        if r[0] != "ok":
            continue
        for pad in ((4,) if quick else (1, 2, 4)):
            toks, why = doc_tokens(r[1], "macroman")
            if toks is None:
                ctx.hist("fixture_skipped", why.split(":")[0])
                continue
            w = cc.write_doc(r[1], "macroman", pad)
            ereq.append(("psd.enc", pad, toks))
            eexp.append((f, pad, w, b))
    for (f, r), a in zip(dexp, cc.pbatch(dreq)):
        ctx.corr_cases += 1
        ctx.count(("fixture-dec", f.name), nontrivial=True)
        if r[0] == "ok" and (a[0] != "ok" or a[1] != r[1] or int(a[2]) != r[2]):
            ctx.disagree("fixture: PSD.read structure != model dec", {"file": f.name, "model": a[0]})
        elif r[0] == "err" and (a[0] != "err" or a[1] != r[1]):
            ctx.disagree("fixture: PSD.read exception != model dec", {"file": f.name, "py": r[1], "model": a[:2]})
    for (f, pad, w, b), a in zip(eexp, cc.pbatch(ereq)):
        ctx.corr_cases += 1
        ctx.count(("fixture-enc", f.name, pad), nontrivial=True)
        if w[0] == "ok" and (a[0] != "ok" or unhx(a[1]) != w[1] or int(a[2]) != w[2]):
            ctx.disagree("fixture: PSD.write bytes/count != model enc", {"file": f.name, "pad": pad, "model": a[0]})
        if w[0] == "ok" and pad == 4 and w[1] != b:
            ctx.hist("fixture_resave", "differs-from-original")       # information (C02 owns re-save)
        elif w[0] == "ok" and pad == 4:
            ctx.hist("fixture_resave", "identical")
    ctx.hist("fixtures", "compared", len(fx))

    # ------------------------------------------------------------------ payload classes: Python-only oracle
    classes = po.element_classes()
    sink: dict = {}
    hv = fx_small[:40] if quick else fx_all
    for f in hv:
        r = cc.read_doc(f.read_bytes())
        if r[0] == "ok":
            po.walk(r[1], sink)
    per_class = 6 if quick else 80
    opaque_seen, opaque_fail = collections.Counter(), collections.Counter()
    for K, xs in sorted(sink.items(), key=lambda kv: kv[0].__name__):
        nm = K.__name__
        if nm in po.CONTEXT_DEPENDENT or po.token_level(K):
            continue
        step = max(1, len(xs) // per_class)
        for x in xs[::step][:per_class]:
            check_payload(ctx, x, opaque_seen, opaque_fail, "fixture")
    for x in variants():
        check_payload(ctx, x, opaque_seen, opaque_fail, "variant")
    # default-constructed instances: a default need not be a well-formed value (empty lists where the format fixes a
    # count, zero-length keys): reported as information, not as failures
    dflt_bad = []
    dflt_res = {}
    for K, xs in po.default_instances(classes).items():
        if K.__name__ in po.CONTEXT_DEPENDENT or po.token_level(K):
            continue
        try:
            v, kw, d = po.check_instance(xs[0])
        except Exception as e:  # noqa
            v = "oracle-error:" + type(e).__name__
        ctx.evaluations += 1
        dflt_res[K.__name__] = v
        if v not in ("ok", "na"):
            dflt_bad.append(f"{K.__name__}: {v}")
    ctx.extra["default_instances_not_round_tripping (information)"] = sorted(dflt_bad)
    skeleton = sorted(po.CONTEXT_DEPENDENT)
    opaque = sorted(n for n, K in classes.items() if n not in po.CONTEXT_DEPENDENT and not po.token_level(K))
    ctx.model_coverage = {
        "modelled_and_proved (skeleton)": skeleton,
        "opaque: searched, not proved": {n: {"instances": opaque_seen.get(n, 0), "failures": opaque_fail.get(n, 0),
                                             "default_instance": dflt_res.get(n, "not constructible")} for n in opaque},
        "opaque_classes_with_no_fixture_or_variant_instance": sorted(n for n in opaque if opaque_seen.get(n, 0) == 0),
        "engine-data token classes (reader dispatched by the tokenizer; owned by C18)":
            sorted(n for n, K in classes.items() if po.token_level(K)),
    }
    ctx.rule = (
        "documents: built from the real classes by harness/gen_c01.py (version 1/2 x padding 1/2/4 x 5 encodings; every "
        "optional/variant branch; widths at 0,1,max-1,max; empty and odd payloads; typed payload objects harvested from "
        "fixtures in every second document), each (F) clause of WF violated in turn, each on-disk width exceeded in turn; "
        "fixtures re-parsed and re-written. A case is one document x padding (writer), one byte string (reader), or one "
        "primitive call; all are non-trivial; distinct = distinct serialised skeletons / requests. Payload oracle: up to "
        "%d instances per element class from the fixtures + hand-made variants." % per_class)
    ctx.extra["generated_tables"] = {k: tables.get(k) for k in ("bigKeys", "headerFormat", "channelsMax", "heightMax")}
    ctx.notes += [
        "Scope: typed skeleton structures instead of DESIGN's untyped Val universe; every payload class is opaque bytes in "
        "the model and is covered by the Python oracle only (listed under model_coverage).",
        "psd_roundtrip returns d.refresh (channel_info.length as the writer leaves it); psd_roundtrip_fresh is the = d corollary.",
        "WF clauses tagged (F) in Model/Psd.lean are forced by the proof and not validators/widths/format rules; each has a "
        "witness theorem in Props/C01.lean and a known finding replayed on the real code by this run.",
        "Format-excluded candidates run on the real code (not findings): descriptor key / classID of length 0 (write succeeds, "
        "read raises), MaskData with both feathers but no real fields (block length 36 is read as real fields), "
        "LayerAndMaskInformation with tagged blocks but no GlobalLayerMaskInfo (read raises IOError), TaggedBlocks whose "
        "dict key differs from the block key.",
        "Stated in DESIGN, not proved here: codec laws of the payload classes (descriptors, effects, patterns, linked "
        "layers, vector data, adjustments, image-resource payloads), LayerInfoBlock (Lr16/Lr32) as a structured payload.",
    ]
    # ------------------------------------------------------------------ deterministic sweeps (every run, every tier)
    # (1) boundary documents of the skeleton: model writer, model reader, Python oracle
    import gen_c01_extra
    gen_c01_extra.run_extra(ctx, doc_tokens, raw_parse_tokens)
    # (2) descriptors: every terminology member / non-term key in every key position, units, OSTypes
    systematic_payloads(ctx, classes, sink, per_class=(3 if quick else 60))
    ctx.extra["phase_seconds"] = round(time.time() - t0, 1)
    if ctx.tier == "thorough":
        ctx.recheck(["PsdVerif.Props.C01"])
    # ---- descriptors (psd/descriptor.py): modelled and proved in Props/C01Descriptor.lean; everything is in desc_common.py
    __import__("desc_common").run(ctx)
    # ---- type-directed variants of every payload class over the whole on-disk domain of each field (harness/payload_gen.py)
    __import__("payload_gen").run_c01(ctx)
    # ---- further payload classes brought into the model (Props/C01Payload.lean); everything is in payload_common.py
    __import__("payload_common").run(ctx)
    # ---- third batch (Props/C01Payload3.lean): image-resource payloads, adjustments, vector data, filter effects
    __import__("payload3_common").run(ctx)
    # ---- typed documents (Props/C01Typed.lean): every registered tagged-block class typed, in layer records and at document
    # level, engine data parsed at read time; everything is in typeddoc_common.py
    __import__("typeddoc_common").run(ctx)


def systematic_payloads(ctx, classes, sink, per_class):
    """payload_oracle.sweep / field_boundary_sweep -> failures with the same input format as check_payload"""
    def report(sig, label, x, v, kw, data, what):
        ctx.fail(sig, what,
                 {"class": f"{type(x).__module__}.{type(x).__name__}" if x is not None else None, "kwargs": kw,
                  "bytes": hx(data), "repr": (describe(x)[:600] if x is not None else None), "case": label},
                 v, "equal structure and identical second tobytes()")

    try:
        n, fails, excluded = po.sweep()
    except Exception as e:  # noqa  (e.g. a descriptor class no longer constructible the way the sweep builds it)
        ctx.disagree("descriptor sweep could not be built on the current source: %s" % type(e).__name__, {"error": repr(e)[:300]})
        n, fails, excluded = 0, [], []
    ctx.evaluations += n
    ctx.hist("descriptor_sweep", "instances", n)
    ctx.hist("descriptor_sweep", "failures", len(fails))
    for sig, label, x, v, kw, data in fails:
        report(sig, label, x, v, kw, data,
               "a descriptor structure holding this key / class id / enum value / unit / item type does not survive "
               "tobytes -> frombytes (systematic sweep over psd_tools.terminology and key lengths 1..12)")
    ctx.extra["descriptor_sweep_format_excluded (information)"] = excluded
    try:
        n2, fails2, not_stored = po.field_boundary_sweep(classes, sink, per_class)
    except Exception as e:  # noqa
        ctx.disagree("payload field sweep could not be built on the current source: %s" % type(e).__name__, {"error": repr(e)[:300]})
        n2, fails2, not_stored = 0, [], []
    ctx.evaluations += n2
    ctx.hist("payload_field_sweep", "instances", n2)
    ctx.hist("payload_field_sweep", "failures", len(fails2))
    for sig, label, x, v, kw, data in fails2:
        report(sig, label, x, v, kw, data,
               "a payload instance that round-trips stops doing so when one scalar field is set to its lower boundary "
               "(0, 0.0, False/True, empty string) or one enum field to another member")
    ctx.extra["payload_fields_not_stored_in_that_state (information)"] = sorted(set(not_stored))[:40]
    ctx.rule += (" Added: descriptor sweep (every member of every enum of psd_tools.terminology and non-term keys of length "
                 "0..12 incl. non-ASCII bytes, each as descriptor key, classID, Enumerated type/value, Reference items, "
                 "ObjectArray/GlobalObject/DescriptorBlock(2) key; every Unit; every registered OSType item) and a field "
                 "sweep over the opaque payload classes (each scalar field -> 0 / 0.0 / flipped / empty, each enum field -> "
                 "every member; variant selectors excepted).")


def variants():
    """hand-made well-formed instances of branches no fixture contains"""
    from psd_tools.constants import ColorSpaceID
    from psd_tools.psd.color import Color
    from psd_tools.psd import effects_layer as E
    c = lambda *v: Color(ColorSpaceID.RGB, list(v) + [0] * (4 - len(v)))
    out = [
        E.BevelInfo(version=2, highlight_color=c(1, 2, 3), shadow_color=c(4, 5, 6),
                    real_highlight_color=c(7, 8, 9), real_shadow_color=c(10, 11, 12)),
        E.BevelInfo(version=0),
        E.OuterGlowInfo(version=2, native_color=c(1, 1, 1)),
        E.OuterGlowInfo(version=0),
        E.InnerGlowInfo(version=2, invert=1, native_color=c(2, 2, 2)),
        E.InnerGlowInfo(version=0),
        E.ShadowInfo(version=2, native_color=c(3, 3, 3)),
        E.ShadowInfo(version=0),
        E.SolidFillInfo(version=2, color=c(9, 9, 9), native_color=c(8, 8, 8)),
        E.CommonStateInfo(),
    ]
    from psd_tools.psd.layer_and_mask import LayerInfoBlock
    out.append(LayerInfoBlock())          # Lr16/Lr32 payload with no layers
    return out


def describe(x, depth=0):
    """readable, deterministic description of an element instance"""
    import attr
    if depth > 6:
        return "..."
    if attr.has(type(x)):
        return type(x).__name__ + "(" + ", ".join(
            f"{f.name}={describe(getattr(x, f.name), depth + 1)}" for f in attr.fields(type(x))) + ")"
    if isinstance(x, (list, tuple)):
        return "[" + ", ".join(describe(v, depth + 1) for v in list(x)[:8]) + "]"
    if isinstance(x, dict) or hasattr(x, "keys"):
        return "{" + ", ".join(f"{k!r}: {describe(x[k], depth + 1)}" for k in list(x.keys())[:8]) + "}"
    return repr(x)[:60]


def check_payload(ctx, x, seen, failc, origin):
    nm = type(x).__name__
    try:
        v, kw, d = po.check_instance(x)
    except Exception as e:  # noqa
        ctx.hist("payload_oracle", "oracle-error")
        return
    ctx.evaluations += 1
    seen[nm] += 1
    ctx.hist("payload_oracle", v if v in ("ok", "na") else "fails")
    if v in ("ok", "na"):
        return
    if v == "reread-differs" and _holds_decoded_engine_data(x):
        ctx.hist("payload_oracle", "skipped: RawData value decoded in place (C18)")
        return
    failc[nm] += 1
    if nm == "LayerInfoBlock" and v == "reread-differs" and x.layer_count == 0 and x.layer_records is None:
        ctx.fail("C01/none-vs-empty/layer-info-block-count0", "LayerInfoBlock() is re-read with empty lists instead of None",
                 {"class": f"{type(x).__module__}.{nm}", "kwargs": kw, "bytes": hx(d[0]), "repr": "LayerInfoBlock()"},
                 v, "equal structure")
        return
    data = d[0] if d and isinstance(d[0], (bytes, bytearray)) else b""
    ctx.fail(f"C01/payload/{nm}/{v.split(':')[0]}",
             f"{nm}.frombytes(x.tobytes()) is not x / does not re-write identically ({origin} instance)",
             {"class": f"{type(x).__module__}.{nm}", "kwargs": kw, "bytes": hx(data), "repr": describe(x)[:600]},
             v, "equal structure and identical second tobytes()")


def _holds_decoded_engine_data(x):
    """TypeToolObjectSetting/TextEngineData replace RawData.value (bytes) by a parsed EngineData object after
    reading; the bare class re-reads bytes. Engine data round-trips are C18's."""
    from psd_tools.psd.descriptor import RawData
    sink = {}
    po.walk(x, sink)
    for r in sink.get(RawData, []):
        if not isinstance(r.value, (bytes, bytearray)):
            return True
    return False


def replay(ctx, data):
    import importlib
    inp = data.get("input") or {}
    print("replaying", data.get("signature"))
    if "file" in inp:
        b = unhx(inp["file"])
        with skel.raw_payloads():
            r = cc.read_doc(b, inp.get("encoding", "macroman"))
        print("PSD.read ->", r[0], r[1] if r[0] == "err" else "")
        if r[0] == "ok":
            w = cc.write_doc(r[1], inp.get("encoding", "macroman"), inp.get("padding", 4))
            print("re-write identical:", w[0] == "ok" and w[1] == b)
            print("re-read skeleton:", skel.tokens(skel.t_psd(r[1], inp.get("encoding", "macroman")))[:400])
            print("original skeleton:", inp.get("doc", "")[:400])
    elif "class" in inp:
        mod, nm = inp["class"].rsplit(".", 1)
        K = getattr(importlib.import_module(mod), nm)
        kw = inp.get("kwargs") or {}
        b = unhx(inp["bytes"])
        try:
            y = K.frombytes(b, **kw)
            print("frombytes ok; second tobytes identical:", y.tobytes(**kw) == b)
            print("re-read: ", describe(y)[:600])
            print("original:", inp.get("repr"))
        except Exception as e:  # noqa
            print("frombytes raises", repr(e)[:200])
    print("expected:", data.get("expected"))
    return 0
