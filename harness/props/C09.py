"""C09 - structure edits behave like list edits and survive save / reopen."""
from __future__ import annotations

import json

import sys

import c09_adopt
import c09_reopen
import core
import treeops as T
import treetable


def corpus(name):
    p = core.VERIF / "harness" / "corpus" / (name + ".json")
    if not p.exists():
        return []
    return [(tuple(c["recipe"]), T.ops_from_json(c["ops"])) for c in json.loads(p.read_text())]


def doc_label(psd):
    return "%s%d" % (psd.pil_mode, psd.depth)


def first_difference(a, b, path="root"):
    """where two tree descriptions differ (names, kinds, nesting, order, attributes, channel payloads)"""
    if len(a) != len(b):
        return "layer-count", "%s: %d layers before, %d after (%s / %s)" % (
            path, len(a), len(b), [i[0] for i in a], [i[0] for i in b])
    fields = ["name", "kind", "visible", "opacity", "blend-mode", "clipping", "rectangle", "channels"]
    for k, (x, y) in enumerate(zip(a, b)):
        for f, u, v in zip(fields, x[:8], y[:8]):
            if u != v:
                if f == "channels":
                    u, v = [(c[0], len(c[1] or b""), c[2]) for c in u], [(c[0], len(c[1] or b""), c[2]) for c in v]
                return f, "%s[%d] %r: %s %r -> %r" % (path, k, x[0], f, u, v)
        if (len(x) > 8) != (len(y) > 8):
            return "nesting", "%s[%d] %r" % (path, k, x[0])
        if len(x) > 8:
            d = first_difference(x[8], y[8], "%s[%d]" % (path, k))
            if d:
                return d
    return None


def layers_of(w, d):
    """ids of the layers listed below document d"""
    return [w.idof(x) for x in T.walk_layers(w.objs[d])]


def save_signature(w, d, r):
    """signature + description of a save / reopen failure of document d of world w (None: no failure)"""
    psd = w.objs[d]
    label = doc_label(psd)
    if r[0] == "raises":
        here = (psd.pil_mode, psd.depth)
        origins = [w.origin.get(x, here) for x in layers_of(w, d) if isinstance(w.objs[x], T.PixelLayer)]
        full = (psd.pil_mode, psd.depth, psd.version)
        foreign_planes = [x for x in layers_of(w, d) if x != T.BOGUS and not isinstance(w.objs[x], (T.PixelLayer, T.Group))
                          and w.layout.get(x) not in (None, full)
                          and any(c.data for c in getattr(w.objs[x], "_channels", None) or [])]
        if r[1] == "save" and foreign_planes:
            # only PixelLayer has a _convert: shape / type / smart object layers keep the planes of their old document
            sig = "C09/save-raises/adopted-non-raster-layer-keeps-planes"
        elif r[1] == "save" and any(o is None for o in origins) and (here != ("RGB", 8) or psd.version != 1):
            # PixelLayer.frompil(image, None): the library warns that such a layer cannot be converted
            sig = "C09/save-raises/documentless-pixel-layer-adopted"
        elif r[1] == "save" and any(o is not None and o[1] != psd.depth for o in origins):
            sig = "C09/save-raises/cross-depth-adoption"
        elif r[1] == "save" and psd.pil_mode == "CMYK":
            sig = "C09/save-raises/cmyk-document"
        elif r[1] == "save" and psd.depth != 8 and w.recipe[0] != "fixture":
            sig = "C09/save-raises/pixel-layer-in-deep-document"
        else:
            sig = "C09/save-raises/%s-%s/%s" % (r[1], r[2], label)
        kinds = sorted({T._kind(w.objs[x]) for x in layers_of(w, d) if x != T.BOGUS})
        return sig, "%s of document %d (%s; node kinds below it: %s) raises %s after the history" % (
            r[1], d, label, ",".join(kinds), r[2])
    diff = first_difference(r[1], r[2])
    if diff:
        edits = "depth%d" % psd.depth if diff[0] == "layer-count" and psd.depth != 8 else diff[0]
        sig = "C09/save-drops-edits/%s" % edits if diff[0] == "layer-count" else "C09/save-reopen/%s" % diff[0]
        return sig, "document %d (%s): %s" % (d, label, diff[1])
    return None


def save_check(ctx, t, fails, where):
    """save + reopen every document of the final world of trace `t` and compare the trees"""
    w = t.world
    for d in w.docs():
        psd = w.objs[d]
        r = T.save_reopen(psd)
        ctx.hist("save_reopen", "%s %s" % (doc_label(psd), r[0] if r[0] == "ok" else "raises-%s-%s" % (r[1], r[2])))
        f = save_signature(w, d, r)
        if f:
            fails.append((f[0], f[1], {"recipe": list(w.recipe), "ops": T.ops_to_json(t.ops), "document": d}))


def save_fails_with(recipe, ops, d, sig):
    """does the history end in a save / reopen failure of document d with this signature? (shrinking)"""
    if len(T.guarded(tuple(recipe), list(ops))) != len(ops):
        return False        # the shrunk history would insert a layer that is still listed (C10's known finding)
    t = T.run_history(tuple(recipe), list(ops), check_fresh=False, check_inv=False)
    w = t.world
    if t.stopped is not None or t.out_of_model is not None or d >= len(w.objs) or not isinstance(w.objs[d], T.PSDImage):
        return False
    f = save_signature(w, d, T.save_reopen(w.objs[d]))
    return bool(f) and f[0] == sig


def argument_forms():
    """extend(iterator), extended slices: compared with a plain list directly"""
    out = []
    w = T.build(("flat", "RGB", 8))
    psd, a, b = w.objs[0], w.objs[4], T._px(w.objs[0], "RGB", "it2", 1, 1)
    plain = list(psd._layers)
    psd.extend(x for x in [a, b])
    plain.extend(x for x in [a, b])
    bad = [id(x) for x in psd._layers] != [id(x) for x in plain]
    out.append(("C09/extend/iterator-consumed-by-check",
                "psd.extend(generator) lists %d layers, a plain list %d" % (len(psd._layers), len(plain)) if bad else None,
                {"call": "psd.extend(x for x in [a, b])"}))
    w = T.build(("flat", "RGB", 8))
    psd, a = w.objs[0], T._px(w.objs[0], "RGB", "it3", 1, 1)
    plain = list(psd._layers)
    psd[0:1] = (x for x in [a])
    plain[0:1] = (x for x in [a])
    bad = [id(x) for x in psd._layers] != [id(x) for x in plain]
    out.append(("C09/setslice/iterator-consumed-by-check",
                "psd[0:1] = generator lists %d layers, a plain list %d" % (len(psd._layers), len(plain)) if bad else None,
                {"call": "psd[0:1] = (x for x in [a])"}))
    w = T.build(("flat", "RGB", 8))
    psd = w.objs[0]
    plain = list(psd._layers)
    for name, f in (("del [::2]", lambda l: l.__delitem__(slice(None, None, 2))),
                    ("reversed slice read", lambda l: l[::-1])):
        try:
            r1 = f(psd)
            r2 = f(plain)
            bad = [id(x) for x in psd._layers] != [id(x) for x in plain] or \
                ([id(x) for x in r1] != [id(x) for x in r2] if r1 is not None else False)
        except Exception as e:  # noqa
            bad = True
        out.append(("C09/extended-slice/%s" % name.split()[0], "psd %s differs from a plain list" % name if bad else None,
                    {"call": name}))
    return out


SAVE_ALL = ("closing-groups", "sole-layer")


def run(ctx: core.Run):
    treetable.regenerate(ctx)
    ctx.prove(["PsdVerif.Props.C09"] + c09_reopen.modules(ctx))
    ctx.trusted_base += T.TRUSTED
    ctx.assumptions += T.ASSUME
    ctx.model_coverage = T.MODEL_COVERAGE
    rng = ctx.rng
    traces = []
    for recipe, ops in corpus("C09"):
        traces.append(T.run_history(recipe, ops, check_fresh=False))
    n_corpus = len(traces)
    # exhaustive part (nested-list replay + model after every operation)
    depth = 2 if ctx.quick else 3
    for recipe in T.SMALL_TREES:
        lim = 3000 if ctx.quick else (40000 if recipe[0] != "nest" else 20000)
        for d in range(1, depth + 1):
            hs = T.exhaustive_histories(recipe, d, level=1, limit=lim if d == depth else None, rng=rng)
            for h in hs:
                traces.append(T.run_history(recipe, h, check_fresh=False, check_inv=False))
            ctx.hist("exhaustive_histories", "%s depth %d" % (recipe[0], d), len(hs))
    # directed families (treeops.directed_histories): the bulky ones are saved + reopened as a sample (with the
    # exhaustive histories), the ones about what is written (closing groups, emptied documents) all of them
    directed = T.directed_histories(rng, ctx.quick)
    for fam, recipe, h in directed:
        if fam not in SAVE_ALL:
            traces.append(T.run_history(recipe, h, check_fresh=False, check_inv=False))
    n_exh = len(traces)
    for fam, recipe, h in directed:
        ctx.hist("directed_histories", fam)
        if fam in SAVE_ALL:
            traces.append(T.run_history(recipe, h, check_fresh=False, check_inv=False))
    # every single candidate operation on the documents with artboards / shared names; all of them are saved and reopened
    for recipe in T.NAMED_TREES if not ctx.quick else T.NAMED_TREES[:2]:
        hs = T.exhaustive_histories(recipe, 1, level=1)
        for h in hs:
            traces.append(T.run_history(recipe, h, check_fresh=False, check_inv=False))
        ctx.hist("exhaustive_histories", "%s depth 1 (all saved)" % recipe[0], len(hs))
    # random walks: every mode x depth, two documents (cross-document moves), fixtures
    recipes = T.walk_recipes()
    n_walks, max_len = (150, 12) if ctx.quick else (1200, 60)
    for k in range(n_walks):
        recipe = recipes[k % len(recipes)]
        ops = T.random_walk(recipe, rng, rng.randrange(3, max_len + 1), p_unguarded=0.03)
        traces.append(T.run_history(recipe, ops, check_fresh=False))
    # cross-document adoption (PSD / PSB x depth x mode, fixture and API layers with every compression): pixels of the
    # adopted layers, save + reopen of both documents; boundary worlds (mixed per-plane compression) first
    adopt_traces, adopt_other = c09_adopt.run_block(ctx, sys.modules[__name__])
    T.compare_with_model(ctx, traces + adopt_traces, what="C09")
    treetable.correspond(ctx, traces + adopt_traces, "C09")
    T.coverage(ctx, traces + adopt_traces + adopt_other)
    T.report(ctx, traces + adopt_traces + adopt_other, props=("C09",))
    # save + reopen: after the corpus histories, after every walk, after a sample of the exhaustive histories
    fails = []
    chosen = traces[:n_corpus] + traces[n_exh:] + rng.sample(traces[n_corpus:n_exh], min(300 if ctx.quick else 3000, n_exh - n_corpus))
    for t in chosen:
        if t.stopped is not None or t.out_of_model is not None:
            continue            # ill-formed tree (C10 finding) or a pixel conversion that raised
        if len(T.guarded(tuple(t.world.recipe), list(t.ops))) != len(t.ops):
            # the exhaustive histories run without the invariant check, so `stopped` is not set for them: a history
            # that inserts a layer which is still listed leaves the guarded fragment all the same (C10's known finding;
            # e.g. newgroup 2; clear 2; append 4 2 closes a cycle of parent pointers and save() recurses)
            ctx.hist("save_reopen", "skipped: history leaves the guarded fragment (already-listed insertion)")
            continue
        save_check(ctx, t, fails, "end")
    seen = set()
    for sig, what, case in fails:
        if sig in seen:
            for f in ctx.failures:
                if f["signature"] == sig:
                    f["count"] += 1
            continue
        seen.add(sig)
        if len(case["ops"]) > 1:
            try:
                ops = core.ddmin(T.ops_from_json(case["ops"]),
                                 lambda sub: save_fails_with(case["recipe"], sub, case["document"], sig))
                t2 = T.run_history(tuple(case["recipe"]), list(ops), check_fresh=False, check_inv=False)
                f2 = save_signature(t2.world, case["document"], T.save_reopen(t2.world.objs[case["document"]]))
                if f2 and f2[0] == sig:
                    case, what = dict(case, ops=T.ops_to_json(ops), ops_before_shrinking=case["ops"]), f2[1]
            except core.Infra:
                raise
            except Exception:  # noqa
                pass
        ctx.fail(sig, what, case, observed=what, expected="the reopened tree has the same names, kinds, nesting, order, "
                 "attributes and channel payloads")
    # arguments the operation language cannot express: one-shot iterables, slices with a step
    for sig, what, case in argument_forms():
        ctx.count(("form", sig), nontrivial=True)
        if what:
            ctx.fail(sig, what, case, observed=what, expected="the same result as on a plain list")
    ctx.extra["save_reopen_checked"] = len(chosen)
    for t in traces[:n_corpus] + traces[-3:]:
        ctx.sample({"recipe": list(t.world.recipe), "ops": [T.op_str(o) for o in t.ops[:8]], "outs": t.outs[:8]})
    ctx.rule = ("a case is one (initial tree, operation history); non-trivial = at least one operation; distinct = distinct "
                "(tree, history) pairs. After EVERY operation the lists of the object graph are compared with a replay on "
                "plain Python lists and the full dump (lists, parent, document, dirty flag, caches, value / exception) with "
                "the model. Exhaustive: all histories of <= %d candidate operations on 3 small trees, every single candidate "
                "operation on documents with artboards and with shared names; random: %d walks of "
                "<= %d operations over %d initial trees (mode x depth matrix, two-document worlds, API-built and fixture "
                "documents with artboards, fixtures). Save + reopen "
                "after %d histories: names, kinds, nesting, order, visibility, opacity, blend mode, clipping, rectangle, "
                "channel payloads. Cross-document adoption: %d two-document worlds (source: small fixtures with raster "
                "layers - masks, effects blocks, planes with mixed compression - and API-built documents L / RGB / CMYK x 8 / "
                "16 / 32 bit x PSD / PSB whose layers use raw / RLE / zip / zip-with-prediction planes or another compression "
                "for the transparency plane; target: the other file version with the same mode and depth, the same version, "
                "another depth / mode), %d histories (every adopting operation on raster layers and on groups above them, both "
                "directions, there and back, random walks): every listed raster layer decodes, shows the pixels it showed "
                "before when mode and depth are unchanged (8-bit precision, one unit of rounding per conversion), and both "
                "documents reopen with the same tree and, plane for plane, the pixels they have in memory."
                % (depth, n_walks, max_len, len(recipes), len(chosen), ctx.extra.get("adopt_worlds", 0),
                   ctx.extra.get("adopt_histories", 0)))
    ctx.notes += treetable.NOTES + [
        "save_reopen (DESIGN C09) is evaluated on the real code only (oracle: save -> open -> compare); its Lean "
        "composition with the parse / flatten model (C08) and the record codec (C01) is pending",
        "pixels of adopted layers (harness/c09_adopt.py) are an oracle on the real code only: PixelLayer._convert is opaque "
        "for the model; the conversion renders the layer, which burns opacity / masks / effects / clipped layers / hidden "
        "state / the ICC transform into the pixels (known findings C09/adopt-pixels/rendered-into-pixels/<feature>) - the "
        "'same pixels' statement is therefore checked at full strength only for plain raster layers",
        "history_refines is stated for the accepted operations of a guarded history; refusals are no-ops by "
        "refused_refines; the guard (inserted layers are detached) is only needed to keep the invariant, a single step "
        "refines without it",
    ]
    if ctx.tier == "thorough":
        ctx.recheck(["PsdVerif.Props.C09"])
    # save / reopen as a theorem (Props/C09Reopen.lean): its model against the code on the final worlds above
    c09_reopen.run_block(ctx, chosen)


def replay(ctx, data):
    T.replay_print(data)
    inp = data.get("input") or {}
    if inp.get("recipe", [None])[0] == "adopt":
        return c09_adopt.replay(ctx, data, sys.modules[__name__])
    if "document" in inp:
        t = T.run_history(tuple(inp["recipe"]), T.ops_from_json(inp["ops"]), stop_on_problem=False)
        r = T.save_reopen(t.world.objs[inp["document"]])
        print("save/reopen:", r[0], r[1:3] if r[0] != "ok" else first_difference(r[1], r[2]))
    return 0
