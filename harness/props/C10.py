"""C10 - the layer tree stays well-formed under every edit history."""
from __future__ import annotations

import json

import core
import treeops as T
import treetable


def corpus(name):
    p = core.VERIF / "harness" / "corpus" / (name + ".json")
    if not p.exists():
        return []
    return [(tuple(c["recipe"]), T.ops_from_json(c["ops"])) for c in json.loads(p.read_text())]


def run(ctx: core.Run):
    treetable.regenerate(ctx)
    ctx.prove(["PsdVerif.Props.C10"])
    ctx.trusted_base += T.TRUSTED
    ctx.assumptions += T.ASSUME
    ctx.model_coverage = T.MODEL_COVERAGE
    rng = ctx.rng
    traces = []
    # 1. corpus: the witnesses of the Lean counterexamples and minimised past failures, on the real code
    for recipe, ops in corpus("C10"):
        traces.append(T.run_history(recipe, ops))
    n_corpus = len(traces)
    # 2. exhaustive: every history of <= depth candidate operations from three small trees
    depth = 2 if ctx.quick else 3
    for recipe in T.SMALL_TREES:
        lim = 4000 if ctx.quick else (30000 if recipe[0] != "nest" else 12000)
        for d in range(1, depth + 1):
            hs = T.exhaustive_histories(recipe, d, level=1, limit=lim if d == depth else None, rng=rng)
            for h in hs:
                traces.append(T.run_history(recipe, h, check_fresh=False))
            ctx.hist("exhaustive_histories", "%s depth %d" % (recipe[0], d), len(hs))
    if not ctx.quick:
        hs = T.exhaustive_histories(("small", "L", 8), 4, level=1, limit=20000, rng=rng)
        for h in hs:
            traces.append(T.run_history(("small", "L", 8), h, check_fresh=False))
        ctx.hist("exhaustive_histories", "small depth 4 (sample)", len(hs))
    # 2b. directed families (treeops.directed_histories): stale pointers of detached groups, group_layers in every
    # order, documentless layers in loose groups across documents, nested groups closing together, emptied documents
    for fam, recipe, h in T.directed_histories(rng, ctx.quick):
        traces.append(T.run_history(recipe, h, check_fresh=False))
        ctx.hist("directed_histories", fam)
    # 3. random walks over every kind of initial tree
    recipes = T.walk_recipes()
    n_walks, max_len = (150, 12) if ctx.quick else (1000, 60)
    for k in range(n_walks):
        recipe = recipes[k % len(recipes)]
        # every third walk is biased towards what removed layers still carry (treeops.stale_return_op)
        ops = T.random_walk(recipe, rng, rng.randrange(3, max_len + 1), p_obs=0.1, p_stale=0.25 if k % 3 == 2 else 0.0)
        traces.append(T.run_history(recipe, ops))
    # correspondence with the model after every operation
    T.compare_with_model(ctx, traces, what="C10")
    treetable.correspond(ctx, traces, "C10")
    T.coverage(ctx, traces)
    T.report(ctx, traces, props=("C10",))
    for t in traces[:n_corpus] + traces[-3:]:
        ctx.sample({"recipe": list(t.world.recipe), "ops": [T.op_str(o) for o in t.ops[:8]], "outs": t.outs[:8]})
    ctx.rule = ("a case is one (initial tree, operation history); non-trivial = at least one operation; distinct = "
                "distinct (tree, history) pairs. Exhaustive part: all histories of <= %d operations from the pruned, "
                "state-dependent argument set of treeops.candidate_ops on 3 small trees (ill-formed prefixes are reported "
                "and not extended); random part: %d walks of <= %d operations over %d initial trees (API-built "
                "mode x depth matrix, two-document worlds, fixtures), 12%% of the inserted arguments unguarded "
                "(already listed, non-layers, documents); every third walk draws a quarter of its operations from "
                "treeops.stale_return_op (a removed layer, still holding its old parent pointer, gets its former parent / a "
                "group above it moved below it, or is offered again to them or to a group now below it by every inserting form)." % (depth, n_walks, max_len, len(recipes)))
    ctx.exhaustive = False
    ctx.notes += NOTES + treetable.NOTES
    if ctx.tier == "thorough":
        ctx.recheck(["PsdVerif.Props.C10"])


NOTES = [
    "proved (Props/C10.lean): inv_init, inv_step_partial (exact guard: inserted layers detached; recursion limit not hit), "
    "inv_history, refused_unchanged (all operations, no guard), reachable_pointers (I1), listed_once (I2), no_cycle (I3), "
    "descendants_nodup (I4); negation of the full-strength step: inv_step_false / append_listed_elsewhere (known finding "
    "C10/<op>/already-listed); snapshot counterexamples on Cfg.legacy: legacy_extend_self_cycle, "
    "legacy_group_layers_refused_changed, legacy_descendants_twice; recursion_limit_after_mutation shows why the "
    "recursion-limit hypothesis is needed",
    "stated in DESIGN, not proved: inv_init for opened files (Inv (open rs) needs the C08 parse model; the invariant of "
    "every initial fixture tree is evaluated on the object graph instead); the equivalence of I2 with Nodup of the "
    "concatenation of all lists is given in the form 'one container, one position' (listed_once)",
    "refused_unchanged speaks about the tree (lists, pointers, kinds, flags, rectangles): a refused operation may fill "
    "bbox caches because assertion / ValueError messages format groups with repr (refused_fills_cache)",
    "the clipping relation recomputed by _update_psd_record (repo f9fde83, C15) is not part of this model",
]


def replay(ctx, data):
    return T.replay_print(data)
