"""C20 - no cross-document state: results do not depend on processing history."""
from __future__ import annotations

import io
import json
import subprocess
import sys
from concurrent.futures import ThreadPoolExecutor
from pathlib import Path

import core
import c20_pool
import extract
import extract_c20
from core import hx, unhx, err_class

SESSION = core.VERIF / "harness" / "c20_session.py"
FIX = core.REPO / "tests" / "psd_files"


def run_session(script, timeout=600):
    p = subprocess.run(
        ["/venv/bin/python", str(SESSION), str(core.REPO), "-"], input=json.dumps(script),
        capture_output=True, text=True, timeout=timeout,
    )
    if p.returncode != 0:
        raise core.Infra("session subprocess failed: " + p.stderr[-400:])
    return json.loads(p.stdout.strip().splitlines()[-1])


def run_alone(steps, workers=14):
    """every step in a fresh process forked from an interpreter that has only imported the library"""
    half = (len(steps) + 1) // 2
    parts = [steps[:half], steps[half:]] if len(steps) > 40 else [steps]

    def one(part):
        p = subprocess.run(
            ["/venv/bin/python", str(SESSION), str(core.REPO), "-"],
            input=json.dumps({"fork_each": [[list(st)] for st in part], "workers": max(2, workers // len(parts))}),
            capture_output=True, text=True, timeout=1800)
        if p.returncode != 0:
            raise core.Infra("session fork server failed: " + p.stderr[-400:])
        out = json.loads(p.stdout.strip().splitlines()[-1])["sessions"]
        for st, r in zip(part, out):
            if "error" in r:
                raise core.Infra("forked session failed for %r: %s" % (st[0], r["error"]))
        return out

    with ThreadPoolExecutor(max_workers=len(parts)) as ex:
        res = list(ex.map(one, parts))
    return [r for part in res for r in part]


def be32(n):
    return n.to_bytes(4, "big")


def desc_body(key: bytes, explicit: bool) -> bytes:
    """A minimal Descriptor body holding one Integer item under `key`."""
    name = be32(1) + b"\x00\x00"            # unicode string "" with padding=1: count 1? see below
    # write_unicode_string(fp, "", padding=1) is produced by the library itself to stay independent of its layout:
    from psd_tools.psd.descriptor import Descriptor, Integer
    d = Descriptor(name="", classID=b"null")
    d[b"KEY!"] = Integer(7)
    raw = d.tobytes()
    marker = be32(4) + b"KEY!"
    assert raw.count(marker) == 1, "unexpected layout of a one-item descriptor"
    k = (be32(len(key)) if explicit else be32(0)) + key
    return raw.replace(marker, k)


def run(ctx: core.Run):
    src = core.REPO / "src" / "psd_tools"
    cells, defaults, switches = extract_c20.extract_all(src)
    ctx.write_generated("Globals", extract_c20.to_lean(cells, defaults))
    ctx.write_generated("Switches", extract_c20.switches_to_lean(switches))
    _extractor_selftest(ctx)
    terms_info = extract.gen_terms(ctx)
    ctx.prove(["PsdVerif.Props.C20"])
    ctx.trusted_base += [
        "Lean 4.33 kernel; axioms allowed: propext, Classical.choice, Quot.sound (audited per theorem)",
        "harness/extract_c20.py: AST walk producing the footprint table and the table of foreign switch sites (aliasing "
        "through getattr/exec/importlib is not seen; the list of switch-like callee names is a pattern, see SWITCH_RE; "
        "validated on every run by a self-test tree with planted state and dynamically by snapshotting every module global, "
        "class attribute and foreign switch around scripted sessions)",
        "Model/Globals.lean: generic footprint semantics and the descriptor key codec (tied by correspondence)",
        "C-level state of NumPy/PIL/zlib is outside every model",
    ]
    ctx.assumptions += ["operations touch process-wide state only through Python-level module globals / class attributes of "
                        "psd_tools and through the foreign switches listed in the switch table; a site restored by a context "
                        "manager is not a write (single-threaded before/after semantics)"]
    table = {c.key: c for c in cells}
    ctx.extra["footprint"] = [
        {"cell": c.key, "kind": c.kind, "writers": sorted(set(c.writers))[:4], "readers": len(set(c.readers))} for c in cells
    ]
    # cells that are written at run time and read: each is a concrete suspect for the search below
    dirty = [c for c in cells if c.writers and c.readers]
    ctx.extra["foreign_switch_sites"] = [
        {"site": "%s:%d" % (w["module"], w["line"]), "callee": w["callee"], "how": w["how"], "at_runtime": w["atRuntime"],
         "restored": w["scoped"]} for w in switches]
    live_switches = [w for w in switches if w["atRuntime"] and not w["scoped"]]
    for d in defaults:
        ctx.fail(f"C20/shared-default/{d['module']}:{d['line']}", "attr.ib default is a shared mutable object", d)

    rng = ctx.rng
    quick = ctx.quick
    import time
    phase = {}
    t_phase = time.time()

    # ------------- correspondence: descriptor key codec, model vs code
    import psd_tools.psd.descriptor as D
    Imp = getattr(D, "_ImplicitKey", ())
    some_terms = sorted(t for t in D._TERMS if len(t) == 4)
    keys = [b"alis", b"Gcls", b"\0\0\0\0", b"warp", b"json", b"url", b"xx", b"a", b"", b"abcde", b"layerTime",
            b"\xff\xfe\xfd\xfc"] + [rng.choice(some_terms) for _ in range(20)]
    streams = []
    for k in keys:
        for explicit in (False, True):
            body = (be32(len(k)) if explicit else be32(0)) + k
            for tail in (b"", b"\x00", b"TAILTAIL"):
                streams.append(body + tail)
            streams.append(body[: rng.randrange(0, len(body) + 1)])        # truncated
    for _ in range(200 if quick else 3000):
        n = rng.choice([0, 0, 0, 1, 3, 4, 4, 5, 9, 300, 2 ** 31])
        k = bytes(rng.randrange(256) for _ in range(rng.choice([0, 1, 3, 4, 4, 4, 5, 8])))
        streams.append(be32(n) + k)
    drv = ctx.driver()
    ans = drv.batch([("key.read", hx(b"PRE" + s), 3) for s in streams])
    wreqs, wmeta = [], []
    for s, a in zip(streams, ans):
        fp = io.BytesIO(b"PRE" + s)
        fp.seek(3)
        try:
            k = D.read_length_and_key(fp)
            impl = ("ok", bytes(k), isinstance(k, Imp) if Imp else False, fp.tell())
        except Exception as e:  # noqa
            impl = ("err", err_class(e))
        model = ("ok", unhx(a[1]), a[2] == "1", int(a[3])) if a[0] == "ok" else ("err", a[1])
        ctx.corr_cases += 1
        ctx.count(("kread", s), nontrivial=len(s) >= 4)
        ctx.hist("key_read", impl[0] if impl[0] == "err" else ("implicit" if impl[2] else "plain"))
        if impl != model:
            ctx.disagree("key.read: model != read_length_and_key", {"data": hx(s), "impl": str(impl), "model": str(model)})
        if impl[0] == "ok":
            wreqs.append(("key.write", hx(impl[1]), "1" if impl[2] else "0"))
            wmeta.append((s, k, impl))
    wans = drv.batch(wreqs)
    for (s, k, impl), a in zip(wmeta, wans):
        out = io.BytesIO()
        try:
            D.write_length_and_key(out, k)
            w = ("ok", out.getvalue())
        except Exception as e:  # noqa
            w = ("err", err_class(e))
        m = ("ok", unhx(a[1])) if a[0] == "ok" else ("err", a[1])
        ctx.corr_cases += 1
        if w != m:
            ctx.disagree("key.write: model != write_length_and_key", {"key": hx(bytes(k)), "impl": str(w), "model": str(m)})
        # property-level oracle: a completely read key is re-read from what is written
        if w[0] == "ok" and impl[3] - 3 >= 8 or (w[0] == "ok" and len(bytes(k)) > 0):
            fp = io.BytesIO(w[1])
            try:
                k2 = D.read_length_and_key(fp)
                if bytes(k2) != bytes(k) and len(bytes(k)) >= 1 and not (len(bytes(k)) < 4 and impl[2]):
                    ctx.fail("C20/key/not-reread", "a key written by the library is read back differently",
                             {"stream": hx(s)}, hx(bytes(k2)), hx(bytes(k)))
            except Exception:  # noqa
                pass
    ctx.sample({"key stream": hx(streams[1])})

    phase["key_codec"] = round(time.time() - t_phase, 1); t_phase = time.time()
    # ------------- sessions: alone in a fresh interpreter vs after other sessions
    small = sorted([p for p in FIX.glob("*.ps[db]")], key=lambda p: p.stat().st_size)
    pool = small[: (8 if quick else 40)]
    extra = [FIX / "descriptors" / n for n in ()]  # placeholder for directory fixtures
    for sub in ("descriptors", "layers-minimal", "effects"):
        fs = sorted((FIX / sub).glob("*.ps[db]"), key=lambda p: p.stat().st_size)
        pool += fs[: (1 if quick else 6)]
    ops = ["lowlevel", "structure", "open_save", "describe", "preview", "composite", "edit_save", "struct_save"]
    steps = [(op, str(p)) for p in pool for op in ops]
    # unusual documents: a fixture with one tagged-block payload emptied (most are rejected by the reader; what
    # matters is that reading them leaves no trace for the documents read afterwards)
    import atexit, shutil, tempfile
    scratch = Path(tempfile.mkdtemp(prefix="verif-c20-"))
    atexit.register(shutil.rmtree, scratch, True)
    variants = _emptied_variants(pool[: (3 if quick else 10)], scratch, rng, 6 if quick else 40)
    steps += [("structure", str(v)) for v in variants]
    ctx.extra["emptied_payload_variants"] = len(variants)
    steps += [("build", "4"), ("build", "7"), ("build", "7:16"), ("build", "4:32"), ("build", "48"), ("build", "48:16")]
    # documents that embed patterns (several Photoshop presets share their ids across files)
    pat_files = _pattern_fixtures(limit=(4 if quick else 16))
    for f in pat_files:
        if f not in pool:
            steps += [(op, str(f)) for op in ("composite", "structure")]
        steps.append(("pattern_edit_composite", str(f)))
    ctx.extra["pattern_fixtures"] = [p.name for p in pat_files]
    # descriptor-level steps aimed at the one place where history used to matter
    unknown = b"alis"
    steps += [
        ("desc_read", hx(desc_body(unknown, explicit=False))),
        ("desc_read", hx(desc_body(b"qZ9!", explicit=False))),
        ("desc_read", hx(desc_body(b"warp", explicit=True))),
        ("desc_read", hx(desc_body(unknown, explicit=True))),
        ("desc_read", hx(desc_body(b"qZ9!", explicit=True))),
        ("desc_read", hx(desc_body(b"warp", explicit=False))),
        ("desc_build", hx(unknown)), ("desc_build", hx(b"qZ9!")), ("desc_build", hx(b"warp")),
        ("desc_build", hx(b"ab")), ("desc_build", hx(b"Nm  ")),
        ("desc_read_trunc", hx(desc_body(unknown, explicit=False)[:-9] )),
        ("desc_read_trunc", hx(be32(1) + b"\0\0" + be32(0) + b"ab")),
    ]
    # ---- histories in degenerate configurations, sessions whose outcome is a refusal, damaged-but-tolerated documents
    steps += c20_pool.api_scripts(rng, 24 if quick else 200)
    layered = [p for p in small if p.suffix == ".psd" and p.stat().st_size > 3000][:1] + \
              [p for p in small if p.suffix == ".psb"][:1]
    refusals = c20_pool.refusal_files(layered if quick else layered + pool[:6], scratch)
    steps += [("describe", str(p)) for p, _ in refusals]
    steps += [("open_save", str(p)) for p, what in refusals if what.startswith(("blend", "clipping", "depth", "mode"))]
    steps += [("new_doc", a) for a in ("RGB:4:3:8", "RGB:0:4:8", "RGB:4:0:8", "L:3:3:12", "XYZ:3:3:8", "RGB:300001:1:8",
                                       "CMYK:2:2:16", "LAB:2:2:8", "RGBA:2:2:32", "L:-1:2:8")]
    if layered:
        steps += [("set_attr", "%s|%s" % (layered[0], a)) for a in (
            "opacity|300", "opacity|-1", "opacity|128", "blend_mode|'no such mode'", "blend_mode|'multiply'",
            "name|'" + "x" * 300 + "'", "visible|False", "clipping_layer|True", "left|2**40")]
    steps += [("call_deprecated", ""), ("warn_probe", "")]
    fx60 = [p for p in sorted(FIX.rglob("*.ps[db]"), key=lambda p: (p.stat().st_size, str(p))) if p.stat().st_size <= 60000]
    dmg_src = c20_pool.covering_files(fx60 if quick else
                                      [p for p in sorted(FIX.rglob("*.ps[db]"), key=lambda p: (p.stat().st_size, str(p)))
                                       if p.stat().st_size <= 400000])
    cands = c20_pool.damaged_candidates(dmg_src, scratch, rng, None if quick else 4000,
                                        fractions=(0.125, 0.5, 0.875) if quick else c20_pool.FRACTIONS,
                                        all_mutations=not quick)
    classes = _classify([str(c[0]) for c in cands])
    picked, seen_cls = [], {}
    import re as _re
    for (pth, key, how), cl in zip(cands, classes):
        kind = cl.split(":")[0]
        norm = (key, _re.sub(r"b'[^']*'|\d+", "#", cl))
        ctx.hist("damaged_payload_variants", kind)
        cap = {"opened+warning": (40 if quick else 400), "EXC": (8 if quick else 80), "opened": (4 if quick else 40)}[kind]
        if norm in seen_cls or sum(1 for k in seen_cls.values() if k == kind) >= cap:
            continue
        seen_cls[norm] = kind
        picked.append((pth, key, how, cl))
    for pth, key, how, cl in picked:
        steps.append(("describe", str(pth)))
        if cl.startswith("opened+warning"):
            steps.append(("open_save", str(pth)))
            steps.append(("structure", str(pth)))
    ctx.extra["damaged_payload_documents"] = {
        "sources": [p.name for p in dmg_src], "candidates": len(cands),
        "picked": [{"file": Path(p).name, "block": k, "mutation": h, "reader": c} for p, k, h, c in picked][:60]}
    ctx.extra["refusal_files"] = [Path(p).name for p, _ in refusals]
    # ---- added after C20-r4-1/2/3: calls with NON-default options for every public entry point that has options
    # (by reflection over signatures / documented **kwargs), to be followed by default calls on other documents; documents
    # whose effect / gradient / pattern descriptors lack or distort an item the renderer reads; three-document sessions
    # with two or more cross-document moves into one target
    opt_files = (layered or small[:1]) + [p for p in pool if p.suffix == ".psd"][:2]
    opt_steps = c20_pool.option_steps(opt_files, rng, 70 if quick else None)
    steps += opt_steps
    ctx.extra["option_calls"] = sorted({"%s.%s(%s=...)" % (a[1], a[2], ",".join(a[3])) for a in
                                        (json.loads(st[1]) for st in opt_steps)})
    fx_src = []
    for p in sorted(FIX.rglob("*.psd"), key=lambda p: (p.stat().st_size, str(p))):
        if p.stat().st_size > (300000 if quick else 1500000):
            continue
        raw = p.read_bytes()
        if any(t in raw for t in (b"lfx2", b"lrFX", b"GdFl", b"PtFl", b"vstk", b"vscg", b"SoCo")):
            try:
                w, h = int.from_bytes(raw[18:22], "big"), int.from_bytes(raw[14:18], "big")
            except Exception:  # noqa
                continue
            if w * h <= 400 * 400:
                fx_src.append(p)
    dvs = c20_pool.descriptor_variants(fx_src, scratch, rng, 64 if quick else 600, src)
    steps += [("composite", str(p)) for p, _ in dvs]
    ctx.extra["descriptor_variants"] = {"sources": [p.name for p in fx_src][:40], "made": len(dvs),
                                        "what": [w for _, w in dvs][:80]}
    xdoc_src = _pattern_fixtures(limit=(6 if quick else 16))
    xdoc = c20_pool.cross_document_scripts(xdoc_src, rng, 6 if quick else 60)
    steps += xdoc
    ctx.extra["cross_document_scripts"] = len(xdoc)
    # alone: one fresh interpreter per step
    phase["pool"] = round(time.time() - t_phase, 1); t_phase = time.time()
    alone = run_alone(steps)
    # the fork server is an optimisation of "a fresh interpreter per step": cross-check a sample against the real thing
    probe = [steps[i] for i in sorted(rng.sample(range(len(steps)), min(6, len(steps))))]
    with ThreadPoolExecutor(max_workers=6) as ex:
        fresh = list(ex.map(lambda st: run_session([list(st)]), probe))
    for st, r in zip(probe, fresh):
        ctx.corr_cases += 1
        if r["results"][0] != alone[steps.index(st)]["results"][0]:
            ctx.disagree("a session forked from an import-only interpreter differs from the same session in a fresh interpreter",
                         {"step": _short_step(st), "fresh": r["results"][0], "forked": alone[steps.index(st)]["results"][0]})
    phase["alone"] = round(time.time() - t_phase, 1); t_phase = time.time()
    alone_res = {tuple(st): r["results"][0] for st, r in zip(steps, alone)}
    # cross-document sessions carry their own oracle (frame law + no object shared between documents)
    seen_x = set()
    for st, r in zip(steps, alone):
        res = r["results"][0]
        if st[0] == "xdoc_script":
            ctx.hist("cross_document_sessions", "problem" if ":XDOC:" in res else res.split(":")[1][:40])
        if st[0] == "xdoc_script" and ":XDOC:" in res:
            prob = json.loads(res.split(":XDOC:", 1)[1])
            sig = "C20/cross-document/" + prob["kind"]
            if sig in seen_x:
                continue
            seen_x.add(sig)
            ctx.fail(sig, "after cross-document moves " + prob["what"],
                     _portable({"step": list(st), "history": []}), prob["what"],
                     "documents that took no part in a move are unchanged; no mutable object is held by two documents")
    changed_alone = sorted({c for r in alone for c in r["changed_cells"]})
    # a step that, ALONE in a fresh interpreter, leaves process-wide state changed is a suspect history all by itself:
    # replay the whole pool after it in one interpreter and compare every result with the alone result
    suspects, seen_leak = [], set()
    for st, r in zip(steps, alone):
        leak = tuple(r["changed_cells"])
        if leak and leak not in seen_leak and len(suspects) < (3 if quick else 8):
            seen_leak.add(leak)
            suspects.append((st, leak))
    directed_fail = set()
    for st, leak in suspects:
        rest = [x for x in steps if x != st]
        # ... in front of ITSELF first (the state it leaves may be one only the same kind of session consumes: a shared
        # random stream, a cache keyed by something of its own), then in front of the whole pool
        r = run_session([list(st), list(st)] + [list(x) for x in rest], timeout=1800)
        bad = [(x, res) for x, res in zip(rest, r["results"][2:]) if res != alone_res[tuple(x)]]
        ctx.hist("leaky_steps_followed_up", st[0])
        if r["results"][1] != alone_res[tuple(st)]:
            directed_fail.add(tuple(st))
            ctx.fail(f"C20/history-dependent/{st[0]}/{_tag(st)}",
                     f"{st[0]} gives a different result when the same session ran before it in the same interpreter "
                     f"(it leaves {', '.join(leak)} changed) than alone in a fresh interpreter",
                     _portable({"step": list(st), "history": [list(st)], "state_left_changed": list(leak)}),
                     r["results"][1], alone_res[tuple(st)])
        elif not bad:
            ctx.disagree("a session leaves process-wide state changed (no session of the pool was seen to depend on it)",
                         {"step": _short_step(st), "changed": list(leak)})
        for x, res in bad[:3]:
            directed_fail.add(tuple(x))
            ctx.fail(f"C20/history-dependent/{x[0]}/{_tag(x)}",
                     f"{x[0]} gives a different result after a session that leaves {', '.join(leak)} changed than alone "
                     "in a fresh interpreter",
                     _portable({"step": list(x), "history": [list(st)], "state_left_changed": list(leak)}),
                     res, alone_res[tuple(x)])
    # histories: the same steps in several random orders, each order in ONE interpreter
    n_hist = 3 if quick else 10
    orders = []
    for _ in range(n_hist):
        o = list(steps)
        rng.shuffle(o)
        # force the adversarial sub-sequences to appear: reads of unknown keys before the builds
        orders.append(o)
    with ThreadPoolExecutor(max_workers=10) as ex:
        hist = list(ex.map(lambda o: run_session([list(s) for s in o], timeout=1800), orders))
    changed_hist = sorted({c for r in hist for c in r["changed_cells"]})
    phase["histories"] = round(time.time() - t_phase, 1); t_phase = time.time()
    ctx.extra["history_seconds_by_op"] = hist[0].get("seconds")
    nshrunk = [0]
    reported = set()
    suspect_steps = [tuple(st) for st, _ in suspects]
    # steps that left state changed inside a history (attributed by the per-step snapshots)
    for o, r in zip(orders, hist):
        for c, i in sorted(r.get("changed_by", {}).items(), key=lambda kv: kv[1]):
            if c in r["changed_cells"] and tuple(o[i]) not in suspect_steps:
                suspect_steps.append(tuple(o[i]))
    for o, r in zip(orders, hist):
        for pos, (st, res) in enumerate(zip(o, r["results"])):
            ctx.count(("session", st, pos), nontrivial=not res.startswith("EXC:") and res != "skipped-large")
            ctx.hist("session_op", st[0])
            if res != alone_res[tuple(st)] and tuple(st) not in directed_fail and tuple(st) not in reported:
                reported.add(tuple(st))
                ctx.hist("history_dependent_results", st[0])
                if len(reported) > (6 if quick else 20):
                    continue            # the first few are reported with a shrunk history; the rest are counted
                # which earlier step is responsible? a step known to leave state changed is tried first, on its own
                culprit = None
                for sus in suspect_steps:
                    if sus in [tuple(x) for x in o[:pos]] and sus != tuple(st):
                        rr = run_session([list(sus), list(st)])
                        if rr["results"][-1] != alone_res[tuple(st)]:
                            culprit = [sus]
                            break
                if culprit is None:
                    nshrunk[0] += 1
                    culprit = _shrink(o[:pos], st, alone_res[tuple(st)]) if nshrunk[0] <= 2 else o[:pos]
                ctx.fail(f"C20/history-dependent/{st[0]}/{_tag(st)}",
                         f"{st[0]} gives a different result after other sessions than alone in a fresh interpreter",
                         _portable({"step": list(st), "history": [list(x) for x in culprit]}), res, alone_res[tuple(st)])
    ctx.sample({"session order (first 4)": [list(s) for s in orders[0][:4]]})
    # ------------- the static footprint validated dynamically
    for c in sorted(set(changed_alone) | set(changed_hist)):
        ctx.hist("cells_changed_at_runtime", c)
        who = sorted({tuple(_short_step(o[r["changed_by"][c]])) for o, r in zip(orders, hist) if c in r.get("changed_by", {})} |
                     {tuple(_short_step(st)) for st, r in zip(steps, alone) if c in r["changed_cells"]})[:3]
        who = [list(x) for x in who]
        if c.startswith("ext:"):
            if not live_switches:
                ctx.disagree("a process-wide switch of a foreign module is left changed by a session but the switch table "
                             "has no run-time site", {"switch": c, "sessions": who})
            continue
        cell = table.get(c)
        declared = cell is not None and bool(cell.writers)
        if not declared:
            ctx.disagree("a global cell changed during sessions but the footprint table does not declare a run-time writer",
                         {"cell": c, "sessions": who})
    for c in dirty:
        ctx.notes.append(f"cell written at run time and read: {c.key} writers={sorted(set(c.writers))[:3]}")

    # ------------- freshly constructed structures share no mutable state
    pairs = _default_pairs(ctx)
    phase["default_pairs"] = round(time.time() - t_phase, 1)
    ctx.extra["phase_seconds"] = phase
    ctx.extra["default_constructed_classes"] = pairs

    ctx.rule = (
        "key codec: byte streams (known terms, unknown 4-byte keys, short/long/truncated keys, random) through "
        "read_length_and_key/write_length_and_key vs the model; sessions: every (operation, document) step of a pool of "
        "fixtures and generated documents run alone in a fresh interpreter and again inside %d random orders of all steps in "
        "one interpreter each; non-trivial = the step produced a result (not an exception / skipped); distinct = (step, "
        "position in order). All default-constructible element classes are paired. "
        "The pool also holds: scripted API edit histories on freshly built documents in degenerate configurations (a fixed "
        "matrix - layers never attached, grouped before being attached, detached and nested detached groups, cross-document "
        "moves, cycles, operations that raise half-way - plus random scripts over the same vocabulary); sessions whose "
        "outcome is a refusal (every closed-value header / record / channel / resource field of two fixtures set out of "
        "range at offsets given by the specification walker; PSDImage.new and attribute edits with invalid arguments); "
        "documents damaged inside one tagged-block / image-resource payload that the reader tolerates (picked per block key "
        "and outcome class - opened with a warning first - by a classification run in subprocesses). Every step is "
        "snapshotted (psd_tools globals incl. plain values and function identities; attrs validators, numpy error state and "
        "print options, warnings filters, logging.disable and logger levels, recursion limit, sys.path, os.environ, cwd, "
        "locale, decimal context, gc, random states, builtins, PIL limits); a step that leaves anything changed when run alone "
        "is replayed in front of itself and of the whole pool. Since round 4 the pool also holds: a call with ONE non-default option for every "
        "public entry point of PSDImage / Layer that has options (open, save, new, frompil, composite, topil, numpy; options "
        "from the signature, from the documented **kwargs and from the low-level reader / writer signatures; values by the "
        "type of the default) - followed in the histories by the default calls on the other documents; composites of copies "
        "of every small fixture with effect / fill / stroke descriptors in which one item the renderer reads (Key.X mentions "
        "of composite/*.py and api/effects.py) is deleted, negative, huge, flipped or emptied; sessions with three documents "
        "and >= 2 cross-document moves of pattern / effect layers into one target, checked after every move for the frame "
        "law (a document that took no part is byte-identical) and for ownership (no mutable object reachable from two "
        "documents). Snapshots digest module- / class-level objects of unknown type by pickle / __getstate__ / getstate() / "
        "get_state()." % n_hist
    )
    ctx.extra["terms"] = terms_info
    ctx.extra["session_steps"] = len(steps)
    ctx.extra["histories"] = n_hist
    ctx.model_coverage = {
        "modelled": ["footprint table of every module-level/class-level name that is a mutable object or is assigned / "
                     "augmented / mutated from a function body (global, module attribute, class attribute, container; through "
                     "local aliases and parameter defaults too), or is an object of unknown type built by a call at import and "
                     "used by a function (moduleObject)",
                     "table of the sites that flip process-wide switches of foreign modules (run-time / import-time / restored)",
                     "descriptor key codec"],
        "not_modelled": ["C-level state in NumPy/PIL/zlib", "the body of every operation (only its footprint)"],
    }
    if ctx.tier == "thorough":
        ctx.recheck(["PsdVerif.Props.C20"])


def _tag(st):
    a = str(st[1])
    if "|" in a:                       # set_attr: path|attribute|literal
        parts = a.split("|")
        return "%s-%s" % (parts[1], parts[2][:12])
    if a.startswith("[["):             # api_script
        import hashlib
        return "script-" + hashlib.sha1(a.encode()).hexdigest()[:10]
    return Path(a).name if "/" in a else a[:16]


SCRATCH_MARK = "@scratch/"


def _portable(inp):
    """a failing input must outlive the scratch directory: files made by this run travel inside the input
    (hex) and their paths are replaced by `@scratch/<name>`; `replay` puts them back"""
    files = {}

    def fix(st):
        a = str(st[1])
        out = a
        for tok in [a] + a.split("|"):
            if tok.startswith("/") and "/verif-c20-" in tok and Path(tok).is_file():
                if Path(tok).stat().st_size <= 400000:
                    files[Path(tok).name] = hx(Path(tok).read_bytes())
                    out = out.replace(tok, SCRATCH_MARK + Path(tok).name)
        return [st[0], out]

    inp = dict(inp)
    inp["step"] = fix(inp["step"])
    inp["history"] = [fix(x) for x in inp["history"]]
    if files:
        inp["files"] = files
    return inp


def _short_step(st):
    return [st[0], str(st[1]) if len(str(st[1])) < 200 else str(st[1])[:200] + "..."]


def _classify(paths):
    """outcome class of opening each file, computed in subprocesses (the damaged input never runs in this process)"""
    if not paths:
        return []
    n = min(12, max(1, len(paths) // 8))
    chunks = [paths[i::n] for i in range(n)]

    def one(chunk):
        p = subprocess.run(["/venv/bin/python", str(SESSION), str(core.REPO), "-"], input=json.dumps({"classify": chunk}),
                           capture_output=True, text=True, timeout=900)
        if p.returncode != 0:
            raise core.Infra("classification subprocess failed: " + p.stderr[-400:])
        return json.loads(p.stdout.strip().splitlines()[-1])["classes"]

    with ThreadPoolExecutor(max_workers=n) as ex:
        res = list(ex.map(one, chunks))
    out = [None] * len(paths)
    for i, r in enumerate(res):
        out[i::n] = r
    return out


SELFTEST_TREE = {
    "__init__.py": "",
    "a.py": '''
import os, sys, warnings, logging
import numpy as np
import attr
from PIL import Image
from decimal import getcontext
from . import b
from .b import Reg, TABLE, TABLE2
import re, random
_count = 0
_flag = False
_cache = {}
_tmp = {}
_opts = {"a": 1}
_opts2 = {"a": 1}
_deflt = {"a": 1}
_copied = {"a": 1}
_gen = np.random.RandomState(0)
_gen2 = random.Random()
_pat = re.compile("x")
_log = logging.getLogger(__name__)
def _mk(p):
    return re.compile(p.encode("ascii"))
_pat2 = _mk("y")
class Inst:
    def __init__(self):
        self.n = 0
_inst = Inst()
class K:
    shared = []
    limit = 3
    def m(self):
        self.shared.append(1)
        type(self).limit = 4
        return self.shared
    @classmethod
    def c(cls):
        cls.limit += 1
def bump():
    global _count
    _count += 1
def read():
    return _count, _flag, K.limit
def flip():
    global _flag
    _flag = True
def other():
    b.LEVEL = 3
    setattr(b, "MODE", "x")
    TABLE["k"] = 1
    Reg.items.add(2)
def alias_update(**kw):
    options = _opts
    options.update(kw)
    return options
def alias_item(k):
    t = TABLE2[k] if k else _opts2
    t["z"] = 1
def alias_default(o=_deflt):
    o.setdefault("q", 2)
def not_alias(**kw):
    c = dict(_copied)
    c.update(kw)
    d = _copied.copy()
    d["x"] = 1
    return c, d, _copied
def draw():
    return _gen.rand()
def leak():
    return _gen2
def touch():
    _inst.n += 1
    return _inst.n
def pure(s):
    _log.debug("x")
    return _pat.match(s), _pat2.match(s)
def local_shadow():
    _tmp = {}
    _tmp["x"] = 1
    return _tmp
def uses_cache():
    _cache["y"] = 2
    return _cache.get("y")
def switches():
    attr.validators.set_disabled(True)
    logging.disable(logging.CRITICAL)
    warnings.simplefilter("ignore")
    np.seterr(all="ignore")
    sys.setrecursionlimit(10000)
    os.environ["X"] = "1"
    Image.MAX_IMAGE_PIXELS = None
    getcontext().prec = 5
    np.load = None
    sys.path.append("x")
def scoped():
    with np.errstate(all="ignore"):
        pass
    with warnings.catch_warnings():
        warnings.simplefilter("ignore")
warnings.filterwarnings("ignore", module="x")
''',
    "b.py": '''
LEVEL = 1
MODE = "a"
TABLE = {}
TABLE2 = {"k": []}
class Reg:
    items = set()
def get():
    return LEVEL, MODE, TABLE, Reg.items
''',
}


def _extractor_selftest(ctx):
    """the AST extractor is trusted: run it on a small tree in which every form of process-wide state it claims to see
    is planted, and compare"""
    import shutil
    import tempfile
    d = Path(tempfile.mkdtemp(prefix="verif-c20-selftest-"))
    try:
        root = d / "psd_tools"
        root.mkdir()
        for name, src in SELFTEST_TREE.items():
            (root / name).write_text(src)
        cells, _, sw = extract_c20.extract_all(root)
        dirty = sorted(c.key for c in cells if c.writers and c.readers)
        want_dirty = sorted(["psd_tools.a:_count", "psd_tools.a:_flag", "psd_tools.a:_cache", "psd_tools.a:K.shared",
                             "psd_tools.a:K.limit", "psd_tools.b:LEVEL", "psd_tools.b:MODE", "psd_tools.b:TABLE",
                             "psd_tools.b:Reg.items",
                             # aliases: a local bound to module-level state and changed in place
                             "psd_tools.a:_opts", "psd_tools.a:_opts2", "psd_tools.b:TABLE2", "psd_tools.a:_deflt",
                             # module-level objects of unknown mutable type that functions use
                             "psd_tools.a:_gen", "psd_tools.a:_gen2", "psd_tools.a:_inst"])
        # ... while a copy (`dict(X)`, `X.copy()`), a compiled pattern (also through a helper) and a logger are not cells
        not_cells = [c.key for c in cells if c.key.split(":")[1] in ("_copied", "_pat", "_pat2", "_log") and c.writers]
        live = sorted({w["callee"] for w in sw if w["atRuntime"] and not w["scoped"]})
        want_live = sorted(["attr.validators.set_disabled", "logging.disable", "warnings.simplefilter", "numpy.seterr",
                            "sys.setrecursionlimit", "os.environ[]", "PIL.Image.MAX_IMAGE_PIXELS", "decimal.getcontext().prec",
                            "numpy.load", "sys.path.append"])
        scoped = sorted({w["callee"] for w in sw if w["scoped"]})
        want_scoped = sorted(["numpy.errstate", "warnings.catch_warnings", "warnings.simplefilter"])
        imp = sorted({w["callee"] for w in sw if not w["atRuntime"]})
        tmp_written = [c.key for c in cells if c.key == "psd_tools.a:_tmp" and c.writers]
        ok = dirty == want_dirty and live == want_live and scoped == want_scoped and imp == ["warnings.filterwarnings"] \
            and not tmp_written and not not_cells
        ctx.corr_cases += 1
        ctx.hist("extractor_selftest", "ok" if ok else "MISMATCH")
        if not ok:
            ctx.disagree("the footprint extractor does not see the process-wide state planted in its self-test tree",
                         {"dirty": dirty, "want_dirty": want_dirty, "live_switches": live, "want_live": want_live,
                          "scoped": scoped, "import_time": imp, "shadowed_local_counted": tmp_written, "immutable_or_copied_counted": not_cells})
    finally:
        shutil.rmtree(d, True)


def _pattern_fixtures(limit):
    """Small fixtures that embed patterns, preferring pattern ids that occur in more than one file."""
    from psd_tools.constants import Tag
    from psd_tools.psd import PSD
    by_id, files = {}, {}
    for f in sorted(FIX.rglob("*.psd"), key=lambda p: p.stat().st_size):
        if f.stat().st_size > 600_000:
            continue
        try:
            with open(f, "rb") as fp:
                psd = PSD.read(fp)
            tb = psd.layer_and_mask_information.tagged_blocks
            ids = []
            for key in (Tag.PATTERNS1, Tag.PATTERNS2, Tag.PATTERNS3):
                for pat in ((tb.get_data(key) if tb else None) or []):
                    ids.append(str(pat.pattern_id))
            if ids:
                files[f] = ids
                for i in ids:
                    by_id.setdefault(i, []).append(f)
        except Exception:  # noqa
            continue
    shared = [f for i, fs in sorted(by_id.items()) if len(fs) > 1 for f in fs]
    out = []
    for f in shared + list(files):
        if f not in out:
            out.append(f)
    return out[:limit]


def _emptied_variants(files, scratch: Path, rng, limit):
    """Copies of fixtures in which the payload of one tagged block of one layer record is emptied."""
    from psd_tools.psd import PSD
    out = []
    cands = []
    for f in files:
        try:
            with open(f, "rb") as fp:
                psd = PSD.read(fp)
            li = psd.layer_and_mask_information.layer_info
            if li is None or not li.layer_records:
                continue
            for ri, rec in enumerate(li.layer_records):
                for key in list(rec.tagged_blocks.keys()):
                    cands.append((f, ri, key))
        except Exception:  # noqa
            continue
    rng.shuffle(cands)
    seen_keys = set()
    for f, ri, key in cands:
        if len(out) >= limit:
            break
        if key in seen_keys:
            continue
        seen_keys.add(key)
        try:
            with open(f, "rb") as fp:
                psd = PSD.read(fp)
            rec = psd.layer_and_mask_information.layer_info.layer_records[ri]
            rec.tagged_blocks[key].data = b""
            p = scratch / f"{Path(f).stem}-r{ri}-{getattr(key, 'name', str(key))}{Path(f).suffix}"
            with open(p, "wb") as fp:
                psd.write(fp)
            out.append(p)
        except Exception:  # noqa
            continue
    return out


def _shrink(prefix, st, expected):
    """Smallest sub-history after which `st` still differs from its alone result."""
    def bad(h):
        r = run_session([list(x) for x in h] + [list(st)])
        return r["results"][-1] != expected
    if not prefix or not bad(prefix):
        return prefix
    return core.ddmin(prefix, bad)


def _default_pairs(ctx):
    import importlib
    import pkgutil
    import attr
    import psd_tools.psd as P
    n = 0
    mutable = (list, dict, set, bytearray)
    for m in pkgutil.iter_modules(P.__path__):
        mod = importlib.import_module(f"psd_tools.psd.{m.name}")
        for name, cls in sorted(vars(mod).items()):
            if not isinstance(cls, type) or cls.__module__ != mod.__name__ or not attr.has(cls):
                continue
            try:
                a, b = cls(), cls()
            except Exception:  # noqa
                continue
            n += 1
            ctx.count(("defaults", cls.__name__))
            ra, rb = _reach(a), _reach(b)
            shared = sorted(set(ra) & set(rb))
            if shared:
                path = ra[shared[0]]
                ctx.fail(f"C20/shared-default/{cls.__name__}.{path.split('.')[0].split('[')[0]}",
                         "two default-constructed instances share a mutable object",
                         {"class": f"{mod.__name__}.{cls.__name__}", "path": path, "object": repr(_obj(a, path))[:80]})
    return n


_MUT = (list, dict, set, bytearray)


def _reach(root):
    """id -> access path of every mutable object reachable from an element instance (fields, containers)."""
    import attr
    out = {}
    seen = set()

    def walk(v, path, depth):
        if depth > 6 or id(v) in seen:
            return
        if isinstance(v, (str, bytes, int, float, bool, type(None), type)) or hasattr(v, "__members__"):
            return
        import enum
        if isinstance(v, enum.Enum):
            return
        seen.add(id(v))
        if isinstance(v, _MUT) or (attr.has(type(v)) and v is not root) or hasattr(v, "_items"):
            out[id(v)] = path
        if attr.has(type(v)):
            for f in attr.fields(type(v)):
                try:
                    walk(getattr(v, f.name), f"{path}.{f.name}" if path else f.name, depth + 1)
                except Exception:  # noqa
                    pass
        if hasattr(v, "_items"):
            walk(v._items, path + "._items", depth + 1)
        if isinstance(v, dict):
            for k, x in list(v.items())[:50]:
                walk(x, f"{path}[{k!r}]", depth + 1)
        elif isinstance(v, (list, tuple, set)):
            for i, x in enumerate(list(v)[:50]):
                walk(x, f"{path}[{i}]", depth + 1)

    walk(root, "", 0)
    return out


def _obj(root, path):
    try:
        return eval("root." + path if not path.startswith("[") else "root" + path, {"root": root})
    except Exception:  # noqa
        return None


def replay(ctx, data):
    inp = data.get("input") or {}
    if isinstance(inp, str):
        try:
            inp = json.loads(inp)
        except Exception:  # noqa
            inp = {}
    if "step" in inp:
        import tempfile
        d = Path(tempfile.mkdtemp(prefix="verif-c20-replay-"))
        for name, h in (inp.get("files") or {}).items():
            (d / name).write_bytes(unhx(h))
        sub = lambda st: [st[0], str(st[1]).replace(SCRATCH_MARK, str(d) + "/")]
        step, history = sub(inp["step"]), [sub(x) for x in inp["history"]]
        alone = run_session([step])["results"][0]
        r = run_session(history + [step])
        print("alone:", alone, "| after history:", r["results"][-1], "| history:", [_short_step(x) for x in history],
              "| state left changed by the whole session:", r["changed_cells"])
    else:
        print(json.dumps(inp))
    return 0
