"""C20 - no cross-document state: results do not depend on processing history."""
from __future__ import annotations

import io
import json
import subprocess
import sys
from concurrent.futures import ThreadPoolExecutor
from pathlib import Path

import core
import extract
import extract_c20
from core import hx, unhx, err_class

SESSION = core.VERIF / "harness" / "c20_session.py"
FIX = core.REPO / "tests" / "psd_files"


def run_session(script, timeout=600):
    p = subprocess.run(
        ["/venv/bin/python", str(SESSION), str(core.REPO), "-"], input=json.dumps(script),
        capture_output=True, text=True, timeout=timeout,
    )
    if p.returncode != 0:
        raise core.Infra("session subprocess failed: " + p.stderr[-400:])
    return json.loads(p.stdout.strip().splitlines()[-1])


def be32(n):
    return n.to_bytes(4, "big")


def desc_body(key: bytes, explicit: bool) -> bytes:
    """A minimal Descriptor body holding one Integer item under `key`."""
    name = be32(1) + b"\x00\x00"            # unicode string "" with padding=1: count 1? see below
    # write_unicode_string(fp, "", padding=1) is produced by the library itself to stay independent of its layout:
    from psd_tools.psd.descriptor import Descriptor, Integer
    d = Descriptor(name="", classID=b"null")
    d[b"KEY!"] = Integer(7)
    raw = d.tobytes()
    marker = be32(4) + b"KEY!"
    assert raw.count(marker) == 1, "unexpected layout of a one-item descriptor"
    k = (be32(len(key)) if explicit else be32(0)) + key
    return raw.replace(marker, k)


def run(ctx: core.Run):
    src = core.REPO / "src" / "psd_tools"
    cells, defaults = extract_c20.extract(src)
    ctx.write_generated("Globals", extract_c20.to_lean(cells, defaults))
    terms_info = extract.gen_terms(ctx)
    ctx.prove(["PsdVerif.Props.C20"])
    ctx.trusted_base += [
        "Lean 4.33 kernel; axioms allowed: propext, Classical.choice, Quot.sound (audited per theorem)",
        "harness/extract_c20.py: AST walk producing the footprint table (aliasing through getattr/exec is not seen; "
        "validated dynamically by snapshotting every module global and class attribute around scripted sessions)",
        "Model/Globals.lean: generic footprint semantics and the descriptor key codec (tied by correspondence)",
        "C-level state of NumPy/PIL/zlib is outside every model",
    ]
    ctx.assumptions += ["operations touch process-wide state only through Python-level module globals / class attributes"]
    table = {c.key: c for c in cells}
    ctx.extra["footprint"] = [
        {"cell": c.key, "kind": c.kind, "writers": sorted(set(c.writers))[:4], "readers": len(set(c.readers))} for c in cells
    ]
    # cells that are written at run time and read: each is a concrete suspect for the search below
    dirty = [c for c in cells if c.writers and c.readers]
    for d in defaults:
        ctx.fail(f"C20/shared-default/{d['module']}:{d['line']}", "attr.ib default is a shared mutable object", d)

    rng = ctx.rng
    quick = ctx.quick

    # ------------- correspondence: descriptor key codec, model vs code
    import psd_tools.psd.descriptor as D
    Imp = getattr(D, "_ImplicitKey", ())
    some_terms = sorted(t for t in D._TERMS if len(t) == 4)
    keys = [b"alis", b"Gcls", b"\0\0\0\0", b"warp", b"json", b"url", b"xx", b"a", b"", b"abcde", b"layerTime",
            b"\xff\xfe\xfd\xfc"] + [rng.choice(some_terms) for _ in range(20)]
    streams = []
    for k in keys:
        for explicit in (False, True):
            body = (be32(len(k)) if explicit else be32(0)) + k
            for tail in (b"", b"\x00", b"TAILTAIL"):
                streams.append(body + tail)
            streams.append(body[: rng.randrange(0, len(body) + 1)])        # truncated
    for _ in range(200 if quick else 3000):
        n = rng.choice([0, 0, 0, 1, 3, 4, 4, 5, 9, 300, 2 ** 31])
        k = bytes(rng.randrange(256) for _ in range(rng.choice([0, 1, 3, 4, 4, 4, 5, 8])))
        streams.append(be32(n) + k)
    drv = ctx.driver()
    ans = drv.batch([("key.read", hx(b"PRE" + s), 3) for s in streams])
    wreqs, wmeta = [], []
    for s, a in zip(streams, ans):
        fp = io.BytesIO(b"PRE" + s)
        fp.seek(3)
        try:
            k = D.read_length_and_key(fp)
            impl = ("ok", bytes(k), isinstance(k, Imp) if Imp else False, fp.tell())
        except Exception as e:  # noqa
            impl = ("err", err_class(e))
        model = ("ok", unhx(a[1]), a[2] == "1", int(a[3])) if a[0] == "ok" else ("err", a[1])
        ctx.corr_cases += 1
        ctx.count(("kread", s), nontrivial=len(s) >= 4)
        ctx.hist("key_read", impl[0] if impl[0] == "err" else ("implicit" if impl[2] else "plain"))
        if impl != model:
            ctx.disagree("key.read: model != read_length_and_key", {"data": hx(s), "impl": str(impl), "model": str(model)})
        if impl[0] == "ok":
            wreqs.append(("key.write", hx(impl[1]), "1" if impl[2] else "0"))
            wmeta.append((s, k, impl))
    wans = drv.batch(wreqs)
    for (s, k, impl), a in zip(wmeta, wans):
        out = io.BytesIO()
        try:
            D.write_length_and_key(out, k)
            w = ("ok", out.getvalue())
        except Exception as e:  # noqa
            w = ("err", err_class(e))
        m = ("ok", unhx(a[1])) if a[0] == "ok" else ("err", a[1])
        ctx.corr_cases += 1
        if w != m:
            ctx.disagree("key.write: model != write_length_and_key", {"key": hx(bytes(k)), "impl": str(w), "model": str(m)})
        # property-level oracle: a completely read key is re-read from what is written
        if w[0] == "ok" and impl[3] - 3 >= 8 or (w[0] == "ok" and len(bytes(k)) > 0):
            fp = io.BytesIO(w[1])
            try:
                k2 = D.read_length_and_key(fp)
                if bytes(k2) != bytes(k) and len(bytes(k)) >= 1 and not (len(bytes(k)) < 4 and impl[2]):
                    ctx.fail("C20/key/not-reread", "a key written by the library is read back differently",
                             {"stream": hx(s)}, hx(bytes(k2)), hx(bytes(k)))
            except Exception:  # noqa
                pass
    ctx.sample({"key stream": hx(streams[1])})

    # ------------- sessions: alone in a fresh interpreter vs after other sessions
    small = sorted([p for p in FIX.glob("*.ps[db]")], key=lambda p: p.stat().st_size)
    pool = small[: (8 if quick else 40)]
    extra = [FIX / "descriptors" / n for n in ()]  # placeholder for directory fixtures
    for sub in ("descriptors", "layers-minimal", "effects"):
        fs = sorted((FIX / sub).glob("*.ps[db]"), key=lambda p: p.stat().st_size)
        pool += fs[: (1 if quick else 6)]
    ops = ["lowlevel", "structure", "open_save", "describe", "preview", "composite", "edit_save", "struct_save"]
    steps = [(op, str(p)) for p in pool for op in ops]
    # unusual documents: a fixture with one tagged-block payload emptied (most are rejected by the reader; what
    # matters is that reading them leaves no trace for the documents read afterwards)
    import atexit, shutil, tempfile
    scratch = Path(tempfile.mkdtemp(prefix="verif-c20-"))
    atexit.register(shutil.rmtree, scratch, True)
    variants = _emptied_variants(pool[: (3 if quick else 10)], scratch, rng, 6 if quick else 40)
    steps += [("structure", str(v)) for v in variants]
    ctx.extra["emptied_payload_variants"] = len(variants)
    steps += [("build", "4"), ("build", "7"), ("build", "7:16"), ("build", "4:32"), ("build", "48"), ("build", "48:16")]
    # documents that embed patterns (several Photoshop presets share their ids across files)
    pat_files = _pattern_fixtures(limit=(4 if quick else 16))
    for f in pat_files:
        if f not in pool:
            steps += [(op, str(f)) for op in ("composite", "structure")]
        steps.append(("pattern_edit_composite", str(f)))
    ctx.extra["pattern_fixtures"] = [p.name for p in pat_files]
    # descriptor-level steps aimed at the one place where history used to matter
    unknown = b"alis"
    steps += [
        ("desc_read", hx(desc_body(unknown, explicit=False))),
        ("desc_read", hx(desc_body(b"qZ9!", explicit=False))),
        ("desc_read", hx(desc_body(b"warp", explicit=True))),
        ("desc_read", hx(desc_body(unknown, explicit=True))),
        ("desc_read", hx(desc_body(b"qZ9!", explicit=True))),
        ("desc_read", hx(desc_body(b"warp", explicit=False))),
        ("desc_build", hx(unknown)), ("desc_build", hx(b"qZ9!")), ("desc_build", hx(b"warp")),
        ("desc_build", hx(b"ab")), ("desc_build", hx(b"Nm  ")),
        ("desc_read_trunc", hx(desc_body(unknown, explicit=False)[:-9] )),
        ("desc_read_trunc", hx(be32(1) + b"\0\0" + be32(0) + b"ab")),
    ]
    # alone: one fresh interpreter per step
    with ThreadPoolExecutor(max_workers=14) as ex:
        alone = list(ex.map(lambda st: run_session([list(st)]), steps))
    alone_res = {tuple(st): r["results"][0] for st, r in zip(steps, alone)}
    changed_alone = sorted({c for r in alone for c in r["changed_cells"]})
    # histories: the same steps in several random orders, each order in ONE interpreter
    n_hist = 3 if quick else 10
    orders = []
    for _ in range(n_hist):
        o = list(steps)
        rng.shuffle(o)
        # force the adversarial sub-sequences to appear: reads of unknown keys before the builds
        orders.append(o)
    with ThreadPoolExecutor(max_workers=10) as ex:
        hist = list(ex.map(lambda o: run_session([list(s) for s in o], timeout=1800), orders))
    changed_hist = sorted({c for r in hist for c in r["changed_cells"]})
    nshrunk = [0]
    for o, r in zip(orders, hist):
        for pos, (st, res) in enumerate(zip(o, r["results"])):
            ctx.count(("session", st, pos), nontrivial=not res.startswith("EXC:") and res != "skipped-large")
            ctx.hist("session_op", st[0])
            if res != alone_res[tuple(st)]:
                # shrink: which earlier step is responsible? (bounded: the first few distinct failures only)
                nshrunk[0] += 1
                culprit = _shrink(o[:pos], st, alone_res[tuple(st)]) if nshrunk[0] <= 4 else o[:pos]
                ctx.fail(f"C20/history-dependent/{st[0]}/{Path(st[1]).name if '/' in st[1] else st[1][:16]}",
                         f"{st[0]} gives a different result after other sessions than alone in a fresh interpreter",
                         {"step": list(st), "history": [list(x) for x in culprit]}, res, alone_res[tuple(st)])
    ctx.sample({"session order (first 4)": [list(s) for s in orders[0][:4]]})
    # ------------- the static footprint validated dynamically
    for c in sorted(set(changed_alone) | set(changed_hist)):
        cell = table.get(c.replace(":", ":", 1))
        declared = cell is not None and bool(cell.writers)
        ctx.hist("cells_changed_at_runtime", c)
        if not declared:
            ctx.disagree("a global cell changed during sessions but the footprint table does not declare a run-time writer",
                         {"cell": c})
    for c in dirty:
        ctx.notes.append(f"cell written at run time and read: {c.key} writers={sorted(set(c.writers))[:3]}")

    # ------------- freshly constructed structures share no mutable state
    pairs = _default_pairs(ctx)
    ctx.extra["default_constructed_classes"] = pairs

    ctx.rule = (
        "key codec: byte streams (known terms, unknown 4-byte keys, short/long/truncated keys, random) through "
        "read_length_and_key/write_length_and_key vs the model; sessions: every (operation, document) step of a pool of "
        "fixtures and generated documents run alone in a fresh interpreter and again inside %d random orders of all steps in "
        "one interpreter each; non-trivial = the step produced a result (not an exception / skipped); distinct = (step, "
        "position in order). All default-constructible element classes are paired." % n_hist
    )
    ctx.extra["terms"] = terms_info
    ctx.extra["session_steps"] = len(steps)
    ctx.extra["histories"] = n_hist
    ctx.model_coverage = {
        "modelled": ["footprint table of every module-level/class-level mutable object", "descriptor key codec"],
        "not_modelled": ["C-level state in NumPy/PIL/zlib", "the body of every operation (only its footprint)"],
    }
    if ctx.tier == "thorough":
        ctx.recheck(["PsdVerif.Props.C20"])


def _pattern_fixtures(limit):
    """Small fixtures that embed patterns, preferring pattern ids that occur in more than one file."""
    from psd_tools.constants import Tag
    from psd_tools.psd import PSD
    by_id, files = {}, {}
    for f in sorted(FIX.rglob("*.psd"), key=lambda p: p.stat().st_size):
        if f.stat().st_size > 600_000:
            continue
        try:
            with open(f, "rb") as fp:
                psd = PSD.read(fp)
            tb = psd.layer_and_mask_information.tagged_blocks
            ids = []
            for key in (Tag.PATTERNS1, Tag.PATTERNS2, Tag.PATTERNS3):
                for pat in ((tb.get_data(key) if tb else None) or []):
                    ids.append(str(pat.pattern_id))
            if ids:
                files[f] = ids
                for i in ids:
                    by_id.setdefault(i, []).append(f)
        except Exception:  # noqa
            continue
    shared = [f for i, fs in sorted(by_id.items()) if len(fs) > 1 for f in fs]
    out = []
    for f in shared + list(files):
        if f not in out:
            out.append(f)
    return out[:limit]


def _emptied_variants(files, scratch: Path, rng, limit):
    """Copies of fixtures in which the payload of one tagged block of one layer record is emptied."""
    from psd_tools.psd import PSD
    out = []
    cands = []
    for f in files:
        try:
            with open(f, "rb") as fp:
                psd = PSD.read(fp)
            li = psd.layer_and_mask_information.layer_info
            if li is None or not li.layer_records:
                continue
            for ri, rec in enumerate(li.layer_records):
                for key in list(rec.tagged_blocks.keys()):
                    cands.append((f, ri, key))
        except Exception:  # noqa
            continue
    rng.shuffle(cands)
    seen_keys = set()
    for f, ri, key in cands:
        if len(out) >= limit:
            break
        if key in seen_keys:
            continue
        seen_keys.add(key)
        try:
            with open(f, "rb") as fp:
                psd = PSD.read(fp)
            rec = psd.layer_and_mask_information.layer_info.layer_records[ri]
            rec.tagged_blocks[key].data = b""
            p = scratch / f"{Path(f).stem}-r{ri}-{getattr(key, 'name', str(key))}{Path(f).suffix}"
            with open(p, "wb") as fp:
                psd.write(fp)
            out.append(p)
        except Exception:  # noqa
            continue
    return out


def _shrink(prefix, st, expected):
    """Smallest sub-history after which `st` still differs from its alone result."""
    def bad(h):
        r = run_session([list(x) for x in h] + [list(st)])
        return r["results"][-1] != expected
    if not prefix or not bad(prefix):
        return prefix
    return core.ddmin(prefix, bad)


def _default_pairs(ctx):
    import importlib
    import pkgutil
    import attr
    import psd_tools.psd as P
    n = 0
    mutable = (list, dict, set, bytearray)
    for m in pkgutil.iter_modules(P.__path__):
        mod = importlib.import_module(f"psd_tools.psd.{m.name}")
        for name, cls in sorted(vars(mod).items()):
            if not isinstance(cls, type) or cls.__module__ != mod.__name__ or not attr.has(cls):
                continue
            try:
                a, b = cls(), cls()
            except Exception:  # noqa
                continue
            n += 1
            ctx.count(("defaults", cls.__name__))
            ra, rb = _reach(a), _reach(b)
            shared = sorted(set(ra) & set(rb))
            if shared:
                path = ra[shared[0]]
                ctx.fail(f"C20/shared-default/{cls.__name__}.{path.split('.')[0].split('[')[0]}",
                         "two default-constructed instances share a mutable object",
                         {"class": f"{mod.__name__}.{cls.__name__}", "path": path, "object": repr(_obj(a, path))[:80]})
    return n


_MUT = (list, dict, set, bytearray)


def _reach(root):
    """id -> access path of every mutable object reachable from an element instance (fields, containers)."""
    import attr
    out = {}
    seen = set()

    def walk(v, path, depth):
        if depth > 6 or id(v) in seen:
            return
        if isinstance(v, (str, bytes, int, float, bool, type(None), type)) or hasattr(v, "__members__"):
            return
        import enum
        if isinstance(v, enum.Enum):
            return
        seen.add(id(v))
        if isinstance(v, _MUT) or (attr.has(type(v)) and v is not root) or hasattr(v, "_items"):
            out[id(v)] = path
        if attr.has(type(v)):
            for f in attr.fields(type(v)):
                try:
                    walk(getattr(v, f.name), f"{path}.{f.name}" if path else f.name, depth + 1)
                except Exception:  # noqa
                    pass
        if hasattr(v, "_items"):
            walk(v._items, path + "._items", depth + 1)
        if isinstance(v, dict):
            for k, x in list(v.items())[:50]:
                walk(x, f"{path}[{k!r}]", depth + 1)
        elif isinstance(v, (list, tuple, set)):
            for i, x in enumerate(list(v)[:50]):
                walk(x, f"{path}[{i}]", depth + 1)

    walk(root, "", 0)
    return out


def _obj(root, path):
    try:
        return eval("root." + path if not path.startswith("[") else "root" + path, {"root": root})
    except Exception:  # noqa
        return None


def replay(ctx, data):
    inp = data.get("input") or {}
    if "step" in inp:
        alone = run_session([inp["step"]])["results"][0]
        after = run_session(inp["history"] + [inp["step"]])["results"][-1]
        print("alone:", alone, "after history:", after, "history:", inp["history"])
    else:
        print(json.dumps(inp))
    return 0
