"""C05 - the PackBits (RLE) codec honours its contract in both implementations."""
from __future__ import annotations

import hashlib
import itertools
import json
import os
from pathlib import Path

import subprocess
import sys

import c05_select
import core
import extract
import pyx_emul
from core import hx, unhx, err_class

COMP = core.REPO / "src" / "psd_tools" / "compression"


# ---- independent PackBits reference (Apple TN1023), used by the search only ------------
def spec_decode(e: bytes):
    out = bytearray()
    i = 0
    while i < len(e):
        h = e[i]
        i += 1
        if h < 128:
            if i + h + 1 > len(e):
                return None
            out += e[i:i + h + 1]
            i += h + 1
        elif h == 128:
            continue
        else:
            if i >= len(e):
                return None
            out += bytes([e[i]]) * (257 - h)
            i += 1
    return bytes(out)


def spec_headers(e: bytes):
    hs, i = [], 0
    while i < len(e):
        h = e[i]
        hs.append(h)
        i += 1 + (h + 1 if h < 128 else 0 if h == 128 else 1)
    return hs


def worst_case(n: int) -> int:
    return n + (n + 126) // 127


def call(f, *a):
    try:
        return ("ok", bytes(f(*a)))
    except pyx_emul.OutOfBounds as e:
        return ("err", "OUT-OF-BOUNDS")
    except RecursionError:
        return ("err", "RecursionError")
    except Exception as e:  # noqa
        return ("err", err_class(e))


def answer(fields):
    if fields[0] == "ok":
        return ("ok", unhx(fields[1]))
    return ("err", fields[1] if len(fields) > 1 else fields[0])


# ---- generators ------------------------------------------------------------------------
def adjacency_inputs(maxlen):
    """One representative per adjacent-equality pattern: all strings up to maxlen (the
    encoder only ever compares neighbours, so the pattern determines its control flow)."""
    yield b""
    for n in range(1, maxlen + 1):
        for bits in range(1 << (n - 1)):
            v, out = 0, bytearray([7])
            for k in range(n - 1):
                if not (bits >> k) & 1:
                    v = (v + 1) % 251
                out.append((7 + v) % 256)
            yield bytes(out)


RUNS = [1, 2, 3, 126, 127, 128, 129, 130, 254, 255, 256, 257, 258]


def composition_inputs(rng, count, maxparts):
    for _ in range(count):
        parts = rng.randrange(1, maxparts + 1)
        out = bytearray()
        v = rng.randrange(256)
        for _ in range(parts):
            n = rng.choice(RUNS)
            if rng.random() < 0.5:       # a run of n equal bytes
                v = (v + 1 + rng.randrange(254)) % 256
                out += bytes([v]) * n
            else:                        # n bytes without equal neighbours
                for _ in range(n):
                    v = (v + 1 + rng.randrange(254)) % 256
                    out.append(v)
        yield bytes(out)


HEADERS = [0, 1, 2, 126, 127, 128, 129, 130, 254, 255]


def decoder_inputs(maxlen, sizes):
    alpha = HEADERS
    for n in range(0, maxlen + 1):
        for tup in itertools.product(alpha, repeat=n):
            for s in sizes:
                yield bytes(tup), s


def mutated_streams(rng, enc, count):
    for _ in range(count):
        n = rng.randrange(1, 40)
        d = bytes(rng.choice([3, 3, 3, 9, 200]) for _ in range(n))
        e = bytearray(enc(d))
        kind = rng.randrange(5)
        if kind == 0 and e:
            e[rng.randrange(len(e))] = rng.choice(HEADERS)
        elif kind == 1 and e:
            del e[rng.randrange(len(e)):]
        elif kind == 2:
            e.insert(rng.randrange(len(e) + 1), 128)
        elif kind == 3:
            e += bytes([rng.choice(HEADERS)])
        size = max(0, n + rng.choice([0, 0, 0, -1, 1, 5]))
        yield bytes(e), size


def classify_dec(e: bytes, size: int, impl: str, res) -> str:
    # discriminating feature of a decoder failure
    last_is_rep = bool(e) and _last_header_is_trailing_replicate(e)
    kind = res[1] if res[0] == "err" else "wrong-length"
    feat = "replicate-header-is-last-byte" if last_is_rep else "other"
    return f"C05/dec/{impl}/{kind}/{feat}"


def _last_header_is_trailing_replicate(e: bytes) -> bool:
    i = 0
    while i < len(e):
        h = e[i]
        if h > 128 and i + 1 >= len(e):
            return True
        i += 1 + (h + 1 if h < 128 else 0 if h == 128 else 1)
    return False


# ---- the check -------------------------------------------------------------------------
def run(ctx: core.Run):
    gen = ctx.regenerate(extract.gen_rle)
    ctx.prove(["PsdVerif.Props.C05"])
    ctx.trusted_base += [
        "Lean 4.33 kernel; axioms allowed: propext, Classical.choice, Quot.sound (audited per theorem)",
        "Model/Rle.lean is a hand transliteration of rle.py and _rle.pyx; tied by this run's correspondence check",
        "harness/pyx_emul.py: translation of _rle.pyx to Python with C integer and bounds semantics",
        "harness/extract.py: MAX_LEN constants regenerated from both sources",
        "PackBits specification (Apple TN1023) as transcribed in Model/Rle.specDec and in the harness reference decoder",
    ]
    ctx.assumptions += [
        "inputs shorter than 2^31 bytes (C int indices)",
        "the prebuilt _rle .so is compared only when it is at least as new as _rle.pyx (Cython is not installed)",
    ]

    from psd_tools.compression import rle as rle_py

    try:
        enc_c, dec_c, code = pyx_emul.load(COMP / "_rle.pyx")
        emul_ok = True
    except pyx_emul.EmulError as e:
        emul_ok = False
        ctx.disagree("pyx emulator cannot translate the current _rle.pyx: %s" % e, None)
        enc_c = dec_c = None

    so = None
    prov = json.loads((core.VERIF / "harness" / "so_provenance.json").read_text())
    so_files = sorted(COMP.glob("_rle*.so"))
    pyx_sha = hashlib.sha256((COMP / "_rle.pyx").read_bytes()).hexdigest()
    if so_files and pyx_sha == prov["pyx_sha256"] and \
            hashlib.sha256(so_files[-1].read_bytes()).hexdigest() == prov["so_sha256"]:
        try:
            from psd_tools.compression import _rle as so  # type: ignore
        except ImportError:
            so = None
    if so is None:
        ctx.skipped.append("compiled _rle extension was not built from the current _rle.pyx "
                           "(content hashes differ from harness/so_provenance.json; Cython is not installed): not compared")
    impls_enc = [("py", lambda d: rle_py.encode(d))]
    impls_dec = [("py", lambda e, n: rle_py.decode(e, n))]
    if emul_ok:
        impls_enc.append(("pyx", enc_c))
        impls_dec.append(("pyx", dec_c))
    if so is not None:
        impls_enc.append(("so", lambda d: so.encode(d)))
        impls_dec.append(("so", lambda e, n: so.decode(e, n)))

    quick = ctx.quick
    rng = ctx.rng

    # ---------------- encoder cases
    enc_cases = []
    maxlen = 12 if quick else 18
    enc_cases += list(adjacency_inputs(maxlen))
    n_adj = len(enc_cases)
    enc_cases += list(composition_inputs(rng, 150 if quick else 2500, 4 if quick else 7))
    # random small-alphabet strings
    for _ in range(2000 if quick else 30000):
        n = rng.randrange(0, 300)
        enc_cases.append(bytes(rng.choice([0, 0, 0, 1, 255]) for _ in range(n)))
    # corpus of past failures
    corpus = core.VERIF / "harness" / "corpus" / "C05.json"
    corp = []
    if corpus.exists():
        corp = json.loads(corpus.read_text())
        for c in corp:
            if c["kind"] == "enc":
                enc_cases.insert(0, unhx(c["data"]))

    drv = ctx.driver()
    m_py = drv.batch([("rle.encPy", hx(d)) for d in enc_cases])
    m_c = drv.batch([("rle.encC", hx(d)) for d in enc_cases])
    for d, a_py, a_c in zip(enc_cases, m_py, m_c):
        outs = {}
        for name, f in impls_enc:
            outs[name] = call(f, d)
        ctx.corr_cases += 1
        ctx.count(("enc", d), nontrivial=len(d) >= 2)
        model = {"py": answer(a_py), "pyx": answer(a_c), "so": answer(a_c)}
        for name, o in outs.items():
            if o != model[name]:
                ctx.disagree(f"enc: model != {name}", {"data": hx(d), "impl": _r(o), "model": _r(model[name])})
        # --- the property itself, on the implementations
        for name, o in outs.items():
            if o[0] != "ok":
                ctx.fail(f"C05/enc/{name}/raises/{o[1]}", f"{name} encoder raises {o[1]}", {"data": hx(d)}, _r(o), "bytes")
                continue
            e = o[1]
            if spec_decode(e) != d:
                ctx.fail(f"C05/enc/{name}/not-valid-packbits", f"{name} encoder output does not expand to the input",
                         {"data": hx(d)}, hx(e), "a stream the reference decoder expands to the input")
            elif 128 in spec_headers(e):
                ctx.fail(f"C05/enc/{name}/emits-noop-header", f"{name} encoder emits the reserved 0x80 header",
                         {"data": hx(d)}, hx(e), "no 0x80 header")
            if len(e) > worst_case(len(d)):
                ctx.fail(f"C05/enc/{name}/exceeds-worst-case", f"{name} encoder exceeds n + ceil(n/127)",
                         {"data": hx(d)}, len(e), worst_case(len(d)))
            # round trip through each decoder
            for dn, df in impls_dec:
                r = call(df, e, len(d))
                if r != ("ok", d):
                    ctx.fail(f"C05/roundtrip/{name}-{dn}", f"{dn}.decode({name}.encode(x)) != x",
                             {"data": hx(d)}, _r(r), hx(d))
        ref = outs["py"]
        for name, o in outs.items():
            if o != ref:
                ctx.fail(f"C05/enc/impls-differ/{name}", f"encoders differ: py vs {name}", {"data": hx(d)}, _r(o), _r(ref))
        ctx.hist("enc_len", min(len(d), 300) // 20 * 20)
    ctx.sample({"enc": hx(enc_cases[min(len(enc_cases) - 1, n_adj // 2)])})

    # ---------------- decoder cases
    dec_cases = []
    for c in corp:
        if c["kind"] == "dec":
            dec_cases.append((unhx(c["data"]), c["size"]))
    dlen = 3 if quick else 4
    dec_cases += list(decoder_inputs(dlen, range(0, 9)))
    py_enc = lambda d: bytes(rle_py.encode(d))
    dec_cases += list(mutated_streams(rng, py_enc, 2000 if quick else 40000))
    # exact streams with payload variety
    for _ in range(500 if quick else 5000):
        n = rng.randrange(0, 200)
        d = bytes(rng.choice([5, 5, 6]) for _ in range(n))
        dec_cases.append((py_enc(d), n))

    m_py = drv.batch([("rle.decPy", hx(e), n) for e, n in dec_cases])
    m_c = drv.batch([("rle.decC", hx(e), n) for e, n in dec_cases])
    for (e, n), a_py, a_c in zip(dec_cases, m_py, m_c):
        outs = {name: call(f, e, n) for name, f in impls_dec}
        ctx.corr_cases += 1
        ctx.count(("dec", e, n), nontrivial=len(e) >= 1)
        model = {"py": answer(a_py), "pyx": answer(a_c), "so": answer(a_c)}
        for name, o in outs.items():
            if o != model[name]:
                ctx.disagree(f"dec: model != {name}", {"data": hx(e), "size": n, "impl": _r(o), "model": _r(model[name])})
        for name, o in outs.items():
            ctx.hist("dec_outcome_" + name, o[1] if o[0] == "err" else "ok")
            if o[0] == "ok":
                if len(o[1]) != n and not (e == b"\x80" and o[1] == b""):
                    ctx.fail(classify_dec(e, n, name, o), f"{name} decoder returns {len(o[1])} bytes for size {n}",
                             {"data": hx(e), "size": n}, _r(o), "exactly size bytes or ValueError")
                sd = spec_decode(e)
                if sd is not None and len(sd) == n and o[1] != sd:
                    ctx.fail(f"C05/dec/{name}/wrong-bytes", f"{name} decoder output differs from the specification",
                             {"data": hx(e), "size": n}, _r(o), hx(sd))
            elif o[1] != "ValueError":
                ctx.fail(classify_dec(e, n, name, o), f"{name} decoder fails with {o[1]} instead of ValueError",
                         {"data": hx(e), "size": n}, _r(o), "ValueError")
            else:
                sd = spec_decode(e)
                if sd is not None and len(sd) == n and n > 0:
                    ctx.fail(f"C05/dec/{name}/rejects-conforming-stream", f"{name} decoder rejects a conforming stream",
                             {"data": hx(e), "size": n}, _r(o), hx(sd))
        ref = outs["py"]
        for name, o in outs.items():
            if o != ref:
                last = _last_header_is_trailing_replicate(e)
                ctx.fail(f"C05/dec/impls-differ/{name}/" + ("replicate-header-is-last-byte" if last else "other"),
                         f"decoders differ: py vs {name}", {"data": hx(e), "size": n}, _r(o), _r(ref))
    ctx.sample({"dec": hx(dec_cases[len(dec_cases) // 2][0]), "size": dec_cases[len(dec_cases) // 2][1]})
    retained_and_selected(ctx, rle_py, impls_enc, impls_dec, so_files, gen)
    ctx.rule = (
        "encoder: one representative of every adjacent-equality pattern up to length %d (exhaustive), run-length "
        "compositions over {1,2,3,126..130,254..258}, random small-alphabet strings; decoder: every string up to "
        "length %d over the header alphabet {0,1,2,126,127,128,129,130,254,255} x size 0..8 (exhaustive), mutated "
        "valid streams, exact streams. A case is non-trivial when the input has >= 2 bytes (encoder) or >= 1 byte "
        "(decoder); distinct = distinct (kind, bytes, size) tuples. Results as values: fixed batches of rows (0, 1, 2, 3 "
        "bytes mixed with 127..301-byte rows, in several orders; one-pixel-wide channels) encoded / decoded with every "
        "result KEPT and validated only after the whole batch, per implementation. Selection: a fresh interpreter per "
        "configuration {_rle importable, _rle unimportable}: import, which module is rle_impl, the retained-results "
        "battery and RLE compress/decompress of 1/8/16/32-bit rasters x PSD/PSB through the selected implementation "
        "against an independent row-table reading." % (maxlen, dlen)
    )
    ctx.exhaustive = False
    ctx.notes += [
        "proved for every input (no size bound): enc_chunks, spec_decodes_enc, enc_no_noop, enc_size_bound (Apple's n+ceil(n/127), "
        "attained at n=128), dec_complete (every conforming stream incl. no-op headers), dec_enc, dec_exact_or_reject, "
        "dec_rejects_valueError, impl_agree_dec (decC = decPy incl. which inputs are rejected and how), impl_agree_enc, "
        "decC_in_bounds, decC_never_indexError",
        "impl_agree_enc is definitional in the model (encC := encPy); that the two source texts are the same state "
        "machine is tied by the correspondence run (rle.py vs emulated _rle.pyx on every encoder case)",
    ]
    ctx.extra["implementations_compared"] = [n for n, _ in impls_enc]
    ctx.extra["generated_constants"] = gen
    if ctx.tier == "thorough":
        ctx.recheck(["PsdVerif.Props.C05"])


def retained_and_selected(ctx, rle_py, impls_enc, impls_dec, so_files, gen):
    """(1) results are values, not views of a buffer a later call rewrites; (2) the contract through the
    implementation the package selects, with and without the compiled extension (harness/c05_select.py)."""
    mods = {"py": rle_py}
    decs = dict(impls_dec)
    for name, enc in impls_enc:
        if name == "py":        # the lambdas above return the implementation's own object: keep that
            enc, dec = rle_py.encode, rle_py.decode
        else:
            dec = decs[name]
        n, fails = c05_select.retention_battery(enc, dec, mods.get(name))
        ctx.count(("retained", name), n=n)
        ctx.hist("retained_calls", name, n)
        for f in fails:
            ctx.fail(f"C05/retained/{name}/{f['mech']}", f"{name}: {f['what']}", dict(f["input"], impl=name),
                     f["observed"], f["expected"])
    sel = (gen or {}).get("selection") if gen else None
    ctx.extra["selection_statement"] = sel
    expect = {"no-compiled": "psd_tools.compression.rle",
              "compiled": "psd_tools.compression._rle" if so_files else "psd_tools.compression.rle"}
    observed = {}
    for config in ("compiled", "no-compiled"):
        env = dict(os.environ, PSD_REPO=str(core.REPO), PYTHONDONTWRITEBYTECODE="1")
        env.pop("PYTHONPATH", None)
        try:
            p = subprocess.run([sys.executable, str(core.VERIF / "harness" / "c05_select.py"), config],
                               capture_output=True, text=True, timeout=300, env=env, cwd=str(core.VERIF / "harness"))
        except subprocess.TimeoutExpired:
            raise core.Infra("c05_select.py timed out")
        try:
            out = json.loads(p.stdout.strip().splitlines()[-1])
        except Exception:  # noqa
            raise core.Infra("c05_select.py gave no answer: " + (p.stderr or p.stdout)[-400:])
        observed[config] = {k: out[k] for k in ("imported", "selected", "cases")}
        inp = {"configuration": config,
               "how": "fresh interpreter; " + ("nothing blocked" if config == "compiled" else
                                               "import of psd_tools.compression._rle raises ImportError (meta-path finder)"),
               "then": "import psd_tools.compression"}
        ctx.count(("selection", config), n=max(1, out["cases"]))
        if out["imported"] != "ok":
            ctx.fail(f"C05/selection/{config}/package-import-raises/{out['imported'].split(':')[0]}",
                     f"with the compiled extension {'present' if config == 'compiled' else 'unimportable'} "
                     f"`import psd_tools.compression` raises {out['imported']}: no codec at all in this configuration",
                     inp, out["imported"], "the package imports and rle_impl is " + expect[config])
            continue
        if out["selected"] != expect[config]:
            ctx.fail(f"C05/selection/{config}/selects/{out['selected']}", "the selection binds another implementation",
                     inp, out["selected"], expect[config])
        for f in out["failures"]:
            ctx.fail(f"C05/selection/{config}/{f['mech']}", f"selected implementation ({out['selected']}): {f['what']}",
                     dict(f["input"], **inp), f["observed"], f["expected"])
    ctx.extra["selection_observed"] = observed


def _r(o):
    return [o[0], hx(o[1]) if isinstance(o[1], (bytes, bytearray)) else o[1]]


def replay(ctx, data):
    from psd_tools.compression import rle as rle_py
    inp = data.get("input") or {}
    print("replaying", data.get("signature"))
    if "size" in inp:
        for name, f in [("py", rle_py.decode), ("pyx", pyx_emul.load(COMP / "_rle.pyx")[1])]:
            print(name, "decode ->", _r(call(f, unhx(inp["data"]), inp["size"])))
    elif "configuration" in inp:
        env = dict(os.environ, PSD_REPO=str(core.REPO))
        p = subprocess.run([sys.executable, str(core.VERIF / "harness" / "c05_select.py"), inp["configuration"]],
                           capture_output=True, text=True, env=env)
        print(p.stdout[-3000:], p.stderr[-2000:])
    elif "calls" in inp:
        enc, dec = rle_py.encode, rle_py.decode
        if inp.get("impl") == "pyx":
            enc, dec, _ = pyx_emul.load(COMP / "_rle.pyx")
        kept = []
        for c in inp["calls"]:
            r = dec(unhx(c["data"]), c["size"]) if "size" in c else enc(unhx(c["data"]))
            kept.append((c, r, bytes(r)))
            print("call", c, "->", type(r).__name__, hx(r))
        for c, r, snap in kept:
            print("kept result of", c, "now", hx(r), "(was", hx(snap) + ")", "CHANGED" if bytes(r) != snap else "")
    elif "data" in inp:
        for name, f in [("py", rle_py.encode), ("pyx", pyx_emul.load(COMP / "_rle.pyx")[0])]:
            print(name, "encode ->", _r(call(f, unhx(inp["data"]))))
    print("expected:", data.get("expected"))
    return 0
