"""C02 - any file the reader accepts is re-saved without loss or drift.

Proof: lean/PsdVerif/Props/C02.lean (what the lenient reader can return is writable and well formed; C01's round trip
then gives: re-read = the saved structure, second save = first save, byte for byte).
Correspondence: fixtures x structure-aware mutations (the real parse is instrumented from the harness to obtain the
map of length fields, counts, signatures, keys and block boundaries: harness/lenient_common.py); on the mutants the
model reader `psd.dec` is compared with PSD.read (payloads kept raw, canonicalised by harness/skel.py: every field,
key, raw payload slice, and the final offset) and the model writer `psd.enc` with PSD.write (bytes, returned count,
object state after the write).
Search: the property itself on the real code, typed payloads included: w1 = write(read(b)) succeeds, read(w1) equals
the in-memory structure after the save, write(read(w1)) == w1.  Inputs: skeleton-level mutants of a sample of fixtures
and payload-level mutants of ALL fixtures (same-length key substitutions by terminology terms, boundary values on
every scalar leaf the parser read, length-changing splices with the enclosing lengths kept valid, structure-level leaf
mutation written by the real writer); in front of them two seed-independent streams on the smallest PSD and PSB
fixtures: every signature field x every signature some reader accepts (set regenerated from the validators, *_SIGNATURES
attributes and signature comparisons of the source), and every 1- / 2-byte length-prefixed field (Pascal strings: layer
names, resource names, ...) x the boundary lengths of its width (0, 1, 2^k-1, 2^k, max-1, max) with the enclosing length
fields re-computed, with and without the tagged blocks the writer's fallback rules consult (AST); only accepted files are
judged.
Tie of writer rules the model shares with the reader or leaves out (harness/extract_c02.py -> Generated/WriterTies.lean):
the width of a tagged block's length field observed per direction for every signature x key x version (tb_width_tied),
LayerRecord._legacy_name observed for every length 0..300 with / without luni (legacy_name_tied).
"""
from __future__ import annotations

import collections
import json
import os
import random
import re
import signal
import time
import warnings
from concurrent.futures import ProcessPoolExecutor

import core
import c02_payload
import codec_common as cc
import extract_c01
import extract_c02
import lenient_common as lc
import skel
from core import hx, unhx

WORKERS = min(14, os.cpu_count() or 4)
CORR_MAX_BYTES = 120_000        # the model works on List UInt8


# ---------------------------------------------------------------------------------------------
# worker side
# ---------------------------------------------------------------------------------------------
_FX: dict = {}


def fx_root():
    return core.REPO / "tests" / "psd_files"


def fx_bytes(name: str) -> bytes:
    b = _FX.get(name)
    if b is None:
        b = (fx_root() / name).read_bytes()
        _FX[name] = b
    return b


def build(task) -> bytes:
    if task.get("file") is not None:
        return unhx(task["file"])
    return lc.apply_edits(fx_bytes(task["fixture"]), task.get("edits") or [], fx_bytes)


class _Timeout(Exception):
    pass


def _alarm(signum, frame):
    raise _Timeout()


def corr_record(data: bytes):
    """raw-payload parse and re-write, canonicalised for the comparison with the model"""
    out = {"hex": hx(data)}
    with skel.raw_payloads():
        r = cc.read_doc(data)
        if r[0] != "ok":
            out["raw"] = ("err", r[1])
            return out
        try:
            toks = skel.tokens(skel.t_psd(r[1]))
        except skel.NotSkeleton as e:
            out["raw"] = ("notskel", str(e)[:80])
            return out
        out["raw"] = ("ok", toks, r[2])
        w = cc.write_doc(r[1], "macroman", 4)
        if w[0] == "ok":
            try:
                after = skel.tokens(skel.t_psd(r[1]))
            except skel.NotSkeleton:
                after = None
            out["enc"] = ("ok", hx(w[1]), w[2], after)
        else:
            out["enc"] = ("err", w[1])
    return out


def work(task):
    import logging
    logging.disable(logging.CRITICAL)
    warnings.simplefilter("ignore")
    signal.signal(signal.SIGALRM, _alarm)
    signal.alarm(60)
    try:
        rec = task.get("rec")
        if task.get("leaf_path") is not None:
            lm = lc.leaf_set(fx_bytes(task["fixture"]), task["leaf_path"], task["leaf_how"])
            if lm is None:
                return {"id": task["id"], "res": ("no-mutant",), "rec": rec}
            data = lm[0]
            rec = dict(rec, new=lm[1])
        elif task.get("leaf_seed") is not None:
            lm = lc.leaf_mutant(random.Random(task["leaf_seed"]), fx_bytes(task["fixture"]))
            if lm is None:
                return {"id": task["id"], "res": ("no-mutant",), "rec": None}
            data, rec = lm
            rec["fixture"] = task["fixture"]
        else:
            data = build(task)
        res = lc.resave_oracle(data)
        out = {"id": task["id"], "res": res, "rec": rec, "len": len(data)}
        if (task.get("leaf_seed") is not None or task.get("leaf_path") is not None) and res[0] == "fail":
            out["file"] = hx(data)
        if task.get("corr") and len(data) <= CORR_MAX_BYTES:
            out["corr"] = corr_record(data)
        return out
    except _Timeout:
        return {"id": task["id"], "res": ("timeout",), "rec": task.get("rec")}
    except Exception as e:  # noqa  (a bug of the harness, not of the code under test)
        return {"id": task["id"], "res": ("oracle-error", repr(e)[:200]), "rec": task.get("rec")}
    finally:
        signal.alarm(0)


def map_fixture(name):
    import logging
    logging.disable(logging.CRITICAL)
    res, sm = lc.trace_parse(fx_bytes(name))
    sm.data = None          # the parent has the bytes
    return name, res[0], sm


def _thin(sites, cap):
    """at most `cap` sites per feature: first, last, then evenly spread"""
    by = {}
    for s_ in sites:
        by.setdefault(s_["feat"], []).append(s_)
    out = []
    for ft, lst in by.items():
        if len(lst) > cap:
            idx = sorted({0, len(lst) - 1} | {(k * (len(lst) - 1)) // max(1, cap - 1) for k in range(cap)})[:cap]
            lst = [lst[k] for k in idx]
        out += lst
    return out


FLAG_APPEND = (1, 2, 4, 8, 16)


def flag_sites(sm):
    """every ONE-BYTE numeric field the real parse read (flag bytes, kinds, versions, booleans ...) with the length
    block that encloses it: which optional trailer a reader parses is decided by bits of such bytes together with the
    bytes left in that block."""
    out = []
    for f in sm.nums:
        if f.size != 1 or f.off < 26:
            continue
        enc = sm.enclosing(f.off, f.off + 1)
        if not enc:
            continue
        g, b0, b1, _ = enc[0]
        out.append({"k": "flag", "feat": ("flag", f.site, f.ctx), "off": f.off, "size": 1, "label": f.label,
                    "lenoff": g.off, "lensize": g.size, "b0": b0, "b1": b1, "opaque": False,
                    "encl": [(h.off, h.size, h.value, e1) for h, _, e1, _ in enc[1:]]})
    return out


def flag_variants(site, base):
    """bit-level mutation of the byte x length-changing splice of the enclosing block: each of the 8 single-bit flips,
    alone and with k in FLAG_APPEND bytes appended to the enclosing block (zeros; for k = 4 and 16 also non-zero
    bytes), every enclosing length re-computed -> [(name, edits)]"""
    off = site["off"]
    old = base[off]
    grows = {}
    for how, edits in lc.block_variants(site, ks=FLAG_APPEND):
        if how.startswith("grow") and how.endswith("+fixup"):
            grows[int(how[4:-6])] = edits
    out = []
    for bit in range(8):
        put = ["put", off, "%02x" % (old ^ (1 << bit))]
        out.append(("bit%d" % bit, [put]))
        for k, edits in sorted(grows.items()):
            out.append(("bit%d+append%d" % (bit, k), list(edits) + [put]))
            if k in (4, 16):
                alt = [(["rep", e[1], e[2], ("01ff7f80" * 4)[:2 * k]] if e[0] == "rep" and e[3] == "00" * k else e) for e in edits]
                out.append(("bit%d+append%d-nonzero" % (bit, k), alt + [put]))
    return out


def index_fixture(arg):
    """payload-level sites of one fixture (byte sites from the structural map, leaf sites from the parsed object)"""
    name, want_map, cap = arg
    import logging
    logging.disable(logging.CRITICAL)
    warnings.simplefilter("ignore")
    try:
        data = fx_bytes(name)
        res, sm = lc.trace_parse(data)
        sites = _thin(lc.payload_sites(sm) + lc.short_len_sites_with_drops(sm) + flag_sites(sm), cap)
        n_all = len(sm.keys), len(sm.scalars), len(sm.containers), len(sm.opaque)
        leafs = _thin(lc.leaf_sites(data), cap) if res[0] == "ok" else []
        sm.data = None
        return name, res[0], (sm if want_map else None), sites, leafs, n_all
    except Exception as e:  # noqa  (the tracer met something it does not understand: the fixture is skipped, with a note)
        return name, "index-error:" + repr(e)[:120], None, [], [], (0, 0, 0, 0)


# ---------------------------------------------------------------------------------------------
# parent side
# ---------------------------------------------------------------------------------------------
def rel(p) -> str:
    return str(p.relative_to(fx_root()))


def load_corpus():
    f = core.VERIF / "harness" / "corpus" / "C02.json"
    return json.loads(f.read_text()) if f.exists() else []


def lean_b35():
    """the literal of theorem `b35_bytes` in Props/C02.lean"""
    src = (core.LEAN / "PsdVerif" / "Props" / "C02.lean").read_text()
    m = re.search(r"theorem b35_bytes : Samples\.b35 =\s*\[(.*?)\]\s*:=", src, re.S)
    if not m:
        return None
    return bytes(int(x, 16) for x in re.findall(r"0x([0-9a-fA-F]{2})", m.group(1)))


def shrink(task, sig):
    """fewest mutated bytes (for in-place edits) that still give the same signature"""
    if task.get("file") is not None and task.get("fixture") and len(unhx(task["file"])) == len(fx_bytes(task["fixture"])):
        task = {k: v for k, v in task.items() if k != "file"} | {"edits": [["put", 0, task["file"]]]}
    if task.get("file") is not None or any(e[0] != "put" for e in task.get("edits") or []):
        return task
    base = fx_bytes(task["fixture"])
    mut = build(task)
    if len(mut) != len(base):
        return task
    offs = [i for i in range(len(base)) if base[i] != mut[i]]
    if len(offs) <= 1:
        return task

    def test(sub):
        b = bytearray(base)
        for i in sub:
            b[i] = mut[i]
        r = lc.resave_oracle(bytes(b))
        return r[0] == "fail" and lc.classify(r) == sig
    keep = core.ddmin(offs, test) if len(offs) <= 4096 else offs
    return dict(task, edits=_runs(keep, mut))


def _edit_weight(t):
    """how many bytes a recipe touches (a whole file counts as its length)"""
    if t.get("edits") is None:
        return len(t.get("file") or "") // 2
    w = 0
    for e in t["edits"]:
        if e[0] == "put":
            w += len(e[2]) // 2
        elif e[0] == "rep":
            w += (e[2] - e[1]) + (len(e[3]) // 2 if isinstance(e[3], str) else e[3][-1] - e[3][-2])
        else:
            w += 1
    return w


def _runs(offs, mut):
    """consecutive offsets -> one put edit per run"""
    out = []
    for i in sorted(offs):
        if out and out[-1][1] + len(out[-1][2]) // 2 == i:
            out[-1][2] += bytes([mut[i]]).hex()
        else:
            out.append(["put", i, bytes([mut[i]]).hex()])
    return out


def run(ctx: core.Run):
    t0 = time.time()
    warnings.simplefilter("ignore")
    import logging
    logging.disable(logging.CRITICAL)
    ctx.regenerate(extract_c01.gen_codec)
    gen_w = ctx.regenerate(extract_c02.gen_tb_widths)
    ctx.prove(["PsdVerif.Props.C02"])
    c02_payload.run(ctx)
    quick = ctx.quick
    rng = ctx.rng
    # the accepted signatures, from the source (validators, *_SIGNATURES attributes, comparisons with a signature);
    # set before the pool forks: the structural maps mark exactly these as signature fields
    sig_alts, sig_where = lc.signature_alternatives()
    lc.SIGNATURES = sig_alts
    consulted = lc.writer_consulted_keys()
    lc.CONSULTED = frozenset(consulted.values())

    # ------------------------------------------------------------------ fixtures and their structural maps
    allfx = cc.fixtures()
    if quick:
        small = [f for f in allfx if f.stat().st_size <= 60000]
        chosen = small[:8] + rng.sample(small[8:], 4)
        per_fx = lambda size: 250
    else:
        chosen = allfx
        per_fx = lambda size: 640 if size <= 300_000 else 160
    names = [rel(f) for f in chosen]
    sizes = {rel(f): f.stat().st_size for f in chosen}
    # signature / short-length streams: the smallest fixtures of BOTH versions (the 8-byte length fields, section
    # lengths and big keys exist in a PSB only), whatever the random choice above took
    n_each = 6 if quick else 20
    by_ext = {".psd": [], ".psb": []}
    for f in allfx:
        if f.stat().st_size <= (60_000 if quick else 300_000):
            by_ext.setdefault(f.suffix.lower(), []).append(f)
    det_names = []
    for ext in sorted(by_ext):
        det_names += [rel(f) for f in by_ext[ext][:n_each]]
    extra_names = [n for n in det_names if n not in names]
    sizes.update({n: (fx_root() / n).stat().st_size for n in extra_names})
    pool = ProcessPoolExecutor(WORKERS)
    maps = {}
    for name, status, sm in pool.map(map_fixture, names + extra_names, chunksize=2):
        sm.data = fx_bytes(name)
        maps[name] = sm
        ctx.hist("fixture_parse", status)
        ctx.hist("fixture_size", "<=20k" if sizes[name] <= 20000 else "<=60k" if sizes[name] <= 60000 else
                 "<=300k" if sizes[name] <= 300000 else ">300k")
    ctx.extra["structural_map"] = {
        "fixtures": len(maps),
        "fields": sum(len(m.fields) for m in maps.values()),
        "numeric_fields": sum(len(m.nums) for m in maps.values()),
        "length_fields": sum(len(m.lens) for m in maps.values()),
        "signatures": sum(len(m.sigs) for m in maps.values()),
        "block_boundaries": sum(len(m.boundaries) for m in maps.values()),
        "length_blocks": sum(len(m.blocks) for m in maps.values()),
        "nested_streams_not_mapped": sum(m.unmapped for m in maps.values()),
        "skeleton_fields": sum(1 for m in maps.values() for f in m.fields if f.label in lc.SKELETON),
    }
    t_maps = time.time() - t0

    # ------------------------------------------------------------------ tasks: corpus first, then mutants
    tasks = []

    def add(**kw):
        kw["id"] = len(tasks)
        tasks.append(kw)
        return kw

    corpus = load_corpus()
    for e in corpus:
        add(kind="corpus", corr=True, expect=e.get("expect", "ok"), note=e.get("note"), file=e.get("file"),
            fixture=e.get("fixture"), edits=e.get("edits"), rec={"op": "corpus", "label": e.get("note", "")[:40]})
    for name in names:                                   # the fixtures themselves
        add(kind="fixture", corr=sizes[name] <= CORR_MAX_BYTES and quick, fixture=name, edits=[],
            rec={"op": "none", "label": "fixture", "fixture": name})
    # ------------------------------------------------------------------ signature fields x every accepted signature;
    # short (1- / 2-byte) length fields x the boundary lengths of their width, enclosing lengths re-computed, with
    # and without the blocks the writer's fallback rules consult
    n_sig = n_plen = 0
    plen_feats = set()
    for name in det_names:
        sm = maps[name]
        k = 0
        for _, rec in lc.sig_mutants(sm, sig_alts, cap=None if sizes[name] <= 60_000 else 3):
            rec["fixture"] = name
            k += 1
            n_sig += 1
            add(kind="mutant", corr=rec["label"] in lc.SKELETON and sizes[name] <= CORR_MAX_BYTES and k <= 60,
                fixture=name, edits=rec["edits"], rec=rec)
        sites = lc._thin_sites(lc.short_len_sites_with_drops(sm), 3 if quick else 8)
        for site in sites:
            plen_feats.add(site["feat"])
            k = 0
            for how, edits in lc.plen_variants(site, drop=site["drop"]):
                k += 1
                n_plen += 1
                add(kind="mutant", corr=site["label"] in lc.SKELETON and sizes[name] <= CORR_MAX_BYTES and k <= 12,
                    fixture=name, edits=edits,
                    rec={"op": "short-len", "label": site["label"], "site": site["site"], "how": how, "off": site["off"],
                         "fixture": name, "edits": edits})
    ctx.extra["signature_stream"] = {"accepted_signatures": [x.decode("latin1") for x in sig_alts], "found_in": sig_where,
                                     "fixtures": det_names, "mutants": n_sig}
    ctx.extra["short_length_stream"] = {"boundary_lengths": {"1": lc.boundary_lengths(1), "2": lc.boundary_lengths(2)},
                                        "reader_statements": sorted(str(f[2]) for f in plen_feats), "mutants": n_plen,
                                        "blocks_the_writer_consults": {k: v.decode("latin1") for k, v in consulted.items()}}
    ctx.extra["writer_ties"] = {k: gen_w[k] for k in ("rows", "n_differ", "reader_writer_differ", "legacy_rows", "legacy_fallback_from")}
    donors_small = [(n, maps[n].data, maps[n]) for n in names if sizes[n] <= 300_000]
    corr_budget = 4000 if quick else 9000
    per_fx_corr = max(8, corr_budget // max(1, len(names)))
    for name in names:
        sm = maps[name]
        n = per_fx(sizes[name])
        muts = lc.gen_mutants(rng, sm, rng.sample(donors_small, min(6, len(donors_small))), n, with_bytes=False)
        k = 0
        for _, rec in muts:
            rec["fixture"] = name
            docorr = sizes[name] <= CORR_MAX_BYTES and k < per_fx_corr
            k += 1
            add(kind="mutant", corr=docorr, fixture=name, edits=rec["edits"], rec=rec)
        # every skeleton length/count x (+-1, +-2, x2, max) and a truncation at every block boundary
        if quick or name in names[:40]:
            for _, rec in lc.exhaustive_len_mutants(sm, ("+1", "-1", "x2", "max") if quick else
                                                    ("+1", "-1", "+2", "-2", "x2", "max")):
                rec["fixture"] = name
                add(kind="mutant", corr=False, fixture=name, edits=rec["edits"], rec=rec)
        if sizes[name] <= 60_000:
            for _, rec in lc.boundary_truncations(sm, skeleton_only=quick):
                rec["fixture"] = name
                add(kind="mutant", corr=False, fixture=name, edits=rec["edits"], rec=rec)
        if sizes[name] <= 300_000:
            for _ in range(n // 10):
                add(kind="leaf", corr=False, fixture=name, leaf_seed=rng.getrandbits(48),
                    rec={"op": "leaf", "label": "?", "fixture": name})
    # ------------------------------------------------------------------ payload-level mutation of accepted files
    # Sites come from ALL fixtures up to PAYLOAD_MAX bytes (the structural map records payload reads as well): for every
    # reader statement that consumed bytes in some fixture, a few sites; deterministic boundary variants first.
    payload_max = 300_000 if quick else 1_500_000
    k_site, k_leaf, cap = (3, 2, 4) if quick else (8, 6, 10)
    pnames = [rel(f) for f in allfx if f.stat().st_size <= payload_max]
    psize = {rel(f): f.stat().st_size for f in allfx}
    per_sites, per_leafs = {}, {}
    n_idx = [0, 0, 0, 0]
    for name, status, _sm, sites, leafs, n_all in pool.map(index_fixture, [(n, False, cap) for n in pnames], chunksize=2):
        if status != "ok":
            ctx.hist("payload_index", status[:60])
            if status.startswith("index-error"):
                ctx.notes.append("payload index of %s failed: %s" % (name, status))
            continue
        per_sites[name], per_leafs[name] = sites, leafs
        n_idx = [a + b for a, b in zip(n_idx, n_all)]
    terms = lc.terminology_terms()
    if not terms:
        ctx.notes.append("psd_tools.terminology enums not found: descriptor keys are substituted by non-terms only")
    chosen_sites = [x for x in lc.choose_sites(per_sites, k_site, pnames) if x[1]["k"] != "opaque"]
    n_det = n_flag = 0
    for name, site in chosen_sites:
        base = fx_bytes(name)
        if site["k"] == "plen":
            # a short length-prefixed field of a reader statement seen in ANY fixture (uuids, path names, Pascal-string
            # resources, ...): the boundary lengths of its width, enclosing lengths re-computed
            if name in det_names:
                continue
            plen_feats.add(site["feat"])
            for how, edits in lc.plen_variants(site, drop=[tuple(d) for d in site.get("drop", [])]):
                n_det += 1
                n_plen += 1
                add(kind="payload", corr=False, fixture=name, edits=edits,
                    rec={"op": "short-len", "label": site["label"], "site": site["site"], "how": how, "off": site["off"],
                         "fixture": name, "edits": edits})
            continue
        if site["k"] == "flag":
            # one-byte fields (flags) x single-bit flips x bytes appended to the enclosing block, lengths re-computed
            for how, edits in flag_variants(site, base):
                n_det += 1
                n_flag += 1
                add(kind="payload", corr=False, fixture=name, edits=edits,
                    rec={"op": "flag-bit-splice", "label": site["label"], "how": how, "off": site["off"],
                         "site": site["feat"][1], "fixture": name, "edits": edits})
            continue
        if site["k"] == "key":
            vs = lc.key_variants(site, base, terms, rng, 6 if quick else 16)
        elif site["k"] == "num":
            vs = lc.scalar_variants(site, base)
        else:
            vs = lc.block_variants(site)
        for how, edits in vs:
            n_det += 1
            add(kind="payload", corr=False, fixture=name, edits=edits,
                rec={"op": "payload-" + site["k"], "label": site["label"], "how": how, "off": site["off"],
                     "site": site["feat"][1], "fixture": name, "edits": edits})
    # random payload sites / variants (all from ctx.rng)
    flat = [(n, s_) for n in pnames for s_ in per_sites.get(n, ()) if s_["k"] not in ("opaque", "plen", "flag")]
    n_rand_payload = 1500 if quick else 12000
    for name, site in (rng.sample(flat, min(len(flat), n_rand_payload)) if flat else []):
        base = fx_bytes(name)
        if site["k"] == "key":
            pool_t = terms.get(site["size"], [])
            raw = rng.choice(pool_t) if pool_t and rng.random() < 0.8 else bytes(rng.choice(b"abcXYZ 09") for _ in range(site["size"]))
            if raw == base[site["off"]:site["off"] + site["size"]]:
                continue
            how, edits = "rnd:" + raw.decode("latin1"), [["put", site["off"], raw.hex()]]
        elif site["k"] == "num":
            m_ = 256 ** site["size"]
            v_ = int.from_bytes(base[site["off"]:site["off"] + site["size"]], "big")
            nv = rng.choice([(v_ + 1) % m_, (v_ - 1) % m_, (v_ * 2) % m_, v_ // 2, rng.randrange(m_), v_ ^ (1 << rng.randrange(8 * site["size"]))])
            if nv == v_:
                continue
            how, edits = "rnd", [["put", site["off"], nv.to_bytes(site["size"], "big").hex()]]
        else:
            vs = lc.block_variants(site, ks=(rng.choice([1, 2, 3, 4, 5, 7, 8]),))
            if not vs:
                continue
            how, edits = rng.choice(vs)
        add(kind="payload", corr=False, fixture=name, edits=edits,
            rec={"op": "payload-" + site["k"], "label": site["label"], "how": how, "off": site["off"],
                 "site": site["feat"][1], "fixture": name, "edits": edits})
    # structure level: parse, set one leaf of a payload object to a boundary value / other enum member / shorter or
    # longer bytes, write with the real writer, and take THAT output as the input file (kept when the reader accepts it)
    chosen_leafs = lc.choose_sites({n: [dict(l, k="leaf", off=i) for i, l in enumerate(v)] for n, v in per_leafs.items()},
                                   k_leaf, pnames)
    n_leafset = 0
    for name, ls in chosen_leafs:
        for how in lc.LEAF_HOWS.get(ls["type"], ()):
            n_leafset += 1
            add(kind="leafset", corr=False, fixture=name, leaf_path=ls["path"], leaf_how=how,
                rec={"op": "leafset", "label": ls["cls"], "field": ls["field"], "how": how, "fixture": name})
    ctx.extra["payload_level"] = {
        "fixtures_indexed": len(per_sites), "max_bytes": payload_max,
        "sites_in_maps": dict(zip(("keys", "scalar_leaves", "length_blocks", "opaque_payloads"), n_idx)),
        "reader_statements_with_sites": len({s_["feat"] for v in per_sites.values() for s_ in v}),
        "sites_chosen": len(chosen_sites), "sites_per_statement": k_site, "deterministic_mutants": n_det,
        "flag_bit_splice_mutants": n_flag,
        "flag_reader_statements": len({s_["feat"] for v in per_sites.values() for s_ in v if s_["k"] == "flag"}),
        "leaf_features": len({l["feat"] for v in per_leafs.values() for l in v}), "leaf_sites_chosen": len(chosen_leafs),
        "leafset_tasks": n_leafset, "terminology_terms_by_length": {str(k): len(v) for k, v in sorted(terms.items())},
    }
    ctx.extra["short_length_stream"].update(mutants=n_plen, reader_statements=sorted(str(f[2]) for f in plen_feats))
    t_gen = time.time() - t0

    # ------------------------------------------------------------------ run the oracle (and the raw parse) in the pool
    results = list(pool.map(work, tasks, chunksize=8))
    pool.shutdown()
    t_pool = time.time() - t0

    # ------------------------------------------------------------------ (i) correspondence with the model
    dec_reqs, dec_exp, enc_reqs, enc_exp = [], [], [], []
    for t, r in zip(tasks, results):
        c = r.get("corr")
        if not c:
            continue
        if c["raw"][0] == "notskel":
            ctx.hist("corr_skipped", "not-skeleton")
            continue
        dec_reqs.append(("psd.dec", c["hex"]))
        dec_exp.append((t, c))
    for (t, c), a in zip(dec_exp, cc.pbatch(dec_reqs)):
        ctx.corr_cases += 1
        raw = c["raw"]
        ctx.hist("corr_reader_outcome", "accepted" if raw[0] == "ok" else raw[1])
        case = {"fixture": t.get("fixture"), "edits": t.get("edits"), "kind": t["kind"]}
        if raw[0] == "ok":
            if a[0] != "ok":
                ctx.disagree("PSD.read accepts, model dec rejects", dict(case, model=a[:2]))
            elif a[1] != raw[1]:
                ctx.disagree("PSD.read structure != model dec", dict(case, first_diff=_first_diff(raw[1], a[1])))
            elif int(a[2]) != raw[2]:
                ctx.disagree("PSD.read final offset != model dec", dict(case, py=raw[2], model=a[2]))
            else:
                e = c.get("enc")
                if e is not None:
                    enc_reqs.append(("psd.enc", 4, raw[1]))
                    enc_exp.append((t, c, case))
        else:
            if a[0] != "err" or a[1] != raw[1]:
                ctx.disagree("PSD.read exception class != model dec", dict(case, py=raw[1], model=a[:2]))
    for (t, c, case), a in zip(enc_exp, cc.pbatch(enc_reqs)):
        ctx.corr_cases += 1
        e = c["enc"]
        if e[0] == "ok":
            if a[0] != "ok" or a[1] != e[1]:
                ctx.disagree("PSD.write bytes != model enc on a decoded value", dict(case, model=a[0]))
            elif int(a[2]) != e[2]:
                ctx.disagree("PSD.write returned count != model", dict(case, py=e[2], model=a[2]))
            elif e[3] is not None and a[3] != e[3]:
                ctx.disagree("object state after write != model refresh", case)
            ctx.hist("corr_writer_outcome", "written")
        else:
            ctx.hist("corr_writer_outcome", e[1])
            if a[0] != "err" or a[1] != e[1]:
                ctx.disagree("PSD.write exception class != model enc", dict(case, py=e[1], model=a[:2]))

    # the Lean witness and the corpus hold the same bytes
    b35 = lean_b35()
    c35 = [e for e in corpus if e.get("note", "").startswith("b35")]
    if b35 is None or not c35 or unhx(c35[0]["file"]) != b35:
        ctx.disagree("corpus entry b35 differs from the literal of theorem C02.b35_bytes", {"lean": hx(b35 or b"")[:80]})

    # ------------------------------------------------------------------ (ii) the property on the real code
    fails = collections.defaultdict(list)
    for t, r in zip(tasks, results):
        res = r["res"]
        rec = r.get("rec") or t.get("rec") or {}
        op = rec.get("op", "?")
        ctx.hist("mutants_by_op", op)
        if res[0] == "no-mutant":
            continue
        if res[0] == "timeout":
            ctx.hist("oracle", "timeout (>60 s; C06 owns hangs)")
            ctx.skipped.append("oracle timed out on %s %s" % (t.get("fixture"), json.dumps(t.get("edits"))[:120]))
            continue
        if res[0] == "oracle-error":
            ctx.disagree("the oracle itself raised", {"fixture": t.get("fixture"), "edits": t.get("edits"), "error": res[1]})
            continue
        accepted = res[0] in ("ok", "fail")
        ctx.count((t.get("fixture"), json.dumps(t.get("edits"), sort_keys=True) if t.get("edits") is not None
                   else (t.get("file") or str(t.get("leaf_seed")) + json.dumps(t.get("leaf_path")) + str(t.get("leaf_how")))[:200]),
                  nontrivial=accepted)
        if res[0] == "rejected":
            ctx.hist("outcome", "rejected:" + res[1])
            if t["kind"] in ("corpus", "fixture"):
                ctx.disagree("an input that was accepted when the check was built is rejected now (%s)" % res[1],
                             {"kind": t["kind"], "fixture": t.get("fixture"), "note": t.get("note")})
            continue
        ctx.hist("accepted_by_op", op)
        ctx.hist("accepted_by_label", rec.get("label", "?") if rec.get("label") in lc.SKELETON else "payload classes")
        if op.startswith("payload-") or op == "leafset":
            ctx.hist("payload_accepted_by_class", rec.get("label", "?"))
        info = res[-1]
        if t["kind"] == "fixture":
            ctx.hist("fixture_resave", "identical" if info.get("identical_to_input") else "differs-from-original")
        if info.get("lengths_refreshed"):
            ctx.hist("information", "writer changed ChannelInfo.length in place (declared length disagreed with the data)")
        if info.get("identical_to_input"):
            ctx.hist("information", "re-saved bytes identical to the accepted input")
        if res[0] == "ok":
            ctx.hist("outcome", "accepted:stable")
            if t["kind"] == "corpus" and t["expect"] != "ok":
                ctx.disagree("corpus entry expected to fail is stable now (update findings.d/C02.json)", {"note": t["note"]})
            continue
        sig = lc.classify(res)
        ctx.hist("outcome", "accepted:UNSTABLE")
        ctx.hist("unstable", sig)
        tt = dict(t)
        if r.get("file"):
            tt["file"] = r["file"]
        fails[sig].append((tt, res))
    for sig, lst in sorted(fails.items()):
        lst.sort(key=lambda x: (_edit_weight(x[0]), x[1][-1].get("len", 0), json.dumps(x[0].get("edits"))))
        t, res = lst[0]
        try:
            t = shrink(t, sig)
        except Exception:  # noqa
            pass
        inp = {"file": t["file"]} if t.get("file") else {"fixture": t["fixture"], "edits": t["edits"]}
        rec_ = t.get("rec") or {}
        inp["note"] = t.get("note") or " ".join(str(rec_[k]) for k in ("op", "label", "field", "site", "how", "new") if rec_.get(k))
        ctx.fail(sig, "an accepted file is not re-saved stably (%s)" % res[1], inp,
                 {"stage": res[1], "detail": res[2], "info": res[3], "same_signature": len(lst)},
                 "write(read(b)) succeeds, read(w1) == read(b) (after the save), write(read(w1)) == w1")
        for _ in lst[1:]:
            ctx.fail(sig, "", None)
    accepted_n = sum(1 for r in results if r["res"][0] in ("ok", "fail"))
    ctx.sample({"fixture": tasks[len(corpus) + len(names)]["fixture"] if len(tasks) > len(corpus) + len(names) else None,
                "recipe": tasks[len(corpus) + len(names)].get("rec") if len(tasks) > len(corpus) + len(names) else None})
    for r in results:
        if r["res"][0] == "ok" and r.get("rec") and len(ctx.samples) < 6 and r["rec"].get("op") in ("splice", "num", "leaf"):
            ctx.sample({"accepted_and_stable": {k: v for k, v in r["rec"].items() if k != "edits"}})

    # ------------------------------------------------------------------ metadata
    ctx.trusted_base += [
        "Lean 4.33 kernel; axioms allowed: propext, Classical.choice, Quot.sound (audited per theorem)",
        "Model/Codec.lean, Model/Psd.lean (hand transliteration of utils.py and of the skeleton readers/writers, incl. every "
        "lenient path); tied by this run: model dec vs PSD.read (tokens + final offset + exception class) and model enc vs "
        "PSD.write (bytes, count, refreshed object) on structure-mutated fixtures",
        "harness/skel.py (object graph -> typed skeleton), harness/extract_c01.py (validator / enum tables regenerated)",
        "harness/lenient_common.py: the recording io.BytesIO used to obtain the structural map (only decides WHERE to mutate)",
        "harness/extract_c02.py: probes of the live TaggedBlock.read / TaggedBlock.write (length width) and of "
        "LayerRecord._legacy_name (tables of Generated/WriterTies.lean)",
    ]
    ctx.assumptions += [
        "payload classes are opaque bytes in the model; re-save stability inside payloads (descriptors, effects, ...) is "
        "searched on the real code (typed parse), not proved",
        "PSD.write with the default padding=4 and encoding macroman (what PSD.write/psd.save use)",
        "equality of structures: attrs fields recursively, floats by bit pattern (NaN == NaN), enums by value",
    ]
    ctx.rule = (
        "case = one (fixture, mutation recipe) or one corpus byte string; non-trivial = PSD.read accepts it (the property "
        "only speaks about accepted inputs); distinct = distinct (fixture, edit list). Mutations are drawn at the offsets "
        "of the structural map of each fixture (every primitive read of the real parser: %d fields in %d fixtures this run): "
        "+-1/+-2/+-4/x2/half/max/zero/sign on numeric fields (length fields, counts, ids, flags), bit flips and byte "
        "substitutions inside structural fields, multi-byte substitutions, two fields at once, truncation at block "
        "boundaries (+-2), splices of length blocks between files, duplication/deletion of blocks, exhaustively +-1/+-2/x2/max "
        "on every 2/4/8-byte numeric field of a skeleton class and a truncation at every block boundary (small fixtures), and structure-level "
        "leaf mutations (parse, set one scalar leaf to an extreme, write). SEED-INDEPENDENT, on the %d smallest PSD and %d "
        "smallest PSB fixtures: (s) every signature field of the map (tagged blocks at document, record and Lr16/Lr32 level, "
        "image resources, record blend signatures, payload signatures) overwritten with every OTHER signature some reader "
        "accepts (%s; regenerated from validators, *_SIGNATURES attributes and signature comparisons); (l) every 1- / 2-byte "
        "length field followed by exactly that many raw bytes (Pascal strings: layer names, resource names, ...; a few per "
        "reader statement and fixture) set to the boundary lengths of its width (one byte: %s) with filler text, for every "
        "padding unit consistent with the bytes read, all enclosing length fields re-computed, and the same again with the "
        "`%s` block of the same record deleted (keys the writer's fallback rules test, from the AST). "
        "70 %% of the in-place mutations hit skeleton "
        "classes, 30 %% payload classes. PAYLOAD LEVEL (all fixtures up to %d bytes are mapped; payload reads are in the "
        "map with the reader statement - class.function:line and its caller - that consumed them): for every reader "
        "statement seen in some fixture, %d sites (smallest files first), each under deterministic boundary variants: "
        "(a) a key in the `length, bytes[length or 4]` idiom is substituted by every terminology term of the same length "
        "(a sample of the 4-byte ones) and by non-terms; a scalar leaf (every read_fmt item, floats included) is "
        "overwritten with 0, 1, all-ones, sign bit, signed max (1.0, inf, -1.5 for floats); (c) a length block is "
        "shrunk / grown by 1-4 bytes (an opaque one also emptied) with the enclosing lengths kept valid by filler at the "
        "end of the enclosing block or by fixing up every enclosing length field (in-place containers are recognised by "
        "their seek to end_pos); (b) structure level: for every (class, field) of the parsed objects, %d leaves set to "
        "boundary values / other enum members / shorter and longer bytes and strings, written with the real writer, the "
        "OUTPUT taken as the input file. Then random sites and values from the run's rng. Only accepted files count. "
        "Failing inputs are shrunk to the fewest mutated bytes (ddmin over the changed offsets) and, per signature, the "
        "recipe touching the fewest bytes is reported."
        % (ctx.extra["structural_map"]["fields"], len(maps),
           sum(1 for n in det_names if n.endswith(".psd")), sum(1 for n in det_names if n.endswith(".psb")),
           " ".join(x.decode("latin1") for x in sig_alts), lc.boundary_lengths(1),
           "/".join(v.decode("latin1") for v in consulted.values()) or "?", payload_max, k_site, k_leaf))
    ctx.model_coverage = {
        "modelled_and_proved": sorted(lc.SKELETON),
        "opaque (searched on the real code only)": "every tagged-block / image-resource payload class",
    }
    ctx.extra["counts"] = {"tasks": len(tasks), "accepted": accepted_n, "corpus": len(corpus),
                           "correspondence_reader": len(dec_reqs), "correspondence_writer": len(enc_reqs)}
    ctx.extra["phase_seconds"] = {"maps": round(t_maps, 1), "generation": round(t_gen - t_maps, 1),
                                  "pool": round(t_pool - t_gen, 1), "total": round(time.time() - t0, 1)}
    ctx.notes += [
        "dec_encodable has the hypothesis PSD.LenFits (the lengths the writer derives fit their length fields): it is exact "
        "(dec_encodable_iff) and can only fail for re-encoded sections of 4 GiB and more; not exhibited by the search.",
        "resave_stable_partial / dec_wf_partial / second_save_identical carry the side condition PSD.Stable: no layer mask "
        "without real fields whose body is longer than 32 bytes. The reader can return exactly one such shape (35-byte "
        "block with both feathers): Props/C02.lean mask35_accepted_resave_unreadable proves the negation of the full "
        "statement on the byte string b35, this run replays b35 on the real code (known finding).",
        "Reader repairs of this round moved the model (LayerAndMask.bodyDec gates on end_pos, tagged_blocks never None, "
        "LayerInfo() for a body declaring no layers); with them every (F) clause of C01's WF is unreachable from the reader "
        "(dec_never_returns_* theorems).",
        "tb_width_tied: the model has ONE width function tbLenW(version, key) for reader and writer and ignores the signature; "
        "the real TaggedBlock.read and TaggedBlock.write are probed per direction for every accepted signature x every Tag "
        "value x both versions on every run and must both equal it (%d rows, %d where reader and writer differ). "
        "legacy_name_tied / legacy_name_identity_on_read: LayerRecord.encT writes r.name itself; _legacy_name (observed for "
        "every length 0..300 with / without luni) is the identity up to 255 bytes, i.e. on every name LayerRecord.dec returns."
        % (gen_w["rows"] or 0, gen_w["n_differ"] or 0),
        "Stated in DESIGN, not proved: idempotence inside opaque payload classes (searched only). A size-based version of "
        "dec_encodable (input shorter than 2 GiB => writable) is not proved; LenFits is stated instead.",
    ]
    if ctx.tier == "thorough":
        ctx.recheck(["PsdVerif.Props.C02"])


def _first_diff(a: str, b: str):
    ta, tb = a.split(), b.split()
    for i, (x, y) in enumerate(zip(ta, tb)):
        if x != y:
            return {"token": i, "py": x[:40], "model": y[:40]}
    return {"token": min(len(ta), len(tb)), "py_len": len(ta), "model_len": len(tb)}


def replay(ctx, data):
    inp = data.get("input") or {}
    print("replaying", data.get("signature"))
    b = build(inp)
    print("input: %d bytes%s" % (len(b), " (%s + %s)" % (inp.get("fixture"), json.dumps(inp.get("edits"))[:200])
                                 if inp.get("fixture") else ""))
    res = lc.resave_oracle(b)
    print("oracle:", json.dumps(res, default=str)[:600])
    if res[0] == "fail":
        print("signature:", lc.classify(res))
    print("expected:", data.get("expected"))
    return 0
