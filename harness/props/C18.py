"""C18 - text engine data round-trips (tokenizer, parser, two writers, type-layer embedding)."""
from __future__ import annotations

import io
import itertools
import json
from decimal import Decimal
from pathlib import Path

import core
import c18_edits
from core import hx, unhx, err_class

ALPHA = ["a", "(", ")", "\\", "\r", "\u015c", "\u5c5c", "\u2829", "\ufeff", "\0"]
LAYOUTS = (("i", "EngineData"), ("c", "EngineData2"))


def E():
    from psd_tools.psd import engine_data
    return engine_data


# ---------------------------------------------------------------------------------------
# canonical form shared by both sides: nested tuples
#   ("D", [(name_bytes, v)...]) ("L", [v...]) ("S", (code points)) ("B", bool) ("I", int)
#   ("F", neg, mant, k) with 1 <= k, no trailing zero beyond k = 1   ("P", bytes) ("T", bytes)
# ---------------------------------------------------------------------------------------
def dec_of_str8(s: str):
    """'[-]ddd.dddddddd' (a '%.8f' rendering) -> (neg, mant, k) normalised."""
    neg = s.startswith("-")
    if neg:
        s = s[1:]
    ip, fp = s.split(".")
    fp = fp.rstrip("0") or "0"
    return (neg, int(ip + fp), len(fp))


def dec_of_float(v: float):
    """The abstraction of a Python float: its '%.8f' rendering (CPython, trusted)."""
    return dec_of_str8("%.8f" % v)


def dec_canon(neg, mant, k):
    """Canonical form of an exact decimal of the model: through CPython's float, as the
    code does (float(token) then '%.8f')."""
    s = ("-" if neg else "") + str(Decimal(mant).scaleb(-k))
    return dec_of_float(float(s))


def canon_py(v):
    e = E()
    if isinstance(v, e.Dict):
        return ("D", [(k.value.encode("macroman"), canon_py(x)) for k, x in v.items()])
    if isinstance(v, e.List):
        return ("L", [canon_py(x) for x in v])
    if isinstance(v, e.String):
        return ("S", tuple(ord(c) for c in v.value))
    if isinstance(v, e.Bool):
        return ("B", bool(v.value))
    if isinstance(v, e.Integer):
        return ("I", int(v.value))
    if isinstance(v, e.Float):
        return ("F",) + dec_of_float(v.value)
    if isinstance(v, e.Property):
        return ("P", v.value.encode("macroman"))
    if isinstance(v, e.Tag):
        return ("T", bytes(v.value))
    raise core.Infra("unexpected engine data node %r" % type(v))


def enc_model(c) -> str:
    """canonical tuple -> the driver's prefix code"""
    out = []

    def go(c):
        t = c[0]
        if t == "D":
            out.extend(["D", str(len(c[1]))])
            for k, v in c[1]:
                out.append(hx(k))
                go(v)
        elif t == "L":
            out.extend(["L", str(len(c[1]))])
            for v in c[1]:
                go(v)
        elif t == "S":
            out.extend(["S", str(len(c[1]))] + [str(x) for x in c[1]])
        elif t == "B":
            out.extend(["B", "1" if c[1] else "0"])
        elif t == "I":
            out.extend(["I", str(c[1])])
        elif t == "F":
            out.extend(["F", "1" if c[1] else "0", str(c[2]), str(c[3])])
        elif t == "P":
            out.extend(["P", hx(c[1])])
        elif t == "T":
            out.extend(["T", hx(c[1])])
    go(c)
    return " ".join(out)


def dec_model(s: str):
    """the driver's prefix code -> canonical tuple (floats through dec_canon)"""
    ts = s.split()
    pos = 0

    def go():
        nonlocal pos
        t = ts[pos]
        pos += 1
        if t == "D":
            n = int(ts[pos]); pos += 1
            items = []
            for _ in range(n):
                k = unhx(ts[pos]); pos += 1
                items.append((k, go()))
            return ("D", items)
        if t == "L":
            n = int(ts[pos]); pos += 1
            return ("L", [go() for _ in range(n)])
        if t == "S":
            n = int(ts[pos]); pos += 1
            r = tuple(int(x) for x in ts[pos:pos + n]); pos += n
            return ("S", r)
        if t == "B":
            pos += 1
            return ("B", ts[pos - 1] == "1")
        if t == "I":
            pos += 1
            return ("I", int(ts[pos - 1]))
        if t == "F":
            pos += 3
            return ("F",) + dec_canon(ts[pos - 3] == "1", int(ts[pos - 2]), int(ts[pos - 1]))
        if t == "P":
            pos += 1
            return ("P", unhx(ts[pos - 1]))
        if t == "T":
            pos += 1
            return ("T", unhx(ts[pos - 1]))
        raise core.Infra("bad tree from driver: " + s[:80])
    r = go()
    if pos != len(ts):
        raise core.Infra("trailing fields in tree from driver")
    return r


def build_py(c, top=None):
    """canonical tuple -> psd_tools objects (top: the class of the outermost dict)."""
    e = E()
    t = c[0]
    if t == "D":
        d = (top or e.Dict)()
        for k, v in c[1]:
            d[k.decode("macroman")] = build_py(v)
        return d
    if t == "L":
        return e.List([build_py(v) for v in c[1]])
    if t == "S":
        return e.String("".join(chr(x) for x in c[1]))
    if t == "B":
        return e.Bool(c[1])
    if t == "I":
        return e.Integer(c[1])
    if t == "F":
        s = ("-" if c[1] else "") + str(Decimal(c[2]).scaleb(-c[3]))
        return e.Float(float(s))
    if t == "P":
        return e.Property(c[1].decode("macroman"))
    if t == "T":
        return e.Tag(c[1])
    raise core.Infra("bad canonical node")


def jsonable(c):
    t = c[0]
    if t == "D":
        return ["D", [[hx(k), jsonable(v)] for k, v in c[1]]]
    if t == "L":
        return ["L", [jsonable(v) for v in c[1]]]
    if t == "S":
        return ["S", list(c[1])]
    if t in ("P", "T"):
        return [t, hx(c[1])]
    return list(c)


def unjson(j):
    t = j[0]
    if t == "D":
        return ("D", [(unhx(k), unjson(v)) for k, v in j[1]])
    if t == "L":
        return ("L", [unjson(v) for v in j[1]])
    if t == "S":
        return ("S", tuple(j[1]))
    if t in ("P", "T"):
        return (t, unhx(j[1]))
    return tuple(j)


def call(f, *a):
    try:
        return ("ok", f(*a))
    except RecursionError:
        return ("err", "RecursionError")
    except Exception as ex:  # noqa
        c = err_class(ex)
        # the model maps StopIteration and AttributeError (parser falling off its input) to Err.other
        return ("err", "Other" if (c.startswith("Other") or c == "AttributeError") else c)


def _reported_count(obj):
    import io
    fp = io.BytesIO()
    try:
        return obj.write(fp)
    except Exception:  # noqa
        return None


def _embedded_roundtrip(obj):
    """Write `obj` the way TypeToolObjectSetting embeds engine data (a RawData value of a descriptor: a length block
    sized by the reported count, followed by more data) and read it back. None when it round-trips."""
    import io
    from psd_tools.utils import read_length_block, write_length_block
    fp = io.BytesIO()
    try:
        write_length_block(fp, lambda f: obj.write(f))
        fp.write(b"TRAILER!")
        fp.seek(0)
        data = read_length_block(fp)
        rest = fp.read()
        back = type(obj).frombytes(data)
        if rest != b"TRAILER!":
            return "bytes after the block are misaligned: %r" % rest[:12]
        if back != obj:
            return "tree differs after the embedded round trip"
    except Exception as ex:  # noqa
        return "raises " + type(ex).__name__
    return None


def model_ans(fields):
    if fields[0] == "ok":
        return ("ok", fields[1] if len(fields) > 1 else "")
    return ("err", fields[1] if len(fields) > 1 else fields[0])


# ---------------------------------------------------------------------------------------
# generators (all randomness from ctx.rng)
# ---------------------------------------------------------------------------------------
def critical_strings(maxlen):
    for n in range(0, maxlen + 1):
        for tup in itertools.product(ALPHA, repeat=n):
            yield "".join(tup)


def rand_string(rng):
    r = rng.random()
    if r < 0.45:
        return "".join(rng.choice(ALPHA) for _ in range(rng.randrange(0, 6)))
    out = []
    for _ in range(rng.randrange(0, 7)):
        c = rng.choice([rng.randrange(0, 0x80), rng.randrange(0, 0x800), rng.randrange(0, 0x10000),
                        rng.randrange(0x10000, 0x110000), 0x5C00 + rng.randrange(256),
                        rng.randrange(256) * 256 + rng.choice([0x5C, 0x28, 0x29, 0x0A, 0x20])])
        if 0xD800 <= c < 0xE000:
            c = 0x5C
        out.append(chr(c))
    return "".join(out)


def rand_name(rng):
    return "".join(rng.choice("abzAZ09_") for _ in range(rng.randrange(1, 4))).encode()


def rand_dec(rng):
    k = rng.randrange(1, 9)
    m = rng.choice([0, 1, 5, 10, 99999999, 100000000, 100000001, rng.randrange(10 ** 9),
                    rng.randrange(10 ** 12), rng.randrange(100), 4, 40])
    neg = rng.random() < 0.4
    s = ("-" if neg else "") + str(Decimal(m).scaleb(-k))
    return ("F",) + dec_of_float(float(s))


INTS = [0, 1, -1, 9, 10, 2 ** 31 - 1, -2 ** 31, 2 ** 63 - 1, -2 ** 63]
TAGS = [b"(hwid)", b"(fwid)", b"(aalt)", b"()", b"--(.-0", b"(A0z)"]


def rand_scalar(rng, extras=True):
    k = rng.randrange(10 if extras else 8)
    if k < 2:
        return ("I", rng.choice(INTS + [rng.randrange(-10 ** 6, 10 ** 6)]))
    if k < 4:
        return rand_dec(rng)
    if k < 5:
        return ("B", rng.random() < 0.5)
    if k < 8:
        return ("S", tuple(ord(c) for c in rand_string(rng)))
    if k == 8:
        return ("P", rand_name(rng))
    return ("T", rng.choice(TAGS))


def rand_val(rng, depth, extras=True):
    r = rng.random()
    if depth > 0 and r < 0.27:
        return rand_dict(rng, depth - 1, extras)
    if depth > 0 and r < 0.54:
        return ("L", [rand_val(rng, depth - 1, extras) for _ in range(rng.randrange(0, 4))])
    return rand_scalar(rng, extras)


def rand_dict(rng, depth, extras=True):
    items, seen = [], set()
    for _ in range(rng.randrange(0, 4)):
        k = rand_name(rng)
        if k in seen:
            continue
        seen.add(k)
        items.append((k, rand_val(rng, depth, extras)))
    return ("D", items)


def depth_of(c):
    if c[0] == "D":
        return 1 + max([depth_of(v) for _, v in c[1]] or [0])
    if c[0] == "L":
        return 1 + max([depth_of(v) for v in c[1]] or [0])
    return 0


def string_tree(s):
    cp = tuple(ord(c) for c in s)
    return ("D", [(b"k", ("S", cp)), (b"z", ("I", 3)),
                  (b"l", ("L", [("S", cp), ("S", cp)])), (b"d", ("D", [(b"s", ("S", cp))]))])


MIXED = [
    ("D", [(b"k", ("L", [("D", []), ("I", 3)]))]),
    ("D", [(b"k", ("L", [("D", []), ("F", False, 35, 1)]))]),
    ("D", [(b"k", ("L", [("D", [(b"a", ("I", 1))]), ("S", (97,)), ("D", []), ("L", []), ("B", True)]))]),
    ("D", [(b"k", ("L", [("D", []), ("L", [("D", []), ("I", 1)])]))]),
    ("D", [(b"k", ("L", [("I", 3), ("D", [(b"a", ("L", [("D", [])]))])]))]),
    ("D", [(b"k", ("L", [("D", []), ("T", b"(hwid)"), ("P", b"x")]))]),
    ("D", []),
    ("D", [(b"e", ("D", [])), (b"l", ("L", []))]),
]


# ---------------------------------------------------------------------------------------
# failing-input classification (deterministic signatures)
# ---------------------------------------------------------------------------------------
def strings_of(c):
    if c[0] == "D":
        for _, v in c[1]:
            yield from strings_of(v)
    elif c[0] == "L":
        for v in c[1]:
            yield from strings_of(v)
    elif c[0] == "S":
        yield c[1]


def has_mixed_dict_first(c):
    if c[0] == "L":
        if c[1] and c[1][0][0] == "D" and any(v[0] != "D" for v in c[1]):
            return True
        return any(has_mixed_dict_first(v) for v in c[1])
    if c[0] == "D":
        return any(has_mixed_dict_first(v) for _, v in c[1])
    return False


def ends_5c(cp):
    try:
        b = "".join(chr(x) for x in cp).encode("utf-16-be")
    except UnicodeError:
        return False
    return bool(b) and b[-1] == 0x5C


def signature(c, layout, stage, outcome):
    if any(ends_5c(s) for s in strings_of(c)):
        return "C18/string/utf16-ends-in-0x5c"
    if layout == "i" and has_mixed_dict_first(c):
        return "C18/indented/dict-first-mixed-list"
    return "C18/roundtrip/%s/%s/%s" % ({"i": "indented", "c": "compact"}[layout], stage, outcome)


def roundtrip_fails(c, layout):
    """The property itself on the real code: None when it holds, else (stage, outcome, observed)."""
    e = E()
    cls = e.EngineData if layout == "i" else e.EngineData2
    w = call(lambda: build_py(c, cls).tobytes())
    if w[0] != "ok":
        return ("write", w[1], w[1])
    r = call(lambda: cls.frombytes(w[1]))
    if r[0] != "ok":
        return ("read", r[1], {"written": hx(w[1]), "error": r[1]})
    if type(r[1]) is not cls or canon_py(r[1]) != c:
        return ("read", "different-tree", {"written": hx(w[1]), "parsed": jsonable(canon_py(r[1]))})
    return None


def shrink(c, layout):
    """Greedy structural shrinking of a failing tree."""
    def candidates(c):
        if c[0] == "D":
            for i in range(len(c[1])):
                yield ("D", c[1][:i] + c[1][i + 1:])
            for i, (k, v) in enumerate(c[1]):
                if v[0] == "D":
                    yield v
                for v2 in candidates(v):
                    yield ("D", c[1][:i] + [(k, v2)] + c[1][i + 1:])
        elif c[0] == "L":
            for i in range(len(c[1])):
                yield ("L", c[1][:i] + c[1][i + 1:])
            for i, v in enumerate(c[1]):
                for v2 in candidates(v):
                    yield ("L", c[1][:i] + [v2] + c[1][i + 1:])
        elif c[0] == "S" and c[1]:
            for i in range(len(c[1])):
                yield ("S", c[1][:i] + c[1][i + 1:])
    improved = True
    steps = 0
    while improved and steps < 200:
        improved = False
        for c2 in candidates(c):
            steps += 1
            if roundtrip_fails(c2, layout) is not None:
                c = c2
                improved = True
                break
    return c


# ---------------------------------------------------------------------------------------
# fixture blobs
# ---------------------------------------------------------------------------------------
def fixture_blobs():
    out = []
    d = core.REPO / "tests" / "engine_data"
    for f in sorted(d.glob("*.dat")):
        out.append((f.name, f.read_bytes()))
    return out


def harvest_psd(ctx, limit=None):
    """Read every fixture PSD with recorders on the engine-data entry points."""
    e = E()
    from psd_tools.psd import tagged_blocks as tb
    from psd_tools.psd import PSD
    blobs, tysh = [], []
    orig_fb = e.Dict.__dict__["frombytes"].__func__
    orig_ty = tb.TypeToolObjectSetting.__dict__.get("frombytes")
    base_fb = tb.TypeToolObjectSetting.frombytes.__func__

    def rec_fb(cls, data, **kw):
        if not isinstance(data, e.Tokenizer):
            blobs.append((cls.__name__, bytes(data)))
        return orig_fb(cls, data, **kw)

    def rec_ty(cls, data, *a, **kw):
        obj = base_fb(cls, data, *a, **kw)
        tysh.append((bytes(data), obj))
        return obj

    e.Dict.frombytes = classmethod(rec_fb)
    tb.TypeToolObjectSetting.frombytes = classmethod(rec_ty)
    files = sorted((core.REPO / "tests" / "psd_files").rglob("*.ps[db]"))
    errors = []
    try:
        for f in files[:limit]:
            try:
                with open(f, "rb") as fp:
                    PSD.read(fp)
            except Exception as ex:  # noqa
                errors.append((f.name, type(ex).__name__))
    finally:
        e.Dict.frombytes = classmethod(orig_fb)
        if orig_ty is None:
            del tb.TypeToolObjectSetting.frombytes
        else:
            tb.TypeToolObjectSetting.frombytes = orig_ty
    return blobs, tysh, files, errors


STRAY = [b"]", b">>", b"<<", b"[", b"/x", b"3", b"(hwid)", b">>\0\0", b"true", b"(\xfe\xff", b".5", b"-",
         b"abc", b"(\xfe\xff\x00a)", b"-7", b"/", b"false", b"--(.-0", b"(\xfe\xff\\)", b"1.", b"\\", b")"]


def mutate_blob(rng, data: bytes) -> bytes:
    e = E()
    try:
        toks = [t for t, _ in e.Tokenizer(data)]
    except Exception:  # noqa
        toks = data.split()
    if len(toks) > 60:
        a = rng.randrange(len(toks) - 60)
        toks = toks[a:a + 60]
    for _ in range(rng.randrange(1, 4)):
        k = rng.randrange(6)
        if k == 0 and toks:
            del toks[rng.randrange(len(toks))]
        elif k == 1 and toks:
            i = rng.randrange(len(toks))
            toks.insert(i, toks[i])
        elif k == 2 and len(toks) > 1:
            i, j = rng.randrange(len(toks)), rng.randrange(len(toks))
            toks[i], toks[j] = toks[j], toks[i]
        elif k == 3:
            toks.insert(rng.randrange(len(toks) + 1), rng.choice(STRAY))
        elif k == 4 and toks:
            i = rng.randrange(len(toks))
            t = bytearray(toks[i])
            if t:
                t[rng.randrange(len(t))] = rng.choice(b"\\()\n /0a\xfe\xff\x00")
            toks[i] = bytes(t)
    out = bytearray()
    for t in toks:
        out += t + rng.choice([b" ", b"\n", b"\t", b"  ", b"\n\t\t", b" "])
    if rng.random() < 0.3:
        out = out[:rng.randrange(len(out) + 1)]
    return bytes(out)


CLASSIFY_ALPHA = [b"(", b")", b"\\", b"\xfe", b"\xff", b"a", b"1", b"-", b".", b"/", b"\n", b">", b"\0",
                  b"[", b"]", b"<", b"_", b"0"]
CLASSIFY_WORDS = [b"true", b"false", b"true\n", b"truee", b"--(.-0", b"--(.-0\n", b"(\xfe\xff", b"(\xfe\xff)",
                  b"(\xfe\xff)\n", b"(\xfe\xff\\))", b"(\xfe\xff))", b"(\xfe\xff\\\\))", b">>\0\0", b">>\0\n",
                  b">>\0a", b"<<\n", b"<<<", b"/a_9\n", b"/a-", b"-1.5", b"1.5.", b"-.5\n", b"..5", b"--5", b"12a",
                  b"(ab9)", b"(ab_)", b"(a)\n", b"(a))", b"\n", b"", b"]\n", b"]]", b"[\n", b"-", b"."]


# ---------------------------------------------------------------------------------------
# the check
# ---------------------------------------------------------------------------------------
def run(ctx: core.Run):
    ctx.prove(["PsdVerif.Props.C18"])
    ctx.trusted_base += [
        "Lean 4.33 kernel; axioms allowed: propext, Classical.choice, Quot.sound (audited per theorem)",
        "Model/EngineData.lean is a hand transliteration of psd/engine_data.py (regular expressions as byte "
        "predicates); tied by this run's correspondence check (tokens, classification, parse, both writers)",
        "CPython's float <-> '%.8f' conversion (float(token) and b'%.8f' % value): the model computes on exact "
        "decimals sign x mant x 10^-k with k <= 8, the harness canonicalises every float to its '%.8f' rendering "
        "before comparing; CPython's utf-16 / macroman codecs and bytes.replace are transcribed in the model and "
        "compared on every string case",
        "harness/props/C18.py: tree <-> prefix-code conversion, the independent round-trip oracle",
    ]
    ctx.assumptions += [
        "nesting far below CPython's recursion limit and integers below CPython's 4300-digit str->int limit",
        "nested dictionaries are plain Dict (as the parser produces), not EngineData2 instances",
        "floats are finite; a float that is non-zero but rounds to 0.00000000 is outside the model's writer "
        "(the code tests abs(value) on the double) - such values are only exercised by the search oracle",
    ]
    e = E()
    rng = ctx.rng
    quick = ctx.quick
    drv = ctx.driver()

    # ------------------------------------------------------------------ trees to exercise
    trees = []          # (origin, canonical tree)
    corpus_f = core.VERIF / "harness" / "corpus" / "C18.json"
    corpus = json.loads(corpus_f.read_text()) if corpus_f.exists() else []
    for c in corpus:
        if c["kind"] == "tree":
            trees.append(("corpus", unjson(c["tree"])))
    for m in MIXED:
        trees.append(("mixed", m))
    strs = list(critical_strings(2 if quick else 3))
    if quick:
        l3 = list(itertools.product(ALPHA, repeat=3))
        strs += ["".join(t) for t in rng.sample(l3, 150)]
    for s in strs:
        trees.append(("critical", string_tree(s)))
    for _ in range(300 if quick else 4000):
        trees.append(("unicode", string_tree(rand_string(rng))))
    for _ in range(1500 if quick else 20000):
        d = rng.choice([1, 2, 3, 4, 5, 5])
        trees.append(("random", rand_dict(rng, d)))
    for _ in range(300 if quick else 3000):
        trees.append(("scalars", ("D", [(b"v", rand_scalar(rng)), (b"w", ("L", [rand_scalar(rng) for _ in range(3)]))])))
    # one deliberately deep tree (depth 6 below the top level)
    deep = ("I", 1)
    for i in range(6):
        deep = ("L", [deep, ("D", [(b"x", deep)])]) if i % 2 else ("D", [(b"y", deep), (b"s", ("S", (0x5C5C, 0x29)))])
    trees.append(("deep", ("D", [(b"top", deep)])))

    # ------------------------------------------------------------------ write: model vs code, and the property
    reqs = []
    for _, c in trees:
        enc = enc_model(c)
        reqs.append(("ed.write", "i", enc))
        reqs.append(("ed.write", "c", enc))
    answers = drv.batch(reqs)
    written = []   # (layout, bytes) for the parse stage
    for n, (origin, c) in enumerate(trees):
        ctx.hist("tree_origin", origin)
        ctx.hist("tree_depth", depth_of(c))
        for li, (layout, clsname) in enumerate(LAYOUTS):
            cls = getattr(e, clsname)
            impl = call(lambda: build_py(c, cls).tobytes())
            mod = model_ans(answers[2 * n + li])
            ctx.corr_cases += 1
            ctx.count(("w", layout, enc_model(c)), nontrivial=bool(c[1]))
            impl_c = ("ok", hx(impl[1])) if impl[0] == "ok" else impl
            if impl_c != mod:
                ctx.disagree("write: model != code (%s)" % clsname,
                             {"tree": jsonable(c), "layout": layout, "impl": list(impl_c), "model": list(mod)})
            if impl[0] == "ok":
                written.append((layout, impl[1]))
                # the byte count `write` reports is what the enclosing length blocks are sized by (engine data is
                # embedded in the type-tool block behind a length prefix): it must equal the bytes emitted
                cnt = _reported_count(build_py(c, cls))
                if cnt is not None and cnt != len(impl[1]):
                    ctx.fail("C18/%s/reported-count-differs-from-bytes-written" % layout,
                             "write() of engine data reports a byte count different from what it emitted; the embedded "
                             "length prefix of the type-tool block is then wrong and the layer cannot be re-read",
                             {"tree": jsonable(c), "layout": layout}, cnt, len(impl[1]))
                emb = _embedded_roundtrip(build_py(c, cls))
                if emb is not None:
                    ctx.fail("C18/%s/embedded-in-length-block-not-reread" % layout,
                             "engine data written behind a length prefix (as in the type-tool block) is not read back",
                             {"tree": jsonable(c), "layout": layout}, emb, "the same tree")
            # ---- the property on the real code (oracle: independent canonical walker + Python ==)
            bad = roundtrip_fails(c, layout)
            ctx.hist("roundtrip_" + layout, "ok" if bad is None else "FAIL")
            if bad is not None:
                small = shrink(c, layout)
                bad2 = roundtrip_fails(small, layout) or bad
                ctx.fail(signature(small, layout, bad2[0], bad2[1]),
                         "frombytes(tobytes(t)) != t in the %s layout" % clsname,
                         {"tree": jsonable(small), "layout": layout}, bad2[2], "a tree equal to the input")
    ctx.sample({"tree": jsonable(trees[len(trees) // 2][1])})

    # surrogates: the writer must raise UnicodeEncodeError in both (outside WF, error correspondence)
    sur = ("D", [(b"k", ("S", (0x61, 0xD800)))])
    ans = drv.batch([("ed.write", "i", enc_model(sur)), ("ed.write", "c", enc_model(sur))])
    for (layout, clsname), a in zip(LAYOUTS, ans):
        impl = call(lambda: build_py(sur, getattr(e, clsname)).tobytes())
        ctx.corr_cases += 1
        if (impl[0], impl[1] if impl[0] == "err" else None) != (model_ans(a)[0], model_ans(a)[1] if model_ans(a)[0] == "err" else None):
            ctx.disagree("write of a lone surrogate: model != code", {"layout": layout, "impl": str(impl), "model": a})

    # ------------------------------------------------------------------ parse / tokens: model vs code
    blobs = []      # (origin, class name, bytes)
    for layout, b in written:
        blobs.append(("written", "EngineData" if layout == "i" else "EngineData2", b))
    fixtures = fixture_blobs()
    for name, b in fixtures:
        blobs.append(("fixture:" + name, "EngineData", b))
    psd_blobs, tysh, psd_files, psd_errors = harvest_psd(ctx, None)
    seen = set()
    for clsname, b in psd_blobs:
        if b not in seen:
            seen.add(b)
            blobs.append(("psd", clsname, b))
    n_valid = len(blobs)
    sources = [b for _, _, b in blobs if len(b) < 4000] or [b""]
    fx = [b for _, b in fixtures]
    for _ in range(1500 if quick else 25000):
        src = rng.choice(sources) if rng.random() < 0.8 else rng.choice(fx)
        blobs.append(("mutated", "EngineData", mutate_blob(rng, src)))
    for c in corpus:
        if c["kind"] == "blob":
            blobs.insert(0, ("corpus", "EngineData", unhx(c["data"])))

    reqs = [("ed.parse", hx(b)) for _, _, b in blobs]
    answers = drv.batch(reqs)
    tok_idx = [i for i, (o, _, b) in enumerate(blobs) if o != "written" or i % 7 == 0]
    tok_answers = drv.batch([("ed.tokens", hx(blobs[i][2])) for i in tok_idx])
    for (origin, clsname, b), a in zip(blobs, answers):
        cls = getattr(e, clsname)
        impl = call(lambda: canon_py(cls.frombytes(b)))
        mod = model_ans(a)
        if mod[0] == "ok":
            mod = ("ok", dec_model(mod[1]))
        ctx.corr_cases += 1
        ctx.count(("p", b), nontrivial=len(b) > 0)
        ctx.hist("parse_outcome", impl[1] if impl[0] == "err" else "ok")
        ctx.hist("parse_origin", origin.split(":")[0])
        if impl != mod:
            ctx.disagree("parse: model != code", {"data": hx(b), "origin": origin,
                                                   "impl": _j(impl), "model": _j(mod)})
    for i, a in zip(tok_idx, tok_answers):
        b = blobs[i][2]
        impl = []
        tk = e.Tokenizer(b)
        while True:
            try:
                t, ty = next(tk)
            except StopIteration:
                break
            except ValueError:
                impl.append("!ValueError")
                break
            impl.append(hx(t) + ":" + ty.name)
        ctx.corr_cases += 1
        got = a[1].split(" ") if len(a) > 1 and a[1] else []
        if a[0] != "ok" or got != impl:
            k = next((j for j, (x, y) in enumerate(zip(got, impl)) if x != y), min(len(got), len(impl)))
            ctx.disagree("tokens: model != code", {"data": hx(b) if len(b) < 300 else hx(b[:300]) + "…", "at": k,
                                                    "impl": impl[k:k + 2], "model": got[k:k + 2]})

    # ------------------------------------------------------------------ classification against the real regexes
    cl_cases = list(CLASSIFY_WORDS)
    maxlen = 3 if quick else 4
    for n in range(1, maxlen + 1):
        for tup in itertools.product(CLASSIFY_ALPHA, repeat=n):
            cl_cases.append(b"".join(tup))
    for _ in range(2000 if quick else 20000):
        w = rng.choice(CLASSIFY_WORDS + TAGS + [b"(\xfe\xff", b"/ab", b"12", b"-3.25"])
        cl_cases.append(w[:rng.randrange(len(w) + 1)] + b"".join(rng.choice(CLASSIFY_ALPHA) for _ in range(rng.randrange(4)))
                        + rng.choice([b"", b"", b"\n", b")", b")\n"]))
    answers = drv.batch([("ed.classify", hx(t)) for t in cl_cases])
    for t, a in zip(cl_cases, answers):
        impl = "none"
        for ty in e.EngineToken:
            if ty.value.search(t):
                impl = ty.name
                break
        ctx.corr_cases += 1
        ctx.count(("cl", t), nontrivial=True)
        ctx.hist("classify", impl)
        if a != ["ok", impl]:
            ctx.disagree("classify: model != EngineToken regexes", {"token": hx(t), "impl": impl, "model": a})

    # ------------------------------------------------------------------ the pre-fix end-of-string search (record of the defect)
    import re
    old_rx = re.compile(rb"[^\\]\)", re.S)          # Tokenizer.UTF16_END before the fix
    old_cases = []
    for s_ in strs[:400]:
        u = s_.encode("utf-16-be")
        for c in e.String._ESCAPED_CHARS:
            u = u.replace(c, b"\\" + c)
        old_cases.append(b"(\xfe\xff" + u + b") /z 3")
    oa = drv.batch([("ed.oldEnd", hx(b)) for b in old_cases])
    for b, a in zip(old_cases, oa):
        m = old_rx.search(b)
        ctx.corr_cases += 1
        if a != ["ok", str(m.end()) if m else "none"]:
            ctx.disagree("oldEnd: model of the pre-fix regex != the regex", {"data": hx(b), "model": a})

    # ------------------------------------------------------------------ escape / unescape / decode / Float.write
    esc_cases = []
    for n in range(0, 6 if quick else 8):
        for tup in itertools.product([0x5C, 0x28, 0x29, 0x61], repeat=n):
            esc_cases.append(bytes(tup))
    ea = drv.batch([("ed.escape", hx(b)) for b in esc_cases])
    ua = drv.batch([("ed.unescape", hx(b)) for b in esc_cases])
    for b, x, y in zip(esc_cases, ea, ua):
        v = b
        for c in e.String._ESCAPED_CHARS:
            v = v.replace(c, b"\\" + c)
        u = b
        for c in e.String._ESCAPED_CHARS:
            u = u.replace(b"\\" + c, c)
        ctx.corr_cases += 2
        if x != ["ok", hx(v)]:
            ctx.disagree("escape: model != code", {"data": hx(b), "impl": hx(v), "model": x})
        if y != ["ok", hx(u)]:
            ctx.disagree("unescape: model != code", {"data": hx(b), "impl": hx(u), "model": y})
        # the law itself on the real code
        w = v
        for c in e.String._ESCAPED_CHARS:
            w = w.replace(b"\\" + c, c)
        if w != b:
            ctx.fail("C18/string/unescape-escape", "unescape(escape(b)) != b", {"bytes": hx(b)}, hx(w), hx(b))
    dec_cases = []
    for n in range(0, 4 if quick else 5):
        for tup in itertools.product([0xFE, 0xFF, 0xD8, 0xDC, 0x00, 0x61], repeat=n):
            dec_cases.append(bytes(tup))
    for _ in range(500 if quick else 5000):
        dec_cases.append(rng.choice([b"\xfe\xff", b"\xff\xfe", b""]) +
                         bytes(rng.choice([0xD8, 0xDB, 0xDC, 0xDF, 0xE0, 0x00, 0x41, 0xFE, 0xFF, rng.randrange(256)])
                               for _ in range(rng.randrange(0, 9))))
    da = drv.batch([("ed.decode", hx(b)) for b in dec_cases])
    for b, a in zip(dec_cases, da):
        impl = call(lambda: " ".join(str(ord(ch)) for ch in b.decode("utf-16")))
        ctx.corr_cases += 1
        if impl != model_ans(a):
            ctx.disagree("utf-16 decode: model != CPython", {"data": hx(b), "impl": list(impl), "model": a})
    fl_cases = [(False, 0, 1), (True, 0, 1), (False, 4, 1), (True, 4, 1), (False, 10, 1), (False, 6, 5),
                (True, 4755428, 5), (False, 99999999, 8), (False, 100000000, 8), (True, 1, 8), (False, 5, 1)]
    for _ in range(2000 if quick else 30000):
        fl_cases.append(rand_dec(rng)[1:])
    fa = drv.batch([("ed.float", "1" if n else "0", m, k) for n, m, k in fl_cases])
    for (n, m, k), a in zip(fl_cases, fa):
        v = float(("-" if n else "") + str(Decimal(m).scaleb(-k)))
        impl = e.Float(v).tobytes()
        ctx.corr_cases += 1
        ctx.hist("float_k", k)
        if a != ["ok", hx(impl)]:
            ctx.disagree("Float.write: model != code", {"dec": [n, m, k], "impl": hx(impl), "model": a})
        back = e.Float.frombytes(impl).value
        if "%.8f" % back != "%.8f" % v:
            ctx.fail("C18/float/eight-places", "Float does not read back to eight places", {"value": repr(v)},
                     repr(back), repr(v))

    # ------------------------------------------------------------------ search beyond the model: odd floats
    odd = [1e-9, -1e-9, 4.9e-9, 5.1e-9, 0.999999999, -0.999999996, 1e16, -1e22, 123456789.123456789, 2 ** -30, 1 / 3]
    for _ in range(300 if quick else 5000):
        odd.append(rng.choice([rng.uniform(-2, 2), rng.uniform(-1e-7, 1e-7), rng.uniform(-1e6, 1e6),
                               rng.uniform(-1e18, 1e18)]))
    for v in odd:
        for layout, clsname in LAYOUTS:
            cls = getattr(e, clsname)
            t = cls()
            t["v"] = e.Float(v)
            t["l"] = e.List([e.Float(v), e.Float(-v)])
            r = call(lambda: cls.frombytes(t.tobytes()))
            ctx.count(("odd", layout, repr(v)))
            okk = r[0] == "ok" and isinstance(r[1].get("v"), e.Float) and "%.8f" % r[1]["v"].value == "%.8f" % v \
                and len(r[1]["l"]) == 2 and "%.8f" % r[1]["l"][1].value == "%.8f" % (-v)
            if not okk:
                ctx.fail("C18/float/%s/not-eight-places" % clsname, "a finite float does not read back to eight places",
                         {"float": repr(v), "layout": layout}, str(r)[:200], "%.8f" % v)

    # ------------------------------------------------------------------ fixtures: byte-identical round trip
    for name, b in fixtures:
        for kw, label in (({"indent": 0, "write_container": True}, "indented"),
                          ({"indent": None, "write_container": False}, "compact")):
            r = call(lambda: e.EngineData.frombytes(b).tobytes(**kw))
            if r == ("ok", b):
                ctx.hist("fixture_identical", name + ":" + label)
        r1 = call(lambda: e.EngineData.frombytes(b).tobytes(indent=0, write_container=True))
        r2 = call(lambda: e.EngineData.frombytes(b).tobytes(indent=None, write_container=False))
        ctx.count(("fixture", name))
        if name != "TySh_2.dat" and r1 != ("ok", b) and r2 != ("ok", b):
            ctx.fail("C18/fixture/%s/not-identical" % name, "fixture blob is not written back byte for byte",
                     {"fixture": name}, "differs in both layouts", "identical bytes in its own layout")
        # written -> parsed -> equal tree, in both layouts
        p0 = call(lambda: canon_py(e.EngineData.frombytes(b)))
        for rr in (r1, r2):
            if rr[0] != "ok" or p0[0] != "ok" or call(lambda: canon_py(e.EngineData.frombytes(rr[1]))) != p0:
                ctx.fail("C18/fixture/%s/tree-changes" % name, "fixture tree changes through write+parse",
                         {"fixture": name}, str(rr)[:100], "equal tree")
    n_blob_ident = 0
    for clsname, b in set(psd_blobs):
        cls = getattr(e, clsname)
        r = call(lambda: cls.frombytes(b).tobytes())
        ctx.count(("psdblob", b))
        if r == ("ok", b):
            n_blob_ident += 1
        else:
            ctx.fail("C18/embedded/%s/blob-not-identical" % clsname,
                     "engine data embedded in a fixture PSD is not written back unchanged",
                     {"blob": hx(b[:200]), "len": len(b)}, str(r)[:120], "identical bytes")
    # TypeToolObjectSetting: parsed, exposed, written back without change
    n_tysh = 0
    for raw, obj in tysh:
        outs = [call(lambda p=p: obj.tobytes(padding=p)) for p in (1, 4)]
        ctx.count(("tysh", raw))
        n_tysh += 1
        if not any(o == ("ok", raw) for o in outs):
            ctx.fail("C18/embedded/TypeToolObjectSetting/not-identical",
                     "TypeToolObjectSetting does not serialise back to the bytes it was read from",
                     {"len": len(raw), "head": hx(raw[:64])}, [str(o)[:80] for o in outs], "identical bytes")
        ed = obj.text_data.get(b"EngineData")
        if ed is not None and not isinstance(ed.value, e.EngineData):
            ctx.fail("C18/embedded/TypeToolObjectSetting/engine-data-not-parsed",
                     "embedded engine data was left as raw bytes (parse failed)", {"len": len(raw)},
                     type(ed.value).__name__, "EngineData")
    n_layers = api_exposure(ctx, psd_files)
    # ------------------------------------------------------------------ in-place edits, for every way a tree is obtained
    import time as _time
    t_ed = _time.time()
    n_edit_cases = c18_edits.run_stage(ctx, quick)
    ctx.extra["edit_stage_seconds"] = round(_time.time() - t_ed, 1)
    ctx.extra["embedded"] = {"psd_files": len(psd_files), "psd_read_errors": psd_errors[:5],
                             "engine_blobs": len(set(psd_blobs)), "engine_blobs_identical": n_blob_ident,
                             "type_tool_blocks": n_tysh, "type_layers_via_api": n_layers}
    if n_tysh == 0 or len(fixtures) != 6:
        raise core.Infra("engine data fixtures not found under %s" % core.REPO)

    ctx.rule = (
        "trees: every critical string up to length %s over {a ( ) \\ CR U+015C U+5C5C U+2829 U+FEFF NUL}%s embedded as "
        "dict value, list items and nested dict value; random Unicode strings; random trees of depth <= 6 (ints at the "
        "int64 extremes, decimals with 1..8 places, booleans, strings, property/tag values); dictionary-first mixed "
        "lists; each in both layouts. Parser/tokenizer: all written outputs, the 6 fixture blobs, every engine-data blob "
        "of the fixture PSDs, token-level mutations of those. Classifier: every byte string up to length %d over an "
        "18-byte alphabet + affix mutations, against the live EngineToken regexes. A case is non-trivial when the tree "
        "/ blob is non-empty; distinct = distinct (kind, layout, tree or bytes). Edits: engine data obtained every way the "
        "library hands it out (frombytes of the fixture blobs in both classes, trees built in memory, "
        "TypeToolObjectSetting.frombytes of every fixture document's first type layer, TypeLayer.engine_dict / "
        "resource_dict / document_resources / the tagged block of type layers of every fixture document, the document-level "
        "Txt2 block) is edited IN PLACE at the shallowest site below the top level, at the deepest site and at random sites "
        "(replace a leaf / a subtree, assign .value of a leaf object, append / insert into a list, insert a key, delete a "
        "key / an item), also left unedited; then write -> read must give the edited tree, a second write the same bytes, "
        "an equal tree made of fresh objects the same bytes, and the enclosing block / the saved and reopened document the "
        "edited tree with the other type layers unchanged."
        % ("2" if quick else "3", " + 150 of length 3" if quick else " (exhaustive)", maxlen))
    ctx.exhaustive = not quick
    ctx.model_coverage = {
        "modelled": ["Tokenizer.__next__", "EngineToken (12 regexes, enum order)", "Dict.frombytes", "List.frombytes",
                     "Dict.write", "List.write", "EngineData/EngineData2 defaults", "String (escape/unescape, utf-16)",
                     "Integer", "Float (on decimals)", "Bool", "Property", "Tag"],
        "python_side_only": ["float <-> '%.8f' (CPython)", "TypeToolObjectSetting / DescriptorBlock framing (C01)",
                             "TypeLayer API accessors", "in-place edits of parsed trees (the model's write is a function of "
                             "the tree by construction; that the code's write is one is checked by the edit stage)"],
    }
    ctx.notes += NOTES
    if ctx.tier == "thorough":
        ctx.recheck(["PsdVerif.Props.C18"])


NOTES = [
    "proved for all inputs (model of the fixed code): unescape_escape, string_token_end (no condition on the last byte), "
    "utf16_roundtrip, scalar_token / integer_roundtrip / float_roundtrip, tokens_of_write, write_ok, parse_write and "
    "parse_writeT for both layouts with WF = names over [A-Za-z0-9_] occurring once per dict, strings of Unicode "
    "scalar values, decimals with 1..8 places in normal form, any nesting",
    "stated in DESIGN, not proved: embedded_unchanged (TypeToolObjectSetting round trip keeps engine data) - it needs "
    "the descriptor codec model of C01; here it is checked by the search oracle on every type-tool block and "
    "engine-data blob of the fixture PSDs (byte-identical write-back, API accessors return the parsed objects)",
    "Property and Tag values (`/name`, `(hwid)`, `--(.-0`) are modelled and compared by the correspondence check "
    "but are outside WF: the property does not quantify over them",
    "the fuel of the model's parser (len(data)+1) is proved sufficient on written trees (parse_write goes through "
    "`parse`); CPython's recursion limit on nesting depth is not modelled",
    "pre-fix behaviour is kept as `oldEnd`/`strTokenOld` with the witness theorem old_string_end_defect; the two "
    "defects are replayed as corpus trees on every run and would be reported under their `fixed` signatures",
]


def api_exposure(ctx, files):
    """Engine data of the type layers through the public API: exposed objects are the parsed ones and reading
    them does not change what is written back."""
    e = E()
    from psd_tools import PSDImage
    from psd_tools.api.layers import TypeLayer
    n = 0
    for f in files:
        try:
            psd = PSDImage.open(f)
        except Exception:  # noqa
            continue
        for layer in psd.descendants():
            if not isinstance(layer, TypeLayer):
                continue
            n += 1
            data = layer._data
            before = call(lambda: data.tobytes())
            ed = data.text_data.get(b"EngineData").value
            r = call(lambda: (layer.text, layer.engine_dict, layer.resource_dict, layer.document_resources))
            ctx.count(("api", f.name, layer.name))
            if r[0] != "ok":
                ctx.fail("C18/api/TypeLayer/accessor-raises", "TypeLayer accessor raises", {"file": f.name}, r[1], "values")
                continue
            text, edict, rdict, dres = r[1]
            okk = isinstance(ed, e.EngineData) and isinstance(text, str) and edict is ed.get("EngineDict") \
                and rdict is ed.get("ResourceDict") and dres is ed.get("DocumentResources") \
                and isinstance(edict, e.Dict) and isinstance(edict["Editor"]["Text"], e.String)
            if okk:
                same = edict["Editor"]["Text"].value.rstrip("\r\x00") == text.rstrip("\r\x00")
                ctx.hist("api_editor_text_equals_layer_text", same)
            if not okk:
                ctx.fail("C18/api/TypeLayer/exposes-something-else", "TypeLayer does not expose the parsed engine data",
                         {"file": f.name, "layer": layer.name}, repr(text)[:60], "the parsed EngineData members")
            after = call(lambda: data.tobytes())
            if before != after or call(lambda: ed.tobytes()) != call(lambda: e.EngineData.frombytes(ed.tobytes()).tobytes()):
                ctx.fail("C18/api/TypeLayer/changes-on-read", "reading the engine data through the API changes what is written",
                         {"file": f.name, "layer": layer.name}, "differs", "unchanged")
    return n


def _j(o):
    if o[0] == "ok":
        return ["ok", jsonable(o[1])]
    return list(o)


def replay(ctx, data):
    inp = data.get("input") or {}
    print("replaying", data.get("signature"))
    if "origin" in inp:
        c18_edits.replay(inp)
    elif "tree" in inp:
        c = unjson(inp["tree"])
        for layout, clsname in LAYOUTS:
            if inp.get("layout") in (None, layout):
                print(clsname, "->", roundtrip_fails(c, layout) or "round trip holds")
    elif "bytes" in inp:
        e = E()
        b = unhx(inp["bytes"])
        print("String round trip ->", call(lambda: e.String.frombytes(e.String(b.decode("utf-16-be")).tobytes()).value))
    elif "float" in inp:
        e = E()
        v = float(inp["float"])
        print("Float ->", e.Float(v).tobytes(), e.Float.frombytes(e.Float(v).tobytes()).value)
    else:
        print("fixture-based finding: re-run ./check C18")
    print("expected:", data.get("expected"))
    return 0
