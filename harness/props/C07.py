"""C07 - imported pixels come back unchanged (documents, layers; PIL and NumPy exports)."""
from __future__ import annotations

import io
import json
import traceback

import numpy as np
from PIL import Image, ImageChops

import c07_samples
import core
import extract_c07
import pixels_common as pc
from core import err_class

DOC_MODES = ["L", "LA", "RGB", "RGBA", "CMYK", "CMYKA"]          # PSDImage.new(mode, ...)
CMODE_OF = {"L": "GRAYSCALE", "LA": "GRAYSCALE", "RGB": "RGB", "RGBA": "RGB", "CMYK": "CMYK", "CMYKA": "CMYK"}
DEPTHS = [8, 16, 32]
SIZES_QUICK = [(1, 5), (6, 1), (5, 4), (128, 2), (129, 3)]
SIZES_ALL = [(1, 1), (1, 9), (9, 1), (5, 4), (16, 16), (127, 3), (128, 3), (129, 3), (130, 2), (257, 2)]
FIXTURE_HOSTS = ["1layer.psb", "16bit5x5.psb", "32bit5x5.psd", "transparentbg-gimp.psd", "gray0.psd"]


def compressions():
    from psd_tools.constants import Compression
    return [Compression.RAW, Compression.RLE, Compression.ZIP, Compression.ZIP_WITH_PREDICTION]


def offsets(kind, w, h, W, H):
    if kind == "inside":
        return 1, 2            # top, left
    if kind == "straddling":
        return H - (h + 1) // 2, -(w // 2) - 0
    return -h - 2, W + 3       # outside


# ---------------------------------------------------------------------------------------------
def pil_vs_numpy(pil_img, arr, cmyk_expected_inverted=False):
    """max |PIL/255 - numpy| over the channels both have; (max diff, max diff if numpy were inverted)"""
    a = np.asarray(pil_img).astype(np.float32)
    a = a.reshape(pil_img.height, pil_img.width, -1) / np.float32(255.0)
    n = min(a.shape[2], arr.shape[2])
    d = float(np.abs(a[:, :, :n] - arr[:, :, :n]).max()) if n else 0.0
    di = float(np.abs((1 - a[:, :, :n]) - arr[:, :, :n]).max()) if n else 0.0
    return d, di


def run(ctx: core.Run):
    gen = ctx.regenerate(extract_c07.gen_pixels)
    gen_samples = ctx.regenerate(extract_c07.gen_pixel_samples)
    ctx.prove(["PsdVerif.Props.C07", "PsdVerif.Props.C07Samples"])
    ctx.trusted_base += [
        "Lean 4.33 kernel; axioms allowed: propext, Classical.choice, Quot.sound (audited per theorem)",
        "Model/Pixels.lean: hand transliteration of the import/export glue (frompil, PixelLayer.frompil, "
        "convert_image_data_to_pil, convert_layer_to_pil, post_process, get_image_data, get_layer_data, "
        "has_transparency, get_transparency_index); tied by this run's correspondence check and by the regenerated tables",
        "Model/PixelSamples.lean: hand transliteration of the sample arithmetic (plane(), _create_image, _parse_array, "
        "ImageChops.invert, both matte removals, Image.convert per pixel); its constants / dtypes / operators / calls / inversion "
        "sites are regenerated from the AST and tied (samples_tied); its values are compared with the real functions on every "
        "8-bit and 16-bit code, on seeded binary32 patterns, on all 65536 (colour, alpha) pairs, and with the real pipeline "
        "(stored bytes, 8-bit samples, float32 bits - exact) on images holding every sample value",
        "binary32 as exact rationals (f32Bits / f32Value of Model/MergedPixels.lean: nearest, ties to even); that NumPy's "
        "float32 division is IEEE (correctly rounded) and that PIL evaluates `point(lambda)` on I / F images as scale * x + offset "
        "in C doubles with truncation on store is observed by the correspondence, not proved",
        "harness/extract_c07.py (tables from the live modules, arithmetic from the AST), harness/pixels_common.py (meaning of the "
        "symbolic samples), harness/c07_samples.py",
        "PIL: split / merge / getchannel / putalpha / frombytes / point / convert (modelled per pixel for the six modes, compared on "
        "seeded pixels every run); NumPy; the channel codecs (C04)",
    ]
    ctx.assumptions += [
        "the sample laws (Px.LawfulAt d for d = 8, 16, 32; Pil.Lawful) are no longer assumptions: px_lawful_concrete, "
        "pil_lawful_concrete prove them for the modelled arithmetic",
        "channel compression is lossless (C04); ICC conversion is switched off or absent in the generated documents",
        "layers with a non-empty extent (width, height > 0)",
    ]
    from psd_tools import PSDImage
    from psd_tools.api.layers import PixelLayer
    from psd_tools.api import pil_io
    from psd_tools.constants import ChannelID, Compression

    rng = ctx.rng
    quick = ctx.quick
    drv = ctx.driver()
    matrix_doc, matrix_layer = {}, {}

    # ---- the sample-level hypotheses, exercised on the real functions -------------------------
    v = np.arange(256, dtype=np.uint8).reshape(16, 16)
    for d in DEPTHS:
        back = np.asarray(pil_io._create_image((16, 16), pc.encode_depth(v, d), d))
        if not np.array_equal(back, v):
            ctx.disagree(f"hypothesis load(store(x)) = x fails at depth {d}", {"depth": d})
    inv = np.asarray(ImageChops.invert(ImageChops.invert(Image.fromarray(v, "L"))))
    if not np.array_equal(inv, v):
        ctx.disagree("hypothesis invert(invert(x)) = x fails", {})

    # =========================== documents ===================================================
    sizes = SIZES_QUICK if quick else SIZES_ALL
    doc_cases = []
    for mode in pc.MODES:
        for (w, h) in sizes:
            comps = compressions() if (not quick or (w, h) == (5, 4)) else [rng.choice(compressions())]
            for comp in comps:
                doc_cases.append((mode, w, h, comp))
    corpus = core.VERIF / "harness" / "corpus" / "C07.json"
    corp = json.loads(corpus.read_text()) if corpus.exists() else []
    for c in corp:
        if c["kind"] == "doc":
            doc_cases.insert(0, (c["mode"], c["w"], c["h"], Compression(c["compression"])))
    model_doc = {m: a for m, a in zip(pc.MODES, drv.batch([("px.doc", m) for m in pc.MODES]))}

    for (mode, w, h, comp) in doc_cases:
        iseed = rng.randrange(1 << 30)
        img = pc.make_image(mode, w, h, iseed)
        case = {"kind": "doc", "mode": mode, "w": w, "h": h, "compression": int(comp), "img_seed": iseed}
        ctx.corr_cases += 1
        ctx.count(("doc", mode, w, h, int(comp)), nontrivial=w * h > 1)
        ctx.hist("doc_mode", mode)
        ctx.hist("compression", comp.name)
        res = check_doc(ctx, img, comp, case, model_doc[mode])
        matrix_doc.setdefault(mode, set()).add(res)
    ctx.sample({"doc": doc_cases[0][0], "size": doc_cases[0][1:3], "model": model_doc[doc_cases[0][0]]})

    # =========================== layers ======================================================
    layer_cases = []
    combos = [(s, d, dp) for s in pc.MODES for d in DOC_MODES for dp in DEPTHS]
    reps = 1 if quick else 12
    for rep in range(reps):
        for (s, d, dp) in combos:
            w, h = rng.choice(sizes)
            layer_cases.append((s, d, dp, w, h, rng.choice(compressions()),
                                rng.choice(["inside", "straddling", "outside"])))
    # every compression x offset once per document mode, on a small image
    for d in DOC_MODES:
        for comp in compressions():
            for off in ["inside", "straddling", "outside"]:
                layer_cases.append(("RGBA", d, 8, 5, 4, comp, off))
    for c in corp:
        if c["kind"] == "layer":
            layer_cases.insert(0, (c["src"], c["doc"], c["depth"], c["w"], c["h"], Compression(c["compression"]), c["offset"]))
    keys = sorted({(s, d, dp) for (s, d, dp, *_r) in layer_cases})
    answers = drv.batch([("px.layer", s, CMODE_OF[d], {"L": 1, "LA": 2, "RGB": 3, "RGBA": 4, "CMYK": 4, "CMYKA": 5}[d], dp)
                         for (s, d, dp) in keys])
    model_layer = dict(zip(keys, answers))
    for (s, d, dp, w, h, comp, off) in layer_cases:
        iseed = rng.randrange(1 << 30)
        img = pc.make_image(s, w, h, iseed)
        case = {"kind": "layer", "src": s, "doc": d, "depth": dp, "w": w, "h": h,
                "compression": int(comp), "offset": off, "img_seed": iseed}
        ctx.corr_cases += 1
        ctx.count(("layer", s, d, dp, w, h, int(comp), off), nontrivial=w * h > 1)
        ctx.hist("layer_src", s)
        ctx.hist("layer_doc", f"{d}/{dp}")
        ctx.hist("offset", off)
        ctx.hist("compression", comp.name)
        res = check_layer(ctx, img, d, dp, comp, off, case, model_layer[(s, d, dp)])
        matrix_layer.setdefault(f"{s}->{d}/{dp}", set()).add(res)
    ctx.sample({"layer": layer_cases[0][:3], "model": model_layer[tuple(layer_cases[0][:3])]})

    # layers imported into documents read from files (PSB row tables, 16/32-bit, transparency)
    hosts = FIXTURE_HOSTS if not quick else FIXTURE_HOSTS[:3]
    for name in hosts:
        p = core.REPO / "tests" / "psd_files" / name
        if not p.exists():
            ctx.skipped.append(f"fixture {name} not found")
            continue
        for s in (["RGBA", "L"] if quick else pc.MODES):
            for comp in ([Compression.RLE] if quick else compressions()):
                iseed = rng.randrange(1 << 30)
                img = pc.make_image(s, 7, 3, iseed)
                case = {"kind": "layer-host", "host": name, "src": s, "compression": int(comp), "w": 7, "h": 3,
                        "img_seed": iseed}
                ctx.corr_cases += 1
                ctx.count(("host", name, s, int(comp)))
                ctx.hist("host", name)
                check_layer_host(ctx, p, img, comp, case)

    # =========================== exports of documents read from files =========================
    check_fixtures(ctx, quick)

    # =========================== the sample arithmetic =========================================
    # the concrete model (Model/PixelSamples.lean) against the real functions code by code, against the real pipeline
    # on images holding every sample value (exact: bytes, 8-bit samples, float32 bits), and the search matrix over every
    # source kind x document mode x depth x PSD/PSB x compression (oracle independent of the model)
    sample_tables = c07_samples.check_functions(ctx)
    c07_samples.check_concrete(ctx)
    if sample_tables:
        c07_samples.check_doc_depths(ctx, sample_tables, meta_of)
    c07_samples.search_matrix(ctx, classify_doc)

    ctx.rule = (
        "documents: PIL modes L, LA, RGB, RGBA, CMYK, 1 x sizes %s x compression {RAW, RLE, ZIP, ZIP+prediction}; "
        "layers: source mode x document {L, LA, RGB, RGBA, CMYK, CMYK+alpha} x depth {8,16,32} (every combination) "
        "with seeded size / compression / offset {inside, straddling, outside}, plus every compression x offset per "
        "document mode, plus imports into documents read from files (PSB, 16/32-bit); every band a different ramp "
        "with seeded noise. A case is non-trivial when the image has more than one pixel; distinct = distinct "
        "(kind, modes, depth, size, compression, offset) tuples." % (sizes,)
    )
    ctx.rule += (
        " SAMPLES: _create_image / _parse_array against the model on every code of depth 8 (256) and 16 (65536) and on "
        "seeded + boundary binary32 bit patterns; ImageChops.invert on 0..255; _remove_white_background on all 65536 (colour, alpha) "
        "pairs; Image.convert for the 30 mode pairs on seeded pixels; the concrete model run (pxs.layer / pxs.doc) against the real "
        "pipeline for source mode x document mode x depth (108) and the document imports, on 16x16 images whose bands are seeded "
        "permutations of 0..255 (every value of every band, every alpha value against many colours), plus an RGBA document with all "
        "65536 (colour, alpha) pairs; SEARCH MATRIX: %d source kinds (%s) x 6 document modes x 3 depths with seeded compression / "
        "offset, a PSB canvas (30001 wide) for every document mode x depth x compression, every source kind x compression as a "
        "document; per case: PIL colour bands and alpha exact, NumPy |x - v/255| <= 1e-6 with opaque exactly 1.0, "
        "round(NumPy * 255) = PIL." % (len(c07_samples.SOURCE_KINDS), ", ".join(c07_samples.SOURCE_KINDS))
    )
    ctx.model_coverage = {
        "modelled": ["PSDImage.frompil", "_make_header", "pil_mode", "has_preview", "PixelLayer.frompil",
                     "convert_image_data_to_pil", "convert_layer_to_pil", "post_process", "_merge_channels",
                     "_check_channels", "_remove_white_background (as a sample parameter)", "get_image_data",
                     "get_layer_data", "_remove_background", "has_transparency", "get_transparency_index"],
        "sample arithmetic (Model/PixelSamples.lean)": [
            "plane() of PixelLayer.frompil (8: byte, 16: * 257 in uint16, 32: float32 / 255.0)", "_create_image (8, 16, 32)",
            "_parse_array (8, 16, 32)", "ImageChops.invert", "_remove_white_background", "_remove_background",
            "Image.convert between 1, L, LA, RGB, RGBA, CMYK"],
        "parameters": [],
        "opaque": ["ICC conversion (_apply_icc)", "colour modes BITMAP (depth 1), INDEXED, MULTICHANNEL, DUOTONE, LAB",
                   "masks (channel ids -2, -3)", "PixelLayer._convert (re-import of a rendered layer)",
                   "source modes other than the six (P, PA, LAB, YCbCr, HSV, RGBX, I, F, I;16, La, RGBa, key-colour "
                   "transparency): search only, PIL's own convert is the reference"],
    }
    ctx.extra["matrix_documents"] = {k: sorted(v) for k, v in matrix_doc.items()}
    ctx.extra["matrix_layers"] = {k: sorted(v) for k, v in matrix_layer.items() if v != {"exact"}} or "all exact"
    ctx.extra["matrix_layers_exact"] = sum(1 for v in matrix_layer.values() if v == {"exact"})
    ctx.extra["generated_tables"] = gen
    ctx.notes += [
        "stated in the model, not proved: unmattePil (the float32 evaluation ImageMath performs) = unmatte8 (its integer form, which "
        "the concrete Px uses) - both are evaluated by the compiled model on all 65536 pairs and compared with each other and with "
        "the real _remove_white_background on every run; a kernel proof would take about half an hour of evaluation.",
        "numpy_export_value: at every depth the NumPy export of an imported sample v is the same float, the binary32 nearest to "
        "v/255 (not v/255 itself: that is a binary fraction only for v = 0 and 255; numpy_export_nearest gives the 2^-25 bound and "
        "the neighbour-midpoint characterisation).",
        "float inversion 1 - x is not an involution in binary32 (float_inversion: v = 1); the pipeline inverts 8-bit samples only "
        "(samples_tied: three ImageChops.invert under mode == 'CMYK', no constant - x in numpy_io).",
        "doc_import_export is proved for modes 1, L, LA, RGB, CMYK (…_partial) and refuted for RGBA "
        "(doc_import_export_rgba_fails, exact description in doc_import_export_rgba): frompil stores the colour "
        "planes as they come, both exports remove a white matte; no stored representation makes the un-matting exact.",
        "pil_numpy_agree is proved at the level of routes (which plane, inverted or not, which alpha removes the "
        "matte) for grayscale and RGB and refuted for CMYK (numpy() keeps the storage convention, topil() inverts).",
        "RGB documents whose merged-transparency block comes without a fourth channel (cannot be produced through "
        "the API) make topil() take the blue plane for the alpha while numpy() does not: outside the premises of "
        "pil_numpy_agree_doc_partial, observed on the model only.",
    ]
    ctx.extra["generated_sample_arithmetic"] = {k: gen_samples[k] for k in ("plane_arith", "create_rows", "parse_rows")
                                                if k in gen_samples} if isinstance(gen_samples, dict) else None
    if ctx.tier == "thorough":
        ctx.recheck(["PsdVerif.Props.C07", "PsdVerif.Props.C07Samples"])


# ---------------------------------------------------------------------------------------------
def _call(f, *a, **k):
    try:
        return ("ok", f(*a, **k))
    except Exception as e:  # noqa
        return ("err", err_class(e), str(e)[:120])


def check_doc(ctx, img, comp, case, model):
    from psd_tools import PSDImage
    mode = img.mode
    ev = pc.SymEval(img)
    want = pc.normalise(img)
    r = _call(lambda: pc.save_reopen(PSDImage.frompil(img, compression=comp))[0])
    if r[0] == "err":
        ctx.fail(f"C07/doc-import/{mode}/raises-{r[1]}", f"frompil/save/open of a mode {mode} image raises {r[1]}",
                 case, r[1:], "a document")
        if model[0] == "ok":
            ctx.disagree("doc: model imports, implementation raises", case)
        return "raises " + r[1]
    psd = r[1]
    # ---- correspondence: header, stored planes, exports vs the model's symbolic run
    if model[0] != "ok":
        ctx.disagree("doc: model answers " + "/".join(model), case)
        return "model-error"
    m_cmode, m_channels, m_planes, m_pil, m_np = model[1:6]
    hdr = psd._record.header
    if hdr.color_mode.name != m_cmode or hdr.channels != int(m_channels) or hdr.depth != 8:
        ctx.disagree("doc: header differs from the model", {**case, "impl": [hdr.color_mode.name, hdr.channels, hdr.depth],
                                                            "model": [m_cmode, m_channels, 8]})
    planes = _call(lambda: psd._record.image_data.get_data(hdr))
    if planes[0] == "ok":
        mp = [ev.eval(s) for s in m_planes.split(";")]
        if [bytes(p) for p in planes[1]] != mp:
            ctx.disagree("doc: stored planes differ from the model", {**case, "model": m_planes})
    else:
        ctx.disagree("doc: stored planes unreadable", {**case, "error": planes[1:]})
    out = _call(lambda: psd.topil(apply_icc=False))
    arr = _call(lambda: psd.numpy())
    result = "exact"
    # PIL export vs model
    if out[0] == "ok" and out[1] is not None:
        o = out[1]
        mm, mb = m_pil.split(":")
        got = pc.bands_u8(o)
        exp = [pc.realise_u8(ev.eval(s)) for s in mb.split(";")]
        if o.mode != mm or len(got) != len(exp) or any(not np.array_equal(g, e) for g, e in zip(got, exp)):
            ctx.disagree("doc: PIL export differs from the model",
                         {**case, "impl": [o.mode] + [pc.describe_band(b, ev, None) for b in got], "model": m_pil})
    else:
        ctx.disagree("doc: topil() fails or returns None", {**case, "impl": out[1:] if out[0] == "err" else None, "model": m_pil})
    if arr[0] == "ok":
        exp = [pc.realise_f(ev.eval(s)) for s in m_np.split(";")]
        a = arr[1]
        if a.shape[2] != len(exp) or any(float(np.abs(a[:, :, k] - e).max()) > 1e-6 for k, e in enumerate(exp)):
            ctx.disagree("doc: NumPy export differs from the model", {**case, "model": m_np})
    else:
        ctx.disagree("doc: numpy() fails", {**case, "impl": arr[1:]})
    # ---- the property itself
    if out[0] == "err":
        ctx.fail(f"C07/doc-export/{mode}/raises-{out[1]}", f"topil() of an imported {mode} document raises {out[1]}: {out[2]}",
                 case, out[1:], "the source image")
        result = "topil raises " + out[1]
    elif out[1] is None:
        ctx.fail(f"C07/doc-export/{mode}/none", "topil() returns None", case, None, "the source image")
        result = "topil None"
    else:
        o = out[1]
        if o.mode != want.mode or o.size != want.size or o.tobytes() != want.tobytes():
            result = classify_doc(o, want)
            ctx.fail(f"C07/doc-import/{mode}/{result}",
                     f"a mode {mode} image imported with PSDImage.frompil is exported differently ({result})",
                     case, {"mode": o.mode, "first_pixel": o.getpixel((0, 0))},
                     {"mode": want.mode, "first_pixel": want.getpixel((0, 0))})
        if arr[0] == "ok":
            # an 8-bit image cannot hold what lies outside [0, 1]: compare within that range
            d, di = pil_vs_numpy(o, np.clip(arr[1], 0, 1) if mode == "RGBA" else arr[1])
            tol = 1.0 / 255 + 1e-6 if mode == "RGBA" else 1e-6
            if d > tol:
                why = "numpy-not-inverted" if di <= 1e-6 else "values-differ"
                ctx.fail(f"C07/pil-numpy/doc/{mode}/{why}",
                         f"topil() and numpy() of an imported {mode} document disagree ({why}, max diff {d:.4f})",
                         case, d, "equal up to the 8-bit quantisation")
    if arr[0] == "err":
        ctx.fail(f"C07/doc-export/{mode}/numpy-raises-{arr[1]}", f"numpy() raises {arr[1]}", case, arr[1:], "an array")
    return result


def classify_doc(o, want):
    if o.mode != want.mode:
        if want.mode.endswith("A") and not o.mode.endswith("A"):
            return "alpha-dropped"
        return f"mode-{o.mode}"
    if o.size != want.size:
        return "size-differs"
    if want.mode == "CMYK" and ImageChops.invert(o).tobytes() == want.tobytes():
        return "inverted"
    if want.mode == "RGBA":
        ob, wb = pc.bands_u8(o), pc.bands_u8(want)
        if np.array_equal(ob[3], wb[3]):
            solid = (wb[3] == 0) | (wb[3] == 255)
            if all(np.array_equal(ob[k][solid], wb[k][solid]) for k in range(3)):
                return "matte-removed-never-applied"
        else:
            return "alpha-differs"
    return "wrong-pixels"


def new_doc(mode, size, depth):
    from psd_tools import PSDImage
    return PSDImage.new(mode, size, depth=depth)


def check_layer(ctx, img, docmode, depth, comp, off, case, model):
    from psd_tools.api.layers import PixelLayer
    from psd_tools.constants import ChannelID
    s = img.mode
    w, h = img.size
    W, H = w + 4, h + 4
    top, left = offsets(off, w, h, W, H)
    tag = f"{s}-into-{docmode}" + (f"/depth{depth}" if depth != 8 else "")
    ev = pc.SymEval(img)

    def build():
        psd = new_doc(docmode, (W, H), depth)
        psd.append(PixelLayer.frompil(img, psd, "imported", top, left, comp))
        return psd
    r = _call(build)
    if r[0] == "err":
        ctx.fail(f"C07/layer-import/{tag}/import-raises-{r[1]}", f"PixelLayer.frompil/append raises {r[1]}: {r[2]}", case, r[1:], "a layer")
        return "import raises " + r[1]
    psd = r[1]
    pil_mode = psd.pil_mode
    r = _call(lambda: pc.save_reopen(psd)[0])
    if r[0] == "err":
        ctx.fail(f"C07/layer-import/{tag}/save-raises-{r[1]}", f"save()/open() after the import raises {r[1]}: {r[2]}", case, r[1:], "a file")
        if model[0] == "ok":
            ctx.disagree("layer: model imports, implementation cannot save", case)
        return "save raises " + r[1]
    psd2 = r[1]
    if len(psd2) != 1:
        ctx.fail(f"C07/layer-import/{tag}/layer-lost", "the reopened document does not have the one imported layer", case, len(psd2), 1)
        return "layer lost"
    lay = psd2[0]
    if model[0] != "ok":
        ctx.disagree("layer: model answers " + "/".join(model), case)
        return "model-error"
    m_pilmode, m_ids, m_planes, m_pil, m_alpha, m_np = model[1:7]
    # ---- correspondence
    if pil_mode != m_pilmode:
        ctx.disagree("layer: document pil_mode differs from the model", {**case, "impl": pil_mode, "model": m_pilmode})
    ids = [int(ci.id) for ci in lay._record.channel_info]
    if ",".join(map(str, ids)) != m_ids:
        ctx.disagree("layer: channel ids differ from the model", {**case, "impl": ids, "model": m_ids})
    else:
        got = _call(lambda: [bytes(c.get_data(w, h, depth, psd2.version)) for c in lay._channels])
        exp = [ev.eval(x) for x in m_planes.split(";")]
        if got[0] != "ok" or got[1] != exp:
            ctx.disagree("layer: stored channel planes differ from the model", {**case, "model": m_planes})
    out = _call(lambda: lay.topil(apply_icc=False))
    al = _call(lambda: lay.topil(ChannelID.TRANSPARENCY_MASK))
    arr = _call(lambda: lay.numpy())
    if out[0] == "ok" and out[1] is not None:
        mm, mb = m_pil.split(":")
        gotb = pc.bands_u8(out[1])
        expb = [pc.realise_u8(ev.eval(x)) for x in mb.split(";")]
        if out[1].mode != mm or len(gotb) != len(expb) or any(not np.array_equal(g, e) for g, e in zip(gotb, expb)):
            ctx.disagree("layer: PIL export differs from the model",
                         {**case, "impl": [out[1].mode] + [pc.describe_band(b, ev, pil_mode) for b in gotb], "model": m_pil})
    else:
        ctx.disagree("layer: topil() fails", {**case, "impl": out[1:] if out[0] == "err" else None})
    if al[0] == "ok" and al[1] is not None and m_alpha != "none":
        if not np.array_equal(np.asarray(al[1]), pc.realise_u8(ev.eval(m_alpha))):
            ctx.disagree("layer: transparency export differs from the model", {**case, "model": m_alpha})
    elif not (al[0] == "ok" and al[1] is None and m_alpha == "none"):
        ctx.disagree("layer: transparency export fails", {**case, "impl": al[1:] if al[0] == "err" else None})
    if arr[0] == "ok" and arr[1] is not None:
        exp = [pc.realise_f(ev.eval(x)) for x in m_np.split(";")]
        a = arr[1]
        tol = 1e-6
        if a.shape[2] != len(exp) or any(float(np.abs(a[:, :, k] - e).max()) > tol for k, e in enumerate(exp)):
            ctx.disagree("layer: NumPy export differs from the model", {**case, "model": m_np})
    else:
        ctx.disagree("layer: numpy() fails", {**case, "impl": arr[1:] if arr[0] == "err" else None})

    # ---- the property itself (oracle independent of the model)
    result = "exact"
    want = pc.normalise(img).convert(pil_mode)
    ncol = {"L": 1, "LA": 1, "RGB": 3, "RGBA": 3, "CMYK": 4}[pil_mode]
    want_col = pc.bands_u8(want)[:ncol]
    want_alpha = pc.bands_u8(img)[-1] if s in ("LA", "RGBA") else np.full((h, w), 255, np.uint8)
    if tuple(lay.bbox) != (left, top, left + w, top + h):
        ctx.fail(f"C07/layer-import/{tag}/offset-{off}-moved", "the layer does not come back at its offset", case,
                 tuple(lay.bbox), (left, top, left + w, top + h))
        result = "offset moved"
    if out[0] == "err" or out[1] is None:
        ctx.fail(f"C07/layer-export/{tag}/raises-{out[1] if out[0] == 'err' else 'None'}",
                 "layer.topil() of an imported layer fails", case, out[1:], "an image")
        return "export fails"
    gotb = pc.bands_u8(out[1])
    if len(gotb) < ncol or any(not np.array_equal(gotb[k], want_col[k]) for k in range(ncol)):
        kind = "inverted" if len(gotb) >= ncol and all(np.array_equal(255 - gotb[k], want_col[k]) for k in range(ncol)) else "colour-differs"
        ctx.fail(f"C07/layer-import/{tag}/{kind}", f"colour bands of the exported layer are not img.convert({pil_mode}) ({kind})",
                 case, [pc.describe_band(b, ev, pil_mode) for b in gotb], f"c{pil_mode}0..{ncol - 1}")
        result = kind
    got_alpha = None
    if al[0] == "ok" and al[1] is not None:
        got_alpha = np.asarray(al[1])
    if got_alpha is None or not np.array_equal(got_alpha, want_alpha):
        kind = "alpha-dropped" if got_alpha is not None and (got_alpha == 255).all() else "alpha-differs"
        ctx.fail(f"C07/layer-import/{tag}/{kind}", "the transparency of the exported layer is not the source alpha / opaque",
                 case, None if got_alpha is None else got_alpha.reshape(-1)[:6].tolist(), want_alpha.reshape(-1)[:6].tolist())
        result = kind
    if pil_mode in ("L", "LA", "RGB", "RGBA"):
        if not out[1].mode.endswith("A") or not np.array_equal(gotb[-1], want_alpha):
            ctx.fail(f"C07/layer-import/{tag}/alpha-band-missing", "layer.topil() has no / a wrong transparency band", case,
                     out[1].mode, "LA / RGBA with the source alpha")
            result = "alpha band wrong"
    # PIL vs NumPy on the layer
    if arr[0] == "ok" and arr[1] is not None:
        d, di = pil_vs_numpy(out[1], arr[1])
        if d > 1e-6:
            why = "numpy-not-inverted" if (pil_mode == "CMYK" and cmyk_only_inverted(out[1], arr[1])) else "values-differ"
            ctx.fail(f"C07/pil-numpy/layer/{pil_mode}/{why}",
                     f"layer.topil() and layer.numpy() disagree in a {pil_mode} document ({why}, max diff {d:.4f})",
                     case, d, "equal")
    # PIL vs NumPy on the reopened document (its merged image was regenerated by save)
    dp = _call(lambda: psd2.topil(apply_icc=False))
    da = _call(lambda: psd2.numpy())
    if dp[0] == "ok" and da[0] == "ok" and dp[1] is not None:
        d, di = pil_vs_numpy(dp[1], da[1])
        unm = dp[1].mode == "RGBA"
        if d > (1.0 / 255 + 1e-6 if (unm or depth != 8) else 1e-6):
            cm = CMODE_OF[docmode]
            if cm == "CMYK" and cmyk_only_inverted(dp[1], da[1], tol=1.0 / 255 + 1e-6):
                why = "numpy-not-inverted"
            elif cm == "RGB" and da[1].shape[2] > 3 and dp[1].mode == "RGB":
                why = "extra-channel-not-transparency/numpy-removes-matte"
            else:
                why = "values-differ"
            ctx.fail(f"C07/pil-numpy/doc-with-layers/{cm}/{why}",
                     f"topil() and numpy() of the reopened document disagree ({why}, max diff {d:.4f})", case, d, "equal")
    elif dp[0] == "err" or da[0] == "err":
        e = dp if dp[0] == "err" else da
        ctx.fail(f"C07/doc-export/with-layers/{docmode}/raises-{e[1]}", f"export of the reopened document raises {e[1]}: {e[2]}",
                 case, e[1:], "an image")
    return result


def cmyk_only_inverted(pil_img, arr, tol=1e-6):
    a = np.asarray(pil_img).astype(np.float32).reshape(pil_img.height, pil_img.width, -1) / np.float32(255.0)
    n = min(a.shape[2], arr.shape[2], 4)
    return float(np.abs((1 - a[:, :, :n]) - arr[:, :, :n]).max()) <= tol


def check_layer_host(ctx, path, img, comp, case):
    """import a layer into a document read from a file (PSB row tables, 16/32 bit, ...)"""
    from psd_tools import PSDImage
    from psd_tools.api.layers import PixelLayer
    from psd_tools.constants import ChannelID
    s = img.mode
    w, h = img.size

    def go():
        psd = PSDImage.open(path)
        psd.append(PixelLayer.frompil(img, psd, "imported", 1, 1, comp))
        p2 = pc.save_reopen(psd)[0]
        lay = p2[-1]
        if lay.name != "imported" or len(p2) != len(psd):
            return p2, None, None, None
        return p2, lay, lay.topil(apply_icc=False), lay.topil(ChannelID.TRANSPARENCY_MASK)
    r = _call(go)
    host = case["host"]
    if r[0] == "ok" and r[1][1] is None:
        p2 = r[1][0]
        kind = "file-with-Lr16-Lr32" if p2.depth in (16, 32) else f"host-{host}"
        ctx.fail(f"C07/layer-import/{kind}/layer-lost-on-save",
                 f"a layer imported into {host} is not in the reopened document", case,
                 [l.name for l in p2], "... + 'imported'")
        return
    if r[0] == "err":
        ctx.fail(f"C07/layer-import/host-{host}/{s}/raises-{r[1]}",
                 f"importing a layer into {host} and exporting it after save/open raises {r[1]}: {r[2]}", case, r[1:], "the layer")
        return
    p2, lay, out, al = r[1]
    pil_mode = p2.pil_mode
    want = pc.normalise(img).convert(pil_mode)
    ncol = {"L": 1, "LA": 1, "RGB": 3, "RGBA": 3, "CMYK": 4}.get(pil_mode)
    if ncol is None or out is None:
        ctx.skipped.append(f"host {host}: pil mode {pil_mode} not covered")
        return
    gotb = pc.bands_u8(out)
    want_alpha = pc.bands_u8(img)[-1] if s in ("LA", "RGBA") else np.full((h, w), 255, np.uint8)
    if any(not np.array_equal(gotb[k], pc.bands_u8(want)[k]) for k in range(ncol)):
        ctx.fail(f"C07/layer-import/host-{host}/{s}/colour-differs", "colour bands differ from img.convert(pil_mode)", case, None, None)
    if al is None or not np.array_equal(np.asarray(al), want_alpha):
        ctx.fail(f"C07/layer-import/host-{host}/{s}/alpha-differs", "transparency differs from the source alpha", case, None, None)


def meta_of(psd):
    from psd_tools.constants import Resource, Tag
    keys = (Tag.SAVING_MERGED_TRANSPARENCY, Tag.SAVING_MERGED_TRANSPARENCY16, Tag.SAVING_MERGED_TRANSPARENCY32)
    tb = psd.tagged_blocks
    mt = bool(tb and any(k in tb for k in keys))
    ids = psd.image_resources.get_data(Resource.ALPHA_IDENTIFIERS)
    ids = list(ids) if ids else []
    li = psd._record.layer_and_mask_information.layer_info
    lc = li.layer_count if li is not None else 0
    vi = psd.image_resources.get_data(Resource.VERSION_INFO)
    return mt, ids, max(lc, 0) if lc is not None else 0, ("-" if not vi else ("1" if vi.has_composite else "0"))


def apply_routes_pil(routes: str, planes, depth, size):
    from psd_tools.api import pil_io
    out = []
    for r in routes.split(";"):
        m = __import__("re").match(r"(\d+)(~?)(?:/(\d+))?$", r)
        k, invd, um = int(m.group(1)), m.group(2) == "~", m.group(3)
        b = np.asarray(pil_io._create_image(size, planes[k], depth))
        if invd:
            b = 255 - b
        if um is not None:
            b = pc.unmatte_u8(b, np.asarray(pil_io._create_image(size, planes[int(um)], depth)))
        out.append(b)
    return out


def check_fixtures(ctx, quick):
    """Export decisions (has_transparency, transparency index, preview gate, matte removal) on the
    metadata of real files: the model's routes applied to the real planes vs topil()/numpy();
    PIL/NumPy agreement on the files."""
    from psd_tools import PSDImage
    from psd_tools.api.numpy_io import has_transparency, get_transparency_index
    files = sorted((core.REPO / "tests" / "psd_files").glob("*.psd"))
    if quick:
        files = [f for f in files if f.stat().st_size < 120_000][:40]
    reqs, metas = [], []
    for f in files:
        try:
            psd = PSDImage.open(f)
        except Exception:
            continue
        cm = psd.color_mode.name
        if cm not in ("GRAYSCALE", "RGB", "CMYK") or psd.depth not in (8, 16, 32):
            ctx.hist("fixture_skipped_mode", f"{cm}/{psd.depth}")
            continue
        if psd.width * psd.height > (200 * 200 if quick else 1200 * 1200):
            continue
        mt, ids, lc, vi = meta_of(psd)
        reqs.append(("px.docroutes", cm, psd.channels, "1" if mt else "0", ",".join(map(str, ids)) or "-", lc, vi))
        metas.append((f, psd))
    ans = ctx.driver().batch(reqs)
    for (f, psd), a, rq in zip(metas, ans, reqs):
        case = {"kind": "fixture", "file": f.name, "meta": list(rq[1:])}
        ctx.corr_cases += 1
        ctx.count(("fixture", f.name))
        ctx.hist("fixture_class", f"{rq[1]}/ch{rq[2]}/d{psd.depth}/T{rq[3]}/ids{rq[4]}/layers{'+' if rq[5] else '0'}/vi{rq[6]}")
        if a[0] != "ok":
            ctx.disagree("fixture: model answers " + "/".join(a), case)
            continue
        m_ht, m_ti, m_pil, m_np = a[1:5]
        if (m_ht == "1") != bool(has_transparency(psd)) or int(m_ti) != get_transparency_index(psd):
            ctx.disagree("fixture: has_transparency / transparency index differ from the model",
                         {**case, "impl": [bool(has_transparency(psd)), get_transparency_index(psd)], "model": [m_ht, m_ti]})
        hdr = psd._record.header
        planes = _call(lambda: psd._record.image_data.get_data(hdr))
        out = _call(lambda: psd.topil(apply_icc=False))
        arr = _call(lambda: psd.numpy())
        if planes[0] != "ok":
            ctx.skipped.append(f"{f.name}: merged image unreadable ({planes[1]})")
            continue
        if m_pil.startswith("!"):
            if out[0] == "ok":
                ctx.disagree("fixture: model export fails, topil() succeeds", {**case, "model": m_pil})
        elif m_pil == "none":
            if not (out[0] == "ok" and out[1] is None):
                ctx.disagree("fixture: model says no preview", {**case})
        elif out[0] == "ok" and out[1] is not None:
            mm, routes = m_pil.split(":")
            exp = apply_routes_pil(routes, planes[1], psd.depth, (psd.width, psd.height))
            got = pc.bands_u8(out[1])
            if out[1].mode != mm or len(got) != len(exp) or any(not np.array_equal(g, e) for g, e in zip(got, exp)):
                ctx.disagree("fixture: topil() differs from the model's routes on the stored planes", {**case, "impl": out[1].mode, "model": m_pil})
        else:
            ctx.disagree("fixture: topil() fails", {**case, "impl": out[1:] if out[0] == "err" else None, "model": m_pil})
        if arr[0] == "err":
            ctx.fail(f"C07/numpy-export/{rq[1]}-ch{rq[2]}-depth{psd.depth}/raises-{arr[1]}",
                     f"numpy() of {f.name} raises {arr[1]}: {arr[2]}", case, arr[1:], "an array")
            continue
        # NumPy routes: channel count and matte removal
        nr = m_np.split(";")
        if arr[1].shape[2] != len(nr):
            ctx.disagree("fixture: numpy() channel count differs from the model", {**case, "impl": arr[1].shape, "model": m_np})
        # PIL vs NumPy agreement on the file
        if out[0] == "ok" and out[1] is not None:
            d, di = pil_vs_numpy(out[1], np.clip(arr[1], 0, 1))
            tol = (1.0 / 255 + 1e-6) if (psd.depth != 8 or out[1].mode == "RGBA") else 1e-6
            if d > tol:
                if rq[1] == "CMYK" and cmyk_only_inverted(out[1], arr[1], tol):
                    why = "numpy-not-inverted"
                else:
                    why = "values-differ"
                ctx.fail(f"C07/pil-numpy/doc/{'CMYK' if rq[1] == 'CMYK' else rq[1] + '-file'}/{why}",
                         f"topil() and numpy() of {f.name} disagree ({why}, max diff {d:.4f})", case, d, "equal up to quantisation")


def replay(ctx, data):
    inp = data.get("input") or {}
    print("replaying", data.get("signature"))
    rng = int(inp.get("img_seed", 0))
    from psd_tools.constants import Compression
    drv = ctx.driver()
    if inp.get("kind") == "doc":
        img = pc.make_image(inp["mode"], inp["w"], inp["h"], rng)
        model = drv.batch([("px.doc", inp["mode"])])[0]
        print("result:", check_doc(ctx, img, Compression(inp["compression"]), inp, model))
    elif inp.get("kind") == "layer":
        img = pc.make_image(inp["src"], inp["w"], inp["h"], rng)
        ch = {"L": 1, "LA": 2, "RGB": 3, "RGBA": 4, "CMYK": 4, "CMYKA": 5}[inp["doc"]]
        model = drv.batch([("px.layer", inp["src"], CMODE_OF[inp["doc"]], ch, inp["depth"])])[0]
        print("result:", check_layer(ctx, img, inp["doc"], inp["depth"], Compression(inp["compression"]), inp["offset"], inp, model))
    elif inp.get("kind") == "layer-host":
        img = pc.make_image(inp["src"], inp["w"], inp["h"], rng)
        check_layer_host(ctx, core.REPO / "tests" / "psd_files" / inp["host"], img, Compression(inp["compression"]), inp)
    elif inp.get("kind") == "fixture":
        check_fixtures(ctx, False)
    elif str(inp.get("kind", "")).startswith(("search-", "sample-")):
        c07_samples.replay_case(ctx, inp, classify_doc)
        for d in ctx.corr_disagreements:
            print("model/implementation disagreement:", d)
    for f in ctx.failures:
        print("observed:", f["signature"], "-", f["what"], "| observed", f["observed"], "| expected", f["expected"])
    if not ctx.failures:
        print("no failure reproduced on this tree")
    print("expected:", data.get("expected"))
    return 0
